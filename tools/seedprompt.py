#!/usr/bin/env python3
"""Prints the brief for a seeding sub-agent: seedprompt.py <PROP> <mA> <mB> [hint words...]
Creates the scratch worktree /tmp/seed/<PROP>/wt (detached at /repo HEAD) and /tmp/seed/<PROP>/out."""
import json, os, subprocess, sys

VERIF = os.path.dirname(os.path.dirname(os.path.abspath(__file__)))
prop, ma, mb = sys.argv[1:4]
avoid = " ".join(sys.argv[4:])
p = [json.loads(l) for l in open(f"{VERIF}/properties.jsonl") if json.loads(l)["id"] == prop][0]
base = f"/tmp/seed/{prop}"
os.makedirs(f"{base}/out", exist_ok=True)
if not os.path.isdir(f"{base}/wt"):
    subprocess.check_call(["git", "-C", "/repo", "worktree", "add", "--detach", f"{base}/wt", "HEAD"], stdout=subprocess.DEVNULL, stderr=subprocess.DEVNULL)
macro = prop in ("C19", "C20")
demo = (f"""a stand-alone demonstration directory {base}/out/demo_{ma}/ (and demo_{mb}/) holding a `run.sh` that takes the worktree path as its
  first argument, builds whatever it needs in a temporary directory outside the worktree (path dependencies on `<worktree>/a2lfile` and, with
  `a2lmacros_intree = {{ path = "<worktree>/a2lmacros", package = "a2lmacros" }}`, on the in-tree macro crate; note that a2lfile's own tests link the
  REGISTRY release of a2lmacros, not the in-tree crate, and that `a2lfile/src/specification_orig.rs` is not compiled by the crate - a copy of the crate
  whose specification.rs is replaced by specification_orig.rs and whose a2lmacros dependency is the in-tree path builds), runs the demonstration,
  exits 0 when it passes and non-zero (printing `test result: FAILED`) when it fails, and removes its temporary directory. ALSO put the test source
  as {base}/out/seed_demo_{ma}.rs / seed_demo_{mb}.rs (a copy is enough)."""
        if macro else
        f"""one integration test file per change, {base}/out/seed_demo_{ma}.rs and {base}/out/seed_demo_{mb}.rs, that is run by copying it to
  `a2lfile/tests/` of the worktree and `cargo test --offline -p a2lfile --test seed_demo_{ma}`; it must pass on the unchanged tree and fail
  (at least one `#[test]` FAILED, no build error) with the change applied.""")
print(f"""You are helping to evaluate a verification framework for the Rust project DanielT/a2lfile (a library that parses, edits, merges and writes
ASAM A2L files; a proc-macro crate `a2lmacros` generates parser/writer code from a spec DSL). Your job is to play the part of a developer who
introduces a subtle regression.

Your scratch git worktree of the repository is {base}/wt (detached HEAD). Work ONLY there and in {base}/out. Do not read or write anything under
/verif or /repo (the evaluation must be independent of what exists there). No network; use `cargo ... --offline`.

The property (a semantic guarantee users rely on):

{json.dumps(p, indent=1)}

Deliver TWO independent changes ({ma} and {mb}) to the repository's source (a2lfile/src/** or a2lmacros/src/**, not tests, not Cargo files) such that
each one, on its own:
  1. still compiles without new warnings-as-errors and keeps the existing test suite green:
     `cd {base}/wt && cargo test --workspace --no-fail-fast --offline` (146 tests) must pass with the change applied - run it to be sure;
  2. BREAKS the property above for some input / history / configuration;
  3. needs something SPECIFIC to manifest - a multi-step sequence of operations, an unusual but legal input shape, a boundary value, a particular
     combination of two features, a fault at a particular point, or two cooperating sites that each look fine alone - NOT something that ordinary use
     or the simplest example would expose at once. It should look like a plausible refactoring slip, optimisation or "simplification" that a reviewer
     could wave through, not like sabotage. Prefer parts of the behaviour behind the property that are easy to overlook.{(" Avoid these ideas, which have been used already: " + avoid + ".") if avoid else ""}
  The two changes should be in different functions (ideally different files / mechanisms of the property) and manifest through different shapes.

Deliverables, all in {base}/out/:
  * {ma}.diff and {mb}.diff: `git diff` output against the clean worktree HEAD, each applying on its own with `git apply` to a clean tree;
  * {demo}
  * notes.md: for each change - the site, what breaks, exactly what is needed to make it manifest, and the commands you ran with their results
    (suite green with change; demo passes without, fails with).

Leave the worktree clean at the end (`git -C {base}/wt checkout -- . && git -C {base}/wt clean -fdq a2lfile/tests`), but you may keep its `target/`
directory. Your final message should list the two changes in two or three lines each.""")
