#!/usr/bin/env python3
"""Seeded-defect bookkeeping.

  seed.py verify <PROP> <mN>     confirm in the scratch worktree /tmp/seed/<PROP>/wt that the change compiles, the repository
                                 suite stays green, the demo passes without and fails with the change; then store it under
                                 /verif/seeded/<PROP>-<mN>/
  seed.py run <PROP>-<mN> [ID..] apply the stored patch to /repo, run ./check <ID> (quick) for the given properties (default: the
                                 property it was written for), undo the patch, record the result in meta.json
"""
import json, os, shutil, subprocess, sys, time

VERIF = os.path.dirname(os.path.dirname(os.path.abspath(__file__)))
ENV = dict(os.environ, CARGO_NET_OFFLINE="true")


def sh(cmd, cwd=None, timeout=3600):
    r = subprocess.run(cmd, cwd=cwd, shell=True, stdout=subprocess.PIPE, stderr=subprocess.STDOUT, text=True, env=ENV, timeout=timeout)
    return r.returncode, r.stdout


def suite_ok(out):
    fails = [l for l in out.splitlines() if l.startswith("test result:") and " 0 failed" not in l]
    oks = [l for l in out.splitlines() if l.startswith("test result: ok")]
    return not fails and len(oks) >= 4 and "error: could not compile" not in out and "error[" not in out


def verify(prop, m):
    base = f"/tmp/seed/{prop}"
    wt = f"{base}/wt"
    diff = f"{base}/out/{m}.diff"
    demo = f"{base}/out/seed_demo_{m}.rs"
    assert os.path.exists(diff) and os.path.exists(demo), "deliverables missing"
    head = subprocess.check_output(["git", "-C", "/repo", "rev-parse", "HEAD"], text=True).strip()
    sh("git checkout -q -- . && git clean -fdq a2lfile/tests", cwd=wt)
    rc, out = sh(f"git checkout -q --detach {head}", cwd=wt)
    assert rc == 0, out
    res = {"property": prop, "id": f"{prop}-{m}", "verified_at_repo_commit": head[:7]}
    demodir = f"{base}/out/demo_{m}"
    if os.path.exists(f"{demodir}/run.sh"):
        # stand-alone demonstration script (builds its own copy of the crate from the worktree)
        def run_demo():
            return sh(f"bash {demodir}/run.sh {wt}", cwd=demodir)
        democmd = "sh demo/run.sh <worktree>"
    elif os.path.exists(f"{demodir}/Cargo.toml"):
        # stand-alone cargo project with path dependencies on the worktree (needed for the in-tree macro crate)
        def run_demo():
            return sh("cargo test --offline", cwd=demodir)
        democmd = "cd demo && cargo test --offline (path deps on the worktree)"
    else:
        def run_demo():
            shutil.copy(demo, f"{wt}/a2lfile/tests/seed_demo_{m}.rs")
            r = sh(f"cargo test --offline -p a2lfile --test seed_demo_{m}", cwd=wt)
            os.remove(f"{wt}/a2lfile/tests/seed_demo_{m}.rs")
            return r
        democmd = "cargo test --offline -p a2lfile --test seed_demo"
    rc, out = run_demo()
    res["demo_without_change"] = "pass" if rc == 0 else "FAIL"
    rc, out = sh(f"git apply {diff}", cwd=wt)
    if rc != 0:
        res["applies"] = False
        print(json.dumps(res, indent=1)); print(out)
        sh("git checkout -q -- . && git clean -fdq a2lfile/tests", cwd=wt)
        return res
    res["applies"] = True
    rc, out = run_demo()
    res["demo_with_change"] = "fail" if (rc != 0 and "test result: FAILED" in out) else ("PASSES" if rc == 0 else "BUILD-ERROR")
    res["demo_failures"] = [l.strip() for l in out.splitlines() if l.startswith("test ") and l.rstrip().endswith("FAILED")][:8]
    rc, out = sh("cargo test --workspace --no-fail-fast --offline", cwd=wt)
    res["suite_with_change"] = "green" if (rc == 0 and suite_ok(out)) else "RED"
    sh("git checkout -q -- . && git clean -fdq a2lfile/tests", cwd=wt)
    ok = res["demo_without_change"] == "pass" and res["demo_with_change"] == "fail" and res["suite_with_change"] == "green"
    res["kept"] = ok
    print(json.dumps(res, indent=1))
    if ok:
        d = f"{VERIF}/seeded/{prop}-{m}"
        os.makedirs(d, exist_ok=True)
        shutil.copy(diff, f"{d}/patch.diff")
        shutil.copy(demo, f"{d}/seed_demo.rs")
        if os.path.isdir(demodir):
            shutil.rmtree(f"{d}/demo", ignore_errors=True)
            shutil.copytree(demodir, f"{d}/demo", ignore=shutil.ignore_patterns("target", "work"))
        notes = f"{base}/out/notes.md"
        if os.path.exists(notes):
            shutil.copy(notes, f"{d}/notes_from_author.md")
        meta = {"id": f"{prop}-{m}", "breaks_property": prop, "needs_to_manifest": "see notes_from_author.md",
                "confirmed": {"commands": [democmd + " (without change: pass)",
                                           "git apply patch.diff; " + democmd + " (fail)",
                                           "cargo test --workspace --no-fail-fast --offline (green with change)"],
                              "repo_commit": head[:7], "result": res},
                "check_runs": []}
        with open(f"{d}/meta.json", "w") as f:
            json.dump(meta, f, indent=1)
    return res


def run(sid, props):
    d = f"{VERIF}/seeded/{sid}"
    meta = json.load(open(f"{d}/meta.json"))
    if not props:
        props = [meta["breaks_property"]]
    st = subprocess.check_output(["git", "-C", "/repo", "status", "--porcelain"], text=True).strip()
    assert st == "", "/repo is not clean: " + st
    rc, out = sh(f"git -C /repo apply {d}/patch.diff")
    if rc != 0:
        print("patch does not apply:", out)
        return
    try:
        for p in props:
            t0 = time.time()
            rc, out = sh(f"./check {p} --tier quick", cwd=VERIF, timeout=3600)
            keys = [l.strip()[5:] for l in out.splitlines() if l.strip().startswith("key: ")]
            viol = [l for l in out.splitlines() if l.startswith("VIOLATION")]
            rec = {"check": p, "tier": "quick", "exit": rc, "violations": len(viol), "keys": keys[:6], "wall_s": round(time.time() - t0, 1),
                   "repo_commit": subprocess.check_output(["git", "-C", "/repo", "rev-parse", "--short", "HEAD"], text=True).strip()}
            meta["check_runs"] = [r for r in meta["check_runs"] if r["check"] != p] + [rec]
            print(sid, p, "exit", rc, "violations", len(viol), keys[:3])
            if rc == 2:
                print(out[-1500:])
    finally:
        sh("git -C /repo checkout -- .")
    with open(f"{d}/meta.json", "w") as f:
        json.dump(meta, f, indent=1)
    # restore the evidence of the unchanged tree
    for p in props:
        sh(f"./check {p} --tier quick", cwd=VERIF)


def runall():
    import glob
    for d in sorted(glob.glob(f"{VERIF}/seeded/*/meta.json")):
        sid = os.path.basename(os.path.dirname(d))
        rc, out = sh(f"git -C /repo apply --check {VERIF}/seeded/{sid}/patch.diff")
        if rc != 0:
            print(sid, "PATCH DOES NOT APPLY to the current /repo HEAD")
            continue
        run(sid, [])


if __name__ == "__main__":
    if sys.argv[1] == "runall":
        runall()
    elif sys.argv[1] == "verify":
        verify(sys.argv[2], sys.argv[3])
    elif sys.argv[1] == "run":
        run(sys.argv[2], sys.argv[3:])
