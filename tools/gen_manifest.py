#!/usr/bin/env python3
"""Regenerates /verif/MANIFEST.json from the table below (keeps it valid at all times)."""
import json, os, sys
HERE = os.path.dirname(os.path.dirname(os.path.abspath(__file__)))

# id -> (technique, level text, level note, design section)
CHECKS = {
 "C20": ("lockstep of two builds of a probe binary (shipped specification.rs vs the in-tree macro expanding specification_orig.rs) on the exhaustively enumerated corpus; transcripts compared by hash",
         "At check time /repo/a2lfile and /repo/a2lmacros are copied to a scratch directory, specification.rs is replaced by specification_orig.rs, the a2lmacros dependency is pointed at the copied in-tree crate and the probe is built against it; the same probe is built against the shipped crate. Both run on the C04 space (every tag x slot x enum item x 6 versions and every single deviation), a stride of the C01 cases and every token mutation / truncation of the carriers (1e5 inputs quick) with strict on and off; per case the transcript (result, canonical Debug of the model, Display of every diagnostic, written text, check() count, written text after sort()) must hash equal. A regenerated crate that does not compile is a violation.",
         "equality of behaviour is established on the enumerated corpus only; the probe canonicalises the Debug form because hash maps inside generic IF_DATA print in a per-process order",
         "DESIGN.md 5/C20"),
 "C19": ("bounded-exhaustive enumeration of conforming instances and of single-edit mismatching definitions for 6 hand-written and 403 (thorough: 2059) generated macro invocations compiled with the in-tree a2lmacros; typed load/store/write round trips checked on every one",
         "Six hand-written a2ml_specification! invocations (all scalars, char[n], arrays, enums with/without values, named/anonymous/nested structs, sequences incl. numeric ones, taggedstruct/taggedunion with blocks and repetition, references to earlier types, identical tags at different levels, colliding generated type names) plus one generated invocation per A2ML definition of the reference enumerator (depth 1 over all leaf types, arrays of arrays, sequences of arrays; thorough: also depth 2 over uint; each plain, with a named top-level type and with the first nested type declared by name first), all expanded by the in-tree macro crate. The generated text constant is parsed by an independent A2ML parser and compared with a hand-written plain form (generated ones: with the definition they were generated from); every enumerated instance (cap 120 / 400, in-file and built-in) must be valid, decode to Some(v), store/decode back to v, write the same payload tokens and survive update_a2ml + write + load; instances of every single-edit variant of the definition decoded with the typed code give None or a value, never a panic. A macro change whose expansion no longer compiles is reported as a violation by the driver.",
         "the specification set is fixed at build time (committed generated files); shapes the macro rejects at expansion time (arrays of enum / struct, anonymous struct without a tag to name it) cannot be observed; the structural comparison of stored vs parsed generic data is replaced by comparing written tokens and typed values (a tag without a member is represented differently by the two producers)",
         "DESIGN.md 5/C19"),
 "C18": ("exhaustive enumeration of A2ML definitions from a grammar-based generator (programs) x bounded-exhaustive conforming instances x all single-token deviations x supply modes, judged by an independent reference matcher (strict and lenient) and payload-token equality",
         "Programs: every A2ML definition the generator builds to nesting depth 2 (thorough 3, and 4 over the leaf type uint; no thinning) from 14 leaf types (all 10 scalars, char[n], enums with and without values, 1- and 2-dimensional arrays), arrays of enums / structs / arrays, sequences of arrays, structs, taggedstruct / taggedunion items in the forms tag, tag member, block, repeated, repeated block, tag (member)*, top-level (member)*, plus variants where the top-level or the first nested enum / struct / taggedstruct / taggedunion is declared by name and referenced later. Per definition: all instances of the enumerator (cap 8 / 24) supplied in-file, built-in or both; for the first instances every single-token deletion, duplication, replacement by another lexical class and appended token that keeps /begin-/end balanced, every block written as keyword item and every keyword item with its next 0..4 values written as block. Strict matcher accepts => ifdata_valid and payload tokens preserved (integer notation kept, floats at type precision); lenient matcher rejects => load succeeds, invalid, payload preserved; in between don't care; reload equal; ifdata_cleanup() keeps exactly the valid blocks.",
         "definitions are restricted to LL(1)-unambiguous ones (distinct tags per depth); the library's documented leniencies in non-strict mode (identifier read as string, over-long string, duplicate non-repeatable tag, empty IF_DATA) are don't-care",
         "DESIGN.md 5/C18"),
 "C16": ("exhaustive enumeration of file-tree splittings (every contiguous run of children of every node moved to include files: single, nested, sibling, nested+sibling) x directory x name syntax x separator, executed against real files on tmpfs with a lockstep against the flattened text; fault trees in a child process",
         "For a 4-element module, a 3-module project and two IF_DATA-bearing modules: every contiguous run of children of every node moved into an include file, optionally with a nested include, a sibling include or both, x directory of the file {., sub/, sub/sub2/} x directory of the nested file {., inner/} x quoted / bare names x '/' and '\\' separators; the A2ML block including part of its definition; a nested block, repeated blocks or the whole content of an IF_DATA payload moved to an include file (with and without A2ML); fault cases (missing, a directory, empty, no name, self-inclusion, mutual inclusion, A2ML self-inclusion) in a child process with a timeout. Oracle: load(main) equals load_from_string(flattened) including the number of diagnostics; write next to the tree and reload gives an equal model with one /include per directly included file; merge_includes() gives include-free text that reloads equal; faults return an error naming the include in a live process.",
         "the working directory is an empty directory so that no name resolves by accident; absolute include paths and symlinks are not explored",
         "DESIGN.md 5/C16"),
 "C17": ("lockstep of load(file) against load_from_string(decoded text) over the enumerated space documents x 10 encodings x length residues, plus invalid-Unicode variants and an exhaustive 4-byte-prefix sweep",
         "Every carrier document that holds a string (thorough: also every optional-slot document) with 2-, 3- and 4-byte characters, U+FFFD and a UTF-8 look-alike of Latin-1 text in a string, a block comment and a line comment x UTF-8, UTF-16LE/BE, UTF-32LE/BE each with and without BOM x trailing padding 0..3; three ways of making the UTF-8 file invalid Unicode, which must behave like the Latin-1 reading of the whole file; every 4-byte prefix over the 9 encoding-relevant byte values in front of a body in five encodings (no panic).",
         "first character of the text is ASCII (format requirement); diagnostics are compared by number and variant because they embed the file name",
         "DESIGN.md 5/C17"),
 "C15": ("explicit-state exploration of edit histories over {sort_new_items, push kind k, merge module j} with the real A2lFile as state: all action sequences to depth 4/5, deviation-bounded long histories (<= 2 non-default actions at every pair of positions), consecutive-call ladders",
         "(i) every sequence of the 10 actions up to depth 4 (thorough 5) from 4 start files, observed after each step; (ii) histories of 40 (thorough 72 and 300) sort_new_items calls with at most two other actions at every (pair of) position(s); (iii) 64 consecutive calls on files with 1..1000 elements and on 54 files with three kinds in every order in blocks of 2..40 (IF_DATA / USER_RIGHTS in front), 40 (200) insert/sort cycles per kind, 2 and 5 new elements of one kind per cycle on a 30+30 file. Observation: order of the module's children in write_to_string. Oracle: the relative order of elements that have a position never changes, after a call every newly placed element sits in the run directly behind the last placed element of its kind, elements without an anchor stay behind all placed ones, no panic or overflow (overflow checks on).",
         "'placed' means the element has a position key (uid != 0); elements of a kind without any placed element keep floating at the end, which the repository's own test asserts as intended; IF_DATA blocks have no identity and are only covered by order stability",
         "DESIGN.md 5/C15"),
 "C14": ("exhaustive enumeration of unsorted modules (all duplicate-free sequences over 6 kinds x 4 names up to length 3/4, all ordered pairs of list kinds, singletons at every position, two modules) with permutation / grouping / reload / idempotence oracles",
         "All duplicate-free sequences of up to 3 (thorough 4) elements over 6 element kinds and the names {aa, ab, b, ba}, every ordered pair of the 22 module-level list kinds with and without comments, each singleton at every position, two modules in both orders, the rich corpus documents. After sort(): every list holds the same elements with unchanged content; in the written text each kind is contiguous and names ascend; the written file reloads to an equal model in equal list order and is a textual fixpoint; a second sort() changes nothing.",
         "names are lower-case ASCII without digits so that every reading of 'alphabetical' agrees",
         "DESIGN.md 5/C14"),
 "C11": ("exhaustive single-reference (thorough: pairwise) corruption of a fully consistent generated module over every covered position x every alternative target class; exhaustive structural-oddity grid for totality",
         "One consistent module in which each of the 48 reference positions inspected by check() is populated (empty report required) x every alternative target of the position's namespace class: missing, another kind of the same namespace, NO_COMPU_METHOD / NO_INPUT_QUANTITY / NO_INVERSE_TRANSFORMER, THIS.<component> valid and invalid, a name of another namespace; thorough adds all pairs. The names in the CrossReferenceErrors must equal the names made missing. Totality: 8 characteristic types x 0..7 AXIS_DESCR x 5 axis kinds x 3 record layouts for CHARACTERISTIC and TYPEDEF_CHARACTERISTIC, duplicate names within every repeatable named kind of the module, cycles, empty lists, REF_MEMORY_SEGMENT without MOD_PAR, every corpus document and the cleanup modules: check() returns and the model is unchanged.",
         "'covered' positions are those check() inspects at the pinned commit (DESIGN appendix A, column K)",
         "DESIGN.md 5/C11"),
 "C10": ("exhaustive enumeration of small helper reference graphs (all 3-node GROUP / FUNCTION / UNIT graphs x content x users) and of every usage position x {used, unused, dangling, used by a removable helper}; invariant oracle on module snapshots before / after / after-twice",
         "All SUB_GROUP relations on 3 GROUPs x per-group content x ROOT x USER_RIGHTS subsets, all SUB_FUNCTION relations on 3 FUNCTIONs x content x FUNCTION_LIST users, all REF_UNIT functions on 3 UNITs x used subsets, and every usage position of COMPU_METHOD, conversion tables, UNIT, RECORD_LAYOUT, GROUP and FUNCTION as the only user x {used, unused, dangling, used only by a helper that is itself removable} x target kind. After cleanup: only helper kinds removed, objects and typedefs equal modulo previously dangling references, no remaining element refers to a removed one, a check()-clean file stays clean, a second cleanup changes nothing (text), the cleaned file reloads equal.",
         "graphs with more than three helpers of one kind are not explored; completeness of removal is asserted only through idempotence",
         "DESIGN.md 5/C10"),
 "C08": ("explicit enumeration of all overlap assignments per namespace (cells name x side x kind x content), bfs over merge histories with state deduplication, algebraic cases; relational oracle on module snapshots",
         "For each of 12 namespaces every assignment of {absent, (kind, content)} to the cells (name, side) over the name sets {X,Y} and {X, X.MERGE, X.MERGE2 | X.MERGE.MERGE} (all kinds of the shared namespaces), the reference-site space of C09, merge empty / clone / into empty from 8 start modules and a breadth-first search over merge histories (depth 3, thorough 4) from a menu of 6 modules with states deduplicated on module content. After every merge: A's elements unchanged (GROUP/FUNCTION may gain members), every element of B represented under an observed renaming that is fresh with respect to A, identical elements shared and only those, no duplicate names per namespace, nothing invented, and the merged file reloads to an equal model.",
         "USER_RIGHTS, SYSTEM_CONSTANT, MEMORY_LAYOUT and the singletons are all-or-nothing by design; element content is represented by two variants per kind",
         "DESIGN.md 5/C08"),
 "C09": ("exhaustive enumeration of reference positions x target kinds x overlap patterns x referrer novelty (thorough: pairs of positions) with a reference-graph oracle under the observed renaming",
         "60 referrer shapes covering every reference position of the grammar (including those nested in AXIS_DESCR, OVERWRITE, VAR_CRITERION and the singletons MOD_COMMON / VARIANT_CODING) x every kind of the target namespace x target {absent, identical, conflicting, conflicting with X.MERGE taken in A, conflicting with X.MERGE present in B and referenced there} x referrer {new, conflicting}, with a same-named conflicting element in another namespace, plus identifier positions that are not references; thorough adds all pairs of positions in one module. The element representing B's referrer must hold, at every position, the name of the element representing its original target; non-reference identifiers must stay unchanged.",
         "elements of B shared as identical are A's elements (their references are A's); the table of reference positions (vcore/src/refsites.rs) is derived from the frozen grammar by hand",
         "DESIGN.md 5/C09"),
 "C06": ("lockstep of strict and non-strict load on the exhaustively enumerated valid / single-fault (thorough: double-fault) document space; detection token located by the reference interpreter",
         "For every document of the C04 space (valid x 6 versions, every single deviation), every located single fault rendered one token per line, every token deletion / duplication / swap / truncation of every carrier (thorough: all pairs of deviations): both modes are run and the relations R1 strict Ok => lax Ok, R2 lax clean => strict Ok with equal model, R3 (no IF_DATA) strict Err <=> lax Err or a non-deprecation diagnostic, R4 equal models, R5 the diagnostic names the file (string: empty, load(file): the path) and the line of the token at which the reference interpreter rejects the document.",
         "R5 is evaluated for single deviations with a well-defined detection token and not for documents with A2ML/IF_DATA or blind token mutations; after a recoverable problem followed by a hard error the non-strict log is unobservable (API returns only the error)",
         "DESIGN.md 5/C06"),
 "C07": ("exhaustive enumeration of unknown-element injections (every block with a tagged region x every child position x 12 payload shapes; thorough: two payloads, pairs of children) with a differential oracle against the document without the payload",
         "Every block kind of the grammar that admits optional sub-elements, as carrier and with each optional child, with an unknown element inserted before the first, between and after the last child, for 12 payload shapes (keyword / block, scalar arguments, nested and same-tag nested blocks, comments, a string containing an end tag): non-strict load gives exactly one UnknownSubBlock warning naming the tag and a model equal to the model of the document without the payload; strict load fails with UnknownSubBlock naming the tag.",
         "scope restrictions of the statement (payload tags never collide with the enclosing block's tags; no bare keyword directly behind an open-ended list)",
         "DESIGN.md 5/C07"),
 "C03": ("exhaustive enumeration of small inputs per family (byte strings, lexical-unit sequences, document prefixes and token mutations, A2ML unit sequences, nesting ladder) x configurations, each executed on the real loader under catch_unwind, overflow checks and a hang watchdog",
         "All byte strings of length <= 2 and all strings of length <= 4 (thorough 5) over a 14-byte alphabet through load(file); all sequences of <= 3 (4) lexical units, spaced and unspaced, bare / inside MODULE / inside IF_DATA with A2ML, crossed with strict, a2ml_spec none/valid/invalid and entry point load_from_string / load_fragment; one more unit for a single configuration; every byte prefix and every single-token deletion, duplication and swap of every carrier and rich document; all A2ML unit sequences of <= 3/4 (4/5) units as in-file A2ML and as built-in specification; nesting ladder 1..64; include trees: all sequences of <= 3 (4) items over an inline element and ten /include directives (flat, nested, two levels, empty, cyclic, truncated, IF_DATA, include as last token, missing) loaded from files. The harness is built with overflow checks and debug assertions so that arithmetic overflow is a panic.",
         "inputs longer than the bounds, stack exhaustion by nesting deeper than 64 and memory exhaustion by size are outside the explored space; a hang is reported by a 20 s watchdog",
         "DESIGN.md 5/C03"),
 "C05": ("deviation-bounded exhaustive enumeration of layouts (whitespace/comment shape at every token gap, pairs on selected documents) with a token-line oracle from an independent tokenizer; exhaustive single-edit histories per list kind with an exact line-diff oracle",
         "(i)/(ii): every carrier and rich document x 7 whitespace shapes at every gap the scope allows x 7 comment shapes at every block-level gap, CRLF, all pairs of such deviations on selected documents; 10 IF_DATA payloads (interpreted and uninterpreted) on one line and one token per line x 7 whitespace shapes at every payload gap: each significant token is on the same line in input and output, and the writer's own output is reproduced byte for byte. (iii): for each of 18 module-level list kinds, a 3-element document in 3 layouts x {edit string field, edit numeric field, remove first/middle/last, push builder-made element with/without sort_new_items}: the new text equals the old text with exactly the lines of that object changed, removed or inserted.",
         "scope of the quantifier (canonical order, include-free, no raw line breaks in strings, comments only between sub-elements); nested list kinds are represented by ANNOTATION/AXIS_DESCR-like children only through the layout part",
         "DESIGN.md 5/C05"),
 "C02": ("deviation-bounded exhaustive enumeration of valid documents; input and first output compared as canonical token lists of the reference interpreter's trees; exhaustive uninterpreted IF_DATA token sequences; limit literals per integer width",
         "Every document of the grammar corpus, every value class at every scalar parameter, 7 comment shapes at every gap, reversed RECORD_LAYOUT positions, all token sequences of length <= 3 (thorough 4) over a 15-token alphabet inside uninterpreted IF_DATA (with and without leading tag), A2ML-described IF_DATA; every integer parameter x 9..12 literals at and beyond its limits. Oracle: same significant tokens in the same order modulo number/escape notation and the documented reordering; block-level comments kept; an out-of-range literal is rejected, diagnosed or preserved - never silently changed.",
         "fractions inside uninterpreted IF_DATA are compared at f32 precision (the library stores them as f32); comments outside blocks with optional sub-elements may be dropped (statement)",
         "DESIGN.md 5/C02"),
 "C01": ("deviation-bounded exhaustive enumeration of documents (grammar derivations x layout x value classes x IF_DATA modes), each run through load/write/load/write on the real code with a byte-fixpoint oracle",
         "All carrier documents of the grammar with every optional slot (once, twice, pairs), every enum item, each also with CRLF; 7 whitespace and 7 comment shapes at every token gap of every carrier (all pairs on selected documents); every value class at every scalar parameter (integers per width/notation, 28 float notations, all strings over 17 escape units up to length k, identifier shapes); IF_DATA with/without A2ML and built-in spec; 1..64 (257) elements of each list kind pushed onto a loaded and a new file; the MODULE content of every document through load_fragment; every document written with a banner to a file and loaded from it. For each accepted input: reload succeeds, models equal, second write byte-identical (third cycle classifies drift). Exhaustive for <= 1 deviation per document (2 on selected documents).",
         "inputs the loader rejects are outside the quantifier; API-built models are covered by the builder sweep only for the kinds listed in the evidence; unbounded string content is represented by the escape-unit alphabet",
         "DESIGN.md 5/C01"),
 "C04": ("deviation-bounded exhaustive enumeration of grammar derivations (every tag x parameter x slot x enum item x block form x 6 versions) against a reference interpreter over the frozen grammar, plus field-by-field match of the loaded model",
         "Every element kind, parameter position, optional slot (once and twice), enum item and pair of slots of the frozen A2L 1.7.1 grammar, under all six ASAP2 versions, and every single deviation of the element under test (parameter deleted / wrong lexical class, extra token, block form flipped, wrong end tag, unknown block, required element missing): strict and non-strict load of the real parser compared with an independent table-driven recogniser and with the values the document holds (read back through Debug of the model). Exhaustive for 0/1 (thorough: 2) deviations from the carrier document of each element.",
         "the frozen grammar is the reference (its equality with the repository DSL is reported); documents with more than two simultaneous deviations are not explored; string/number value classes are covered by C01/C02",
         "DESIGN.md 5/C04"),
 "C12": ("exhaustive grid enumeration (datatype x conversion x coefficient grid x limit placement) against a closed-form range",
         "Every grid point of 11 data types x all conversion kinds x a two-signed coefficient grid (1.2k conversions quick, 8k thorough) x 5 placements of the declared limits, for every limit-checked element kind (incl. the five STD_AXIS positions), loaded and checked by the real code and compared with the closed-form range. Exhaustive over the grid.",
         "verdicts inside the tolerance band (between the range and 10x the documented 1e-6 tolerance) are not examined; grid points whose range or an intermediate product overflows f64 are skipped and counted; RAT_FUNC b=0 excluded",
         "DESIGN.md 5/C12"),
 "C13": ("explicit-state BFS over the real ItemList (complete reachable state set) against a Vec model; cross-checked by a non-deduplicated DFS and by a second explorer (stateright 0.31 spawn_bfs over the same transition function) that must reach the same state count",
         "Complete reachable state set of the real ItemList over a 4-name (thorough: 7-name, 13700 states) alphabet under every list operation with every in- and out-of-range argument; every lookup checked in every state against a vector-of-names model. Exhaustive within the alphabet, so a clean run is a coverage statement, not a sample.",
         "names unique (precondition); std Vec/HashMap correct; behaviour over more than 7 names not explored (ItemList code is index arithmetic that does not depend on the alphabet)",
         "DESIGN.md 5/C13"),
}

NOT_YET = {}

def main():
    props = [json.loads(l)["id"] for l in open(os.path.join(HERE, "properties.jsonl"))]
    checks = []
    for pid in props:
        if pid in CHECKS:
            tech, text, note, ref = CHECKS[pid]
            checks.append({
                "property_id": pid,
                "quick_cmd": f"./check {pid} --tier quick",
                "thorough_cmd": f"./check {pid} --tier thorough",
                "evidence_file": f"/verif/evidence/{pid}.json",
                "replay_cmd_template": "./check replay {path}",
                "engine": "vharness",
                "level_claimed": {"category": "model_checking", "text": text, "design_ref": ref},
                "level_note": note,
                "technique": tech,
            })
    na = [{"property_id": p, "reason": NOT_YET.get(p, "check under construction in this session; not yet claimed")}
          for p in props if p not in CHECKS]
    m = {
        "version": 1,
        "setup_cmd": "./check setup",
        "hooks": {
            "guard": "danielt_a2lfile_verif",
            "enable": "no hooks are needed: every observation point is reachable through the public API; the guard name is reserved and unused",
            "baseline_off_cmd": "cd /repo && cargo test --workspace --no-fail-fast --offline",
            "source_commits": [],
            "add_only": True,
        },
        "engines": [
            {"name": "vharness", "path": "/verif/harness",
             "serves_properties": sorted(CHECKS.keys()),
             "kind_free_text": "Rust workspace linking the real /repo/a2lfile: deviation-bounded exhaustive enumeration (dbx), explicit-state BFS with the real object in the state, lockstep of two runs; reference models in vcore (no a2lfile dependency)"},
        ],
        "checks": checks,
        "not_applicable": na,
        "notes": "All checks rebuild the harness against /repo's working tree (path dependency) before exploring. Exit 0/1/2 = held / violation / machinery failure. Known findings: /verif/known_findings.json.",
    }
    with open(os.path.join(HERE, "MANIFEST.json"), "w") as f:
        json.dump(m, f, indent=1)
    print("MANIFEST.json written:", len(checks), "checks,", len(na), "not_applicable")

if __name__ == "__main__":
    main()
