#!/usr/bin/env python3
"""Regenerates /verif/MANIFEST.json from the table below (keeps it valid at all times)."""
import json, os, sys
HERE = os.path.dirname(os.path.dirname(os.path.abspath(__file__)))

# id -> (technique, level text, level note, design section)
CHECKS = {
 "C20": ("lockstep of two builds of a probe binary (shipped specification.rs vs the in-tree macro expanding specification_orig.rs) on the exhaustively enumerated corpus; transcripts compared by hash",
         "At check time /repo/a2lfile and /repo/a2lmacros are copied to a scratch directory, specification.rs is replaced by specification_orig.rs, the a2lmacros dependency is pointed at the copied in-tree crate and the probe is built against it; the same probe is built against the shipped crate. Both run on the C04 space (every tag x slot x enum item x 6 versions and every single deviation), a stride of the C01 cases, every position-carrying child kind of RECORD_LAYOUT out of position order (in the middle, first, last) and every token mutation / truncation of the carriers (1e5 inputs quick) with strict on and off; per case the transcript (result, canonical Debug of the model, Display of every diagnostic, written text, check() count, written text after sort()) must hash equal. A regenerated crate that does not compile is a violation.",
         "equality of behaviour is established on the enumerated corpus only; the probe canonicalises the Debug form because hash maps inside generic IF_DATA print in a per-process order",
         "DESIGN.md 5/C20"),
 "C19": ("bounded-exhaustive enumeration of conforming instances and of single-edit mismatching definitions for 7 hand-written and 638 (thorough: 2625) generated macro invocations compiled with the in-tree a2lmacros; typed load/store/write round trips checked on every one",
         "Six hand-written a2ml_specification! invocations (all scalars, char[n], arrays, enums with/without values, named/anonymous/nested structs, sequences incl. numeric ones, taggedstruct/taggedunion with blocks and repetition, references to earlier types, identical tags at different levels, colliding generated type names) plus one generated invocation per A2ML definition of the reference enumerator (depth 1 over all leaf types, arrays of arrays, sequences of arrays; thorough: also depth 2 over uint; each plain, with a named top-level type and with the first nested type declared by name first), all expanded by the in-tree macro crate. The generated text constant is parsed by an independent A2ML parser and compared with a hand-written plain form (generated ones: with the definition they were generated from); every enumerated instance (cap 120 / 400, in-file and built-in) must be valid, decode to Some(v), store/decode back to v, write the same payload tokens and survive update_a2ml + write + load on a new file and on loaded files without A2ML / with another A2ML block; instances of every single-edit variant of the definition decoded with the typed code never panic, give None when the data lacks something the specification requires and conforms under no reading, and - when the data also conforms to the specification and a value is returned - a value whose store + write reproduces the parsed content. A macro change whose expansion no longer compiles is reported as a violation by the driver.",
         "the specification set is fixed at build time (committed generated files); shapes the macro rejects at expansion time (arrays of enum / struct, anonymous struct without a tag to name it) cannot be observed; the structural comparison of stored vs parsed generic data is replaced by comparing written tokens and typed values (a tag without a member is represented differently by the two producers)",
         "DESIGN.md 5/C19"),
 "C18": ("exhaustive enumeration of A2ML definitions from a grammar-based generator (programs) x bounded-exhaustive conforming instances x all single-token deviations x supply modes, judged by an independent reference matcher (strict and lenient) and payload-token equality",
         "Programs: every A2ML definition the generator builds to nesting depth 3 (thorough: also depth 4 over the leaf type uint; no thinning) from 14 leaf types (all 10 scalars, char[n], enums with and without values, 1- and 2-dimensional arrays), arrays of enums / structs / arrays / strings with equal and unequal dimensions (char[8][2], char[4][3][2]), sequences of arrays, structs, taggedstruct / taggedunion items in the forms tag, tag member, block, repeated, repeated block, tag (member)*, top-level (member)*, plus variants where the top-level or the first nested enum / struct / taggedstruct / taggedunion is declared by name and referenced later. Per definition: all instances of the enumerator (cap 8 / 24) supplied in-file, built-in or both; for the first instances every single-token deletion, duplication, replacement by another lexical class and appended token that keeps /begin-/end balanced, every block written as keyword item and every keyword item with its next 0..4 values written as block. Strict matcher accepts => ifdata_valid and payload tokens preserved (integer notation kept, floats at type precision); lenient matcher rejects => load succeeds, invalid, payload preserved; in between don't care; reload equal; ifdata_cleanup() keeps exactly the valid blocks. Cleanup patterns: each of the 11 element kinds that can hold IF_DATA x every sequence of <= 3 (thorough 4) blocks over two valid and two invalid payloads x definition in the file / built-in / absent: the cleaned model equals the model of the document written without the invalid blocks, the second call changes nothing, the result reloads equal.",
         "definitions are restricted to LL(1)-unambiguous ones (distinct tags per depth); the library's documented leniencies in non-strict mode (identifier read as string, over-long string, duplicate non-repeatable tag, empty IF_DATA) are don't-care",
         "DESIGN.md 5/C18"),
 "C16": ("exhaustive enumeration of file-tree splittings (every contiguous run of children of every node moved to include files: single, nested, sibling, nested+sibling, and every include tree up to three levels deep with at most two includes per file) x directory x name syntax x separator, executed against real files on tmpfs with a lockstep against the flattened text; fault trees in a child process",
         "For a 4-element module, a 3-module project and two IF_DATA-bearing modules: every contiguous run of children of every node moved into an include file, optionally with a nested include, a sibling include or both, x directory of the file {., sub/, sub/sub2/} x directory of the nested file {., inner/} x quoted / bare names x '/' and '\\' separators; include trees of every shape up to three levels below the main file (<= 2 includes per file, files consisting of one /include only, runs at file level) x 5 directory layouts; a RECORD_LAYOUT whose position-restricted children are listed out of position order cut at every run; the A2ML block including part of its definition, also when the block itself stands in an include file in another directory; a nested block, repeated blocks or the whole content of an IF_DATA payload moved to an include file (with and without A2ML); one file included by several directives (snippet into 2 / 3 elements, diamond, direct + nested); directory names that look like escape sequences behind a backslash; fault cases (missing, a directory, empty, no name, self-inclusion, mutual inclusion, A2ML self-inclusion) in a child process with a timeout. Oracle: load(main) equals load_from_string(flattened) including the number of diagnostics; write next to the tree and reload gives an equal model with one /include per directly included file; merge_includes() gives include-free text that reloads equal; faults return an error naming the include in a live process.",
         "the working directory is an empty directory so that no name resolves by accident; absolute include paths and symlinks are not explored",
         "DESIGN.md 5/C16"),
 "C17": ("lockstep of load(file) against load_from_string(decoded text) over the enumerated space documents x 10 encodings x length residues, plus invalid-Unicode variants and an exhaustive 4-byte-prefix sweep",
         "Every carrier document that holds a string and every optional-slot and rich document with 2-, 3- and 4-byte characters, U+FFFD and a UTF-8 look-alike of Latin-1 text in a string, a block comment and a line comment x UTF-8, UTF-16LE/BE, UTF-32LE/BE each with and without BOM x trailing padding 0..3; each document also with 8 beginnings (line feed, space, tab, CRLF, blank lines, block comment, line comment, comment with a non-ASCII character) x 10 encodings x 2 paddings; main file x included file (A2L level and inside the A2ML block) in all 10 x 10 encoding combinations against the flattened text; UTF-16 / UTF-32 files with one byte appended or cut off (read as UTF-8 if valid, else Latin-1); three ways of making the UTF-8 file invalid Unicode, which must behave like the Latin-1 reading of the whole file; every 4-byte prefix over the 9 encoding-relevant byte values in front of a body in five encodings (no panic).",
         "first character of the text is ASCII (format requirement); diagnostics are compared by number and variant because they embed the file name",
         "DESIGN.md 5/C17"),
 "C15": ("explicit-state exploration of edit histories over {sort_new_items, push kind k, merge module j (fresh names / same-name conflicts / identical twins)} with the real A2lFile as state: all action sequences to depth 4/5, deviation-bounded long histories (<= 2 non-default actions at every pair of positions), consecutive-call ladders",
         "a file with two elements of each of the 20 list kinds and per-kind push histories; a start file with a second module whose children must keep their order throughout; (i) every sequence of the 12 actions (sort_new_items, 6 pushes, 5 merges of which two bring same-name elements with other content, identical elements and a same-name GROUP) up to depth 4 (thorough 5) from 4 start files, observed after each step; (ii) histories of 40 (thorough 72 and 300) sort_new_items calls with at most two other actions at every (pair of) position(s); (iii) 64 consecutive calls on files with 1..1000 elements and on 54 files with three kinds in every order in blocks of 2..40 (IF_DATA / USER_RIGHTS in front), 40 (200) insert/sort cycles per kind, 2 and 5 new elements of one kind per cycle on a 30+30 file. Observation: order of the module's children in write_to_string. Oracle: the relative order of elements that have a position never changes, after a call every newly placed element sits in the run directly behind the last placed element of its kind, elements without an anchor stay behind all placed ones, no panic or overflow (overflow checks on).",
         "'placed' means the element existed at the last call and has a position key (uid != 0); an element counts as new from the moment it appears until the next call, whatever key it carries; elements of a kind without any placed element keep floating at the end, which the repository's own test asserts as intended; IF_DATA blocks have no identity and are only covered by order stability",
         "DESIGN.md 5/C15"),
 "C14": ("exhaustive enumeration of unsorted modules (all duplicate-free sequences over 6 kinds x 4 names up to length 3/4, all ordered pairs of list kinds, singletons at every position, two modules) with permutation / grouping / reload / idempotence oracles",
         "All duplicate-free sequences of up to 3 (thorough 4) elements over 6 element kinds and the names {aa, ab, b, ba}, lists of 20 / 21 / 25 / 64 (thorough 8..129) elements of five kinds in rotated, reversed, multiplicative, pair-swapped, two-block and sorted order, every ordered pair of the 22 module-level list kinds with and without comments, each singleton at every position, two modules in both orders, the rich corpus documents. After sort(): every list holds the same elements with unchanged content; in the written text each kind is contiguous and names ascend; the written file reloads to an equal model in equal list order and is a textual fixpoint; a second sort() changes nothing.",
         "names are lower-case ASCII without digits so that every reading of 'alphabetical' agrees",
         "DESIGN.md 5/C14"),
 "C11": ("exhaustive single-reference (thorough: pairwise) corruption of a fully consistent generated module over every covered position x every alternative target class; exhaustive structural-oddity grid for totality; all ItemList operation sequences up to depth 2 (3) on every list check() indexes, edited model vs the same model reloaded from its text",
         "One consistent module in which each of the 48 reference positions inspected by check() is populated (empty report required) x every alternative target of the position's namespace class: missing, another kind of the same namespace, NO_COMPU_METHOD / NO_INPUT_QUANTITY / NO_INVERSE_TRANSFORMER, THIS.<component> valid and invalid, a name of another namespace, the placeholder names of the other positions, THIS.<component> present in only one of two containing structures; positions inside a surplus AXIS_DESCR; every case again inside a project with a second consistent module in front of / behind the module under test; thorough adds all pairs. The names in the CrossReferenceErrors must equal the names made missing. Totality: 8 characteristic types x 0..7 AXIS_DESCR x 5 axis kinds x 3 record layouts for CHARACTERISTIC and TYPEDEF_CHARACTERISTIC, duplicate names within every repeatable named kind of the module, cycles, empty lists, REF_MEMORY_SEGMENT without MOD_PAR, every corpus document and the cleanup modules: check() returns and the model is unchanged. Editing histories: every sequence of <= 2 (thorough 3) ItemList operations (pop, swap_remove by name and index, retain, truncate, rename_item, clear, sort_by, re-push) on each of the 18 lists check() indexes, from two base modules; the report of the edited model equals the report of that model loaded from its own text.",
         "'covered' positions are those check() inspects at the pinned commit (DESIGN appendix A, column K)",
         "DESIGN.md 5/C11"),
 "C10": ("exhaustive enumeration of small helper reference graphs (all 3-node GROUP / FUNCTION / UNIT graphs x content x users) and of every usage position x {used, unused, dangling, used by a removable helper}; invariant oracle on module snapshots before / after / after-twice",
         "All SUB_GROUP relations on 3 GROUPs x per-group content x ROOT x USER_RIGHTS subsets, all SUB_FUNCTION relations on 3 FUNCTIONs x content x FUNCTION_LIST users, all REF_UNIT functions on 3 UNITs x used subsets, and every usage position of COMPU_METHOD, conversion tables, UNIT, RECORD_LAYOUT, GROUP and FUNCTION as the only user x {used, unused, dangling, used only by a helper that is itself removable} x target kind. After cleanup: only helper kinds removed, objects and typedefs equal modulo previously dangling references, no remaining element refers to a removed one, a check()-clean file stays clean, a second cleanup changes nothing (text), the cleaned file reloads equal; every third case (thorough: every case) again with a second module behind it that uses the same names with every helper in use and must come out unchanged.",
         "graphs with more than three helpers of one kind are not explored; completeness of removal is asserted only through idempotence",
         "DESIGN.md 5/C10"),
 "C08": ("explicit enumeration of all overlap assignments per namespace (cells name x side x kind x content), bfs over merge histories with state deduplication, all merge sequences of length 4 (5) on one live object with a name-index coherence invariant, algebraic cases; relational oracle on module snapshots",
         "For each of 12 namespaces every assignment of {absent, (kind, content)} to the cells (name, side) over the name sets {X,Y} and {X, X.MERGE, X.MERGE2 | X.MERGE.MERGE} (all kinds of the shared namespaces), the reference-site space of C09, merge empty / clone / into empty from 8 start modules and a breadth-first search over merge histories (depth 3, thorough 4) from a menu of 6 modules with states deduplicated on module content. After every merge: A's elements unchanged (GROUP/FUNCTION may gain members), every element of B represented under an observed renaming that is fresh with respect to A, identical elements shared and only those, no duplicate names per namespace, nothing invented, and the merged file reloads to an equal model.",
         "USER_RIGHTS, SYSTEM_CONSTANT, MEMORY_LAYOUT and the singletons are all-or-nothing by design; element content is represented by two variants per kind",
         "DESIGN.md 5/C08"),
 "C09": ("exhaustive enumeration of reference positions x target kinds x overlap patterns x referrer novelty {new, conflicting, textual twin} (and pairs of positions) with a reference-graph oracle under the observed renaming",
         "60 referrer shapes covering every reference position of the grammar (including those nested in AXIS_DESCR, OVERWRITE, VAR_CRITERION and the singletons MOD_COMMON / VARIANT_CODING) x every kind of the target namespace x target {absent, identical, conflicting, conflicting with X.MERGE taken in A, conflicting with X.MERGE present in B and referenced there} x referrer {new, conflicting}, with a same-named conflicting element in another namespace, plus identifier positions that are not references; plus all pairs of positions in one module. The element representing B's referrer must hold, at every position, the name of the element representing its original target; non-reference identifiers must stay unchanged.",
         "elements of B shared as identical are A's elements (their references are A's); the table of reference positions (vcore/src/refsites.rs) is derived from the frozen grammar by hand",
         "DESIGN.md 5/C09"),
 "C06": ("lockstep of strict and non-strict load on the exhaustively enumerated valid / single-fault and double-fault document space; detection token located by the reference interpreter",
         "For every document of the C04 space (valid x 6 versions, every single deviation), every located single fault rendered one token per line (wrong lexical class, bad enum item, malformed number, block form, end tag, unknown block, too-new element, required element missing, surplus number / string / /end / identifier / /begin behind /end PROJECT after four kinds of gap), every token deletion / duplication / swap / truncation of every carrier, all pairs of deviations: both modes are run and the relations R1 strict Ok => lax Ok, R2 lax clean => strict Ok with equal model, R3 (no IF_DATA) strict Err <=> lax Err or a non-deprecation diagnostic, R4 equal models, R5 the diagnostic names the file (string: empty, load(file): the path) and the line of the token at which the reference interpreter rejects the document.",
         "R5 is evaluated for single deviations with a well-defined detection token and not for documents with A2ML/IF_DATA or blind token mutations; after a recoverable problem followed by a hard error the non-strict log is unobservable (API returns only the error)",
         "DESIGN.md 5/C06"),
 "C07": ("exhaustive enumeration of unknown-element injections (every block with a tagged region x every child position x 12 payload shapes; two payloads, pairs of children) with a differential oracle against the document without the payload",
         "Every block kind of the grammar that admits optional sub-elements, as carrier and with each optional child, with an unknown element inserted before the first, between and after the last child, for 12 payload shapes (keyword / block, scalar arguments, nested and same-tag nested blocks, comments, a string containing an end tag): non-strict load gives exactly one UnknownSubBlock warning naming the tag and a model equal to the model of the document without the payload; strict load fails with UnknownSubBlock naming the tag.",
         "scope restrictions of the statement (payload tags never collide with the enclosing block's tags; no bare keyword directly behind an open-ended list)",
         "DESIGN.md 5/C07"),
 "C03": ("exhaustive enumeration of small inputs per family (byte strings, lexical-unit sequences, document prefixes and token mutations, A2ML unit sequences, nesting ladder) x configurations, each executed on the real loader under catch_unwind, overflow checks and a hang watchdog",
         "All byte strings of length <= 2 and all strings of length <= 5 (thorough 6) over a 14-byte alphabet through load(file); token soups up to length 4 under all 9 configurations and length 5 under one (thorough: 5 and 6, 7e8 loads); all sequences of <= 3 (4) lexical units, spaced and unspaced, bare / inside MODULE / inside IF_DATA with A2ML, crossed with strict, a2ml_spec none/valid/invalid and entry point load_from_string / load_fragment; one more unit for a single configuration; every byte prefix and every single-token deletion, duplication and swap of every carrier and rich document; all A2ML unit sequences of <= 3/4 (4/5) units as in-file A2ML and as built-in specification; nesting ladder 1..64; include trees: all sequences of <= 3 (4) items over an inline element and ten /include directives (flat, nested, two levels, empty, cyclic, truncated, IF_DATA, include as last token, missing) loaded from files. The harness is built with overflow checks and debug assertions so that arithmetic overflow is a panic.",
         "inputs longer than the bounds, stack exhaustion by nesting deeper than 64 and memory exhaustion by size are outside the explored space; a hang is reported by a 20 s watchdog",
         "DESIGN.md 5/C03"),
 "C05": ("deviation-bounded exhaustive enumeration of layouts (whitespace/comment shape at every token gap, pairs on selected documents) with a token-line oracle from an independent tokenizer; exhaustive single-edit histories per list kind with an exact line-diff oracle",
         "(i)/(ii): every carrier and rich document x 7 whitespace shapes at every gap the scope allows x 7 comment shapes at every block-level gap, CRLF, all pairs of such deviations on selected documents; 10 IF_DATA payloads (interpreted and uninterpreted) on one line and one token per line x 7 whitespace shapes at every payload gap: each significant token is on the same line in input and output, and the writer's own output is reproduced byte for byte. (iii): for each of 18 module-level list kinds, a 3-element document in 3 layouts x {edit string field, edit numeric field, remove first/middle/last, push builder-made element with/without sort_new_items}: the new text equals the old text with exactly the lines of that object changed, removed or inserted.",
         "scope of the quantifier (canonical order, include-free, no raw line breaks in strings, comments only between sub-elements); nested list kinds are represented by ANNOTATION/AXIS_DESCR-like children only through the layout part",
         "DESIGN.md 5/C05"),
 "C02": ("deviation-bounded exhaustive enumeration of valid documents; input and first output compared as canonical token lists of the reference interpreter's trees; exhaustive uninterpreted IF_DATA token sequences; limit literals per integer width",
         "Every document of the grammar corpus, every value class at every scalar parameter, 19 comment shapes at every gap, reversed RECORD_LAYOUT positions, every position-carrying child kind of RECORD_LAYOUT out of position order, all token sequences of length <= 4 (thorough 5) over a 15-token alphabet inside uninterpreted IF_DATA (with and without leading tag), A2ML-described IF_DATA, IF_DATA under every generated A2ML definition of depth 1 with every single-token deletion / duplication of three instances; every integer parameter x 9..12 literals at and beyond its limits. Oracle: same significant tokens in the same order modulo number/escape notation and the documented reordering; block-level comments kept; an out-of-range literal is rejected, diagnosed or preserved - never silently changed.",
         "fractions inside uninterpreted IF_DATA are compared at f32 precision (the library stores them as f32); comments outside blocks with optional sub-elements may be dropped (statement)",
         "DESIGN.md 5/C02"),
 "C01": ("deviation-bounded exhaustive enumeration of documents (grammar derivations x layout x value classes x IF_DATA modes), each run through load/write/load/write on the real code with a byte-fixpoint oracle",
         "All carrier documents of the grammar with every optional slot (once, twice, pairs), every enum item, each also with CRLF; 7 whitespace and 19 comment shapes (one-line, multi-line, indented, banner, break behind the opening / in front of the closing delimiter, empty, starred, CRLF) at every token gap of every carrier (all pairs on selected documents); every value class at every scalar parameter (integers per width/notation, 28 float notations, all strings over 17 escape units up to length k, identifier shapes); IF_DATA with/without A2ML and built-in spec; API-built models for every (parent, child) slot x 4 integer value modes (small, negative / near the maximum, the same with the hex flag, type limits with the hex flag); 1..64 (257) elements of each list kind pushed onto a loaded and a new file; repeatable position-carrying children of RECORD_LAYOUT in ascending / equal / descending position order, unrestricted children and comments between out-of-order positioned ones; the MODULE content of every document through load_fragment; every document written with a banner to a file and loaded from it, followed by three more save / load cycles with the banner; every carrier / optional-slot / rich document loaded and edited through the API in every scalar field of every element (generated deep mutators, 4 integer value modes); operation histories: every sequence of <= 2 (thorough 3) of 34 model operations (push x 8 kinds, remove first / last, field edit, sort, sort_new_items, cleanup, ifdata_cleanup, merge_includes, merge_modules with 4 partners, reload) from 5 start files. For each accepted input / reached model: reload succeeds, models equal, second write byte-identical (third cycle classifies drift). Exhaustive for <= 1 deviation per document (2 on selected documents).",
         "inputs the loader rejects are outside the quantifier; API-built models are covered by the builder sweep only for the kinds listed in the evidence; unbounded string content is represented by the escape-unit alphabet",
         "DESIGN.md 5/C01"),
 "C04": ("deviation-bounded exhaustive enumeration of grammar derivations (every tag x parameter x slot x enum item x block form x 6 versions) against a reference interpreter over the frozen grammar, plus field-by-field match of the loaded model",
         "Every element kind, parameter position, optional slot (once and twice), enum item and pair of slots of the frozen A2L 1.7.1 grammar, under all six ASAP2 versions, and every single deviation of the element under test (parameter deleted / wrong lexical class, extra token, block form flipped, wrong end tag, unknown block, required element missing): strict and non-strict load of the real parser compared with an independent table-driven recogniser and with the values the document holds (read back through Debug of the model). Every integer parameter x 14..17 literals at, inside and beyond its limits in decimal and hex (a hex literal is a bit pattern of at most the field width). Exhaustive for 0/1/2 deviations from the carrier document of each element.",
         "the frozen grammar is the reference (its equality with the repository DSL is reported); documents with more than two simultaneous deviations are not explored; string/number value classes are covered by C01/C02",
         "DESIGN.md 5/C04"),
 "C12": ("exhaustive grid enumeration (datatype x conversion x coefficient grid x limit placement) against a closed-form range",
         "Every grid point of 11 data types x all conversion kinds x a two-signed coefficient grid (1.8k conversions) x 9 placements of the declared limits (inside by 1 %, lower / upper / both outside by 1 %, exactly on the raw range, lower / upper outside by 100 x the documented tolerance: reported, by 1/100 of it: not reported), in a project whose first module holds a same-named conversion with another rule, for every limit-checked element kind (incl. the five STD_AXIS positions), loaded and checked by the real code and compared with the closed-form range. Exhaustive over the grid.",
         "verdicts inside the tolerance band (between the range and 10x the documented 1e-6 tolerance) are not examined; grid points whose range or an intermediate product overflows f64 are skipped and counted; RAT_FUNC b=0 excluded",
         "DESIGN.md 5/C12"),
 "C13": ("explicit-state BFS over the real ItemList (complete reachable state set) against a Vec model; cross-checked by a non-deduplicated DFS and by a second explorer (stateright 0.31 spawn_bfs over the same transition function) that must reach the same state count",
         "Complete reachable state set of the real ItemList over a 6-name (1957 states; thorough: 7-name, 13700 states) alphabet under every list operation with every in- and out-of-range argument (extend / collect also through iterators with inexact size hints); lists of 21 / 25 / 64 elements in five arrangements followed by every operation and every order-sensitive second operation; every lookup checked in every state against a vector-of-names model. Exhaustive within the alphabet, so a clean run is a coverage statement, not a sample.",
         "names unique (precondition); std Vec/HashMap correct; behaviour over more than 7 names not explored (ItemList code is index arithmetic that does not depend on the alphabet)",
         "DESIGN.md 5/C13"),
}

NOT_YET = {}

# extensions of the sixth seeding round, appended to the level text of the check
ROUND6 = {
 "C04": "Block-form deviations in both directions for every block kind (begin missing, stray /end); for deprecated elements and deprecated enum values the class of the diagnostic, not only its presence, is compared.",
 "C05": "Layouts with trailing line / block comments in front of sub-elements and with siblings sharing one line; a pushed object that shares a line with another one is a violation.",
 "C06": "Damaged A2ML texts (empty, cut, unbalanced) next to a valid A2ML block, in both orders and across modules.",
 "C07": "15 payload shapes, incl. arguments that are identifiers spelled like keywords; the number of warnings is compared.",
 "C08": "Rich documents in which every singleton of B is populated; same-named sub-items (INSTANCE with two OVERWRITE of one name differing in the second).",
 "C09": "The rename oracle once per value of every enum parameter of the referrer and of the sub-elements on the path to the reference.",
 "C10": "OVERWRITE conversions at first / second position; coincidences between the number of used names and the number of helpers; an unreferenced helper must be removed (completeness), also in a second module.",
 "C11": "Dangling references under every axis kind of an AXIS_DESCR.",
 "C13": "Index arguments far outside the list (usize::MAX - 0..4, isize::MAX) for every index-taking operation, with overflow checks on.",
 "C14": "Nested named lists below module level (MOD_PAR.MEMORY_SEGMENT, FRAME ..) in descending order; MODULE order over modules with / without A2ML in every order; IF_DATA and its A2ML block in every order within and across modules (one open finding).",
 "C15": "Pushes into the second module of a project.",
 "C16": "Directory names that begin with a digit; the main file opened by its bare name from its own directory.",
 "C17": "Documents without any non-ASCII character in every encoding (UTF-16 / UTF-32 without BOM).",
 "C18": "A block comment at every gap of the first and the longest conforming instance of every definition.",
 "C19": "170 (thorough 502) of the generated specifications once more with a /// documentation comment behind every enumerator, member, tagged item and declaration; must-be-none kinds incl. longer arrays, with the escape 'the value reproduces the content'.",
 "C20": "1116 documents with two / three MODULEs over five A2ML definitions and six IF_DATA payloads at module and MEASUREMENT level.",
}

# extensions of the seventh seeding round
ROUND7 = {
 "C01": "Corpus documents with several OVERWRITE blocks of one name and with open-ended value lists of 0..17 entries.",
 "C02": "Corpus documents with several OVERWRITE blocks of one name and with open-ended value lists of 0..17 entries.",
 "C04": "Every element with an open-ended value list with 0, 3, 4, 5, 8 and 17 entries; INSTANCE with several OVERWRITE blocks of one name.",
 "C06": "For damaged A2ML blocks (5 damages x 6 layouts) the diagnostic has to name a line of the block in front of its end tag.",
 "C07": "Unknown elements (15 payloads x 3 places) behind IF_DATA blocks that were tried against one / two A2ML definitions (conforming, wrong value, member missing, unknown tag, fitting only the second definition).",
 "C08": "Unions with every other optional sub-element of GROUP / FUNCTION present on A's side, B's side and both.",
 "C09": "X and X.MERGE (and X.MERGE2) conflicting on both sides with a referrer each.",
 "C10": "Group x function interplay (content of the group x what keeps it x content of the function x another user); enum sweep on every usage position; oracle: a removed COMPU_METHOD / table / UNIT / RECORD_LAYOUT was not referred to before the run by anything that remains.",
 "C11": "Consistent characteristics over every assignment of the five axis kinds to 1..5 axes with a record layout describing exactly the STD_AXIS dimensions (empty report required); rename-to-own-name and name exchange in the edit histories.",
 "C12": "Every placement again with EXTENDED_LIMITS of the opposite verdict.",
 "C13": "retain with a predicate that renames the element it inspects (4 keep modes).",
 "C14": "Documents reached through sort + rename_item / push of a clone / write + load + rename, then sorted and judged.",
 "C15": "Module independence: the same module text with the same history, alone and behind three other modules (4 modules x 3 fronts x 103 plans of singleton assignments and pushes).",
 "C16": "Every tree again with a line comment behind every /end in all files; an include file without tokens named at every line boundary of the main file and of the first include file.",
 "C18": "Conforming instances are also loaded in strict mode (valid, no diagnostic) and give no diagnostic in non-strict mode unless the definition has char[n] members.",
 "C19": "Hand-written Spec7: enum / struct and taggedstruct / taggedunion sharing a name.",
}

# extensions of the eighth seeding round
ROUND8 = {
 "C01": "Hex literals up to 64 bits set in every float field.",
 "C02": "Hex literals up to 64 bits set in every float field.",
 "C04": "Generated float values are not all exact in single precision.",
 "C05": "Edit documents whose module holds nothing but four elements of the kind under test.",
 "C06": "A2ML / IF_DATA blocks closed by a wrong tag (module level, inside an element); end-of-input diagnostics of truncated documents name the line of the last token.",
 "C08": "MOD_PAR on both sides with a shared SYSTEM_CONSTANT name in every combination of {absent, value 1, value 2}.",
 "C11": "THIS.-prefixed names at every object position where the convention does not apply.",
 "C12": "Function values of another data type than the axis under test; both limits exactly 0 with 0 well inside / well outside the range.",
 "C14": "Modules with an A2ML block the library cannot interpret and 0..4 module-level IF_DATA blocks of which some fit a valid A2ML block.",
 "C15": "Order stability includes the blocks that occur once (A2ML, MOD_COMMON, MOD_PAR, VARIANT_CODING); a start file with them between the lists and a merge partner that brings them against the canonical order.",
 "C16": "Fault cases: main files that hold include directives only, over include files without tokens; empty and blank main files.",
 "C17": "UTF-32 files with an invalid code unit in the middle / at the end; files ending inside a line comment with 12 last characters whose final encoded byte is a control code in some encoding.",
 "C18": "Repaired defect 38d474b: definitions with a string repetition in front of valued tags / enums, 'conforming' taken from the definition as written; same-name declarations of the three other kinds around every other hoisted type.",
 "C19": "A parsed tree that lacks a member or array element of the specification must give no value even when the text conforms; 638 (thorough 2625) generated specifications.",
}

def main():
    props = [json.loads(l)["id"] for l in open(os.path.join(HERE, "properties.jsonl"))]
    checks = []
    for pid in props:
        if pid in CHECKS:
            tech, text, note, ref = CHECKS[pid]
            if pid in ROUND6:
                text = text.rstrip() + " Added in the sixth seeding round: " + ROUND6[pid]
            if pid in ROUND7:
                text = text.rstrip() + " Added in the seventh seeding round: " + ROUND7[pid]
            if pid in ROUND8:
                text = text.rstrip() + " Added in the eighth seeding round: " + ROUND8[pid]
            checks.append({
                "property_id": pid,
                "quick_cmd": f"./check {pid} --tier quick",
                "thorough_cmd": f"./check {pid} --tier thorough",
                "evidence_file": f"/verif/evidence/{pid}.json",
                "replay_cmd_template": "./check replay {path}",
                "engine": "vharness",
                "level_claimed": {"category": "model_checking", "text": text, "design_ref": ref},
                "level_note": note,
                "technique": tech,
            })
    na = [{"property_id": p, "reason": NOT_YET.get(p, "check under construction in this session; not yet claimed")}
          for p in props if p not in CHECKS]
    m = {
        "version": 1,
        "setup_cmd": "./check setup",
        "hooks": {
            "guard": "danielt_a2lfile_verif",
            "enable": "no hooks are needed: every observation point is reachable through the public API; the guard name is reserved and unused",
            "baseline_off_cmd": "cd /repo && cargo test --workspace --no-fail-fast --offline",
            "source_commits": [],
            "add_only": True,
        },
        "engines": [
            {"name": "vharness", "path": "/verif/harness",
             "serves_properties": sorted(CHECKS.keys()),
             "kind_free_text": "Rust workspace linking the real /repo/a2lfile: deviation-bounded exhaustive enumeration (dbx), explicit-state BFS with the real object in the state, lockstep of two runs; reference models in vcore (no a2lfile dependency)"},
        ],
        "checks": checks,
        "not_applicable": na,
        "notes": "All checks rebuild the harness against /repo's working tree (path dependency) before exploring. Exit 0/1/2 = held / violation / machinery failure. Known findings: /verif/known_findings.json.",
    }
    with open(os.path.join(HERE, "MANIFEST.json"), "w") as f:
        json.dump(m, f, indent=1)
    print("MANIFEST.json written:", len(checks), "checks,", len(na), "not_applicable")

if __name__ == "__main__":
    main()
