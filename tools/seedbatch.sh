#!/bin/bash
# seedbatch.sh PROP mA mB : verify both deliverables, then run the property's quick check against each kept one
cd /verif
for m in "$2" "$3"; do
  python3 tools/seed.py verify "$1" "$m" 2>&1 | grep -E '"(id|kept|demo_with_change|suite_with_change|demo_without_change|applies)"' | tr '\n' ' '; echo
  if [ -d "seeded/$1-$m" ]; then python3 tools/seed.py run "$1-$m" 2>&1 | tail -1; fi
done
