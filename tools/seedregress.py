#!/usr/bin/env python3
"""Regression run of the stored seeded changes against the current checks, in parallel lanes.

  seedregress.py start <lanes> [ID-prefix..]   every seeded/<id> (or those whose id starts with one of the prefixes) is applied to a
                                               private clone of /repo and judged by a private copy of /verif; both are bind-mounted over
                                               /repo and /verif in a mount namespace of their own (unshare -m), so the lanes do not see
                                               each other and /repo itself is never touched. Logs: /tmp/lane/<i>.log
  seedregress.py report                        summary of the logs: every seed that is NOT reported (exit != 1)
  seedregress.py record [first]                write the results of the logs into seeded/<id>/meta.json (first: only as first_run)
  seedregress.py clean                         remove /tmp/lane

(lane mode, internal)  seedregress.py lane <ID..>
"""
import glob, json, os, subprocess, sys, time

VERIF = "/verif"
BASE = os.environ.get("LANE_BASE", "/tmp/lane")


def sh(cmd, **kw):
    p = subprocess.run(cmd, shell=True, text=True, stdout=subprocess.PIPE, stderr=subprocess.STDOUT, **kw)
    return p.returncode, p.stdout


def lane(ids):
    for sid in ids:
        d = f"{VERIF}/seeded/{sid}"
        prop = json.load(open(f"{d}/meta.json"))["breaks_property"]
        rc, out = sh(f"git -C /repo apply {d}/patch.diff")
        if rc != 0:
            print(f"RESULT {sid} {prop} patch-does-not-apply", flush=True)
            continue
        t0 = time.time()
        rc, out = sh(f"./check {prop} --tier quick", cwd=VERIF, timeout=7200)
        keys = [l.strip()[5:] for l in out.splitlines() if l.strip().startswith("key: ")]
        viol = [l for l in out.splitlines() if l.startswith("VIOLATION")]
        print(f"RESULT {sid} {prop} exit={rc} violations={len(viol)} wall={time.time() - t0:.0f}s {keys[:2]}", flush=True)
        if rc == 2:
            print(out[-1200:], flush=True)
        sh("git -C /repo checkout -- . && git -C /repo clean -fdq")


def start(n, prefixes):
    ids = sorted(os.path.basename(os.path.dirname(m)) for m in glob.glob(f"{VERIF}/seeded/*/meta.json"))
    if prefixes:
        ids = [i for i in ids if any(i.startswith(p) for p in prefixes)]
    # macro properties build longest: spread them first
    ids.sort(key=lambda i: (0 if i.startswith(("C19", "C20")) else 1, i))
    sh(f"rm -rf {BASE}")
    os.makedirs(BASE)
    for k in range(n):
        mine = ids[k::n]
        if not mine:
            continue
        os.makedirs(f"{BASE}/{k}")
        sh(f"git clone -q /repo {BASE}/{k}/repo")
        sh(f"rsync -a --exclude replays {VERIF}/ {BASE}/{k}/verif/")
        inner = f"mount --bind {BASE}/{k}/repo /repo && mount --bind {BASE}/{k}/verif /verif && cd /verif && python3 tools/seedregress.py lane {' '.join(mine)}"
        subprocess.Popen(f"nohup unshare -m bash -c '{inner}' > {BASE}/{k}.log 2>&1 &", shell=True)
    print(f"{len(ids)} seeds in {n} lanes; logs in {BASE}/*.log")


def report():
    done, missed = 0, []
    for f in sorted(glob.glob(f"{BASE}/*.log")):
        for l in open(f):
            if l.startswith("RESULT"):
                done += 1
                if " exit=1 " not in l:
                    missed.append(l.strip())
    print(f"{done} seeds judged; not reported: {len(missed)}")
    for m in missed:
        print("  ", m)


if __name__ == "__main__":
    cmd = sys.argv[1]
    if cmd == "lane":
        lane(sys.argv[2:])
    elif cmd == "start":
        start(int(sys.argv[2]), sys.argv[3:])
    elif cmd == "report":
        report()
    elif cmd == "record":
        # write the lane results into seeded/<id>/meta.json (check_runs), like `seed.py run` does
        import ast, re
        head = subprocess.check_output(["git", "-C", "/repo", "rev-parse", "--short", "HEAD"], text=True).strip()
        for f in sorted(glob.glob(f"{BASE}/*.log")):
            for l in open(f):
                m = re.match(r"RESULT (\S+) (\S+) exit=(\d+) violations=(\d+) wall=(\d+)s (.*)$", l.strip())
                if not m:
                    continue
                sid, prop, rc, nv, wall, keys = m.groups()
                mp = f"{VERIF}/seeded/{sid}/meta.json"
                meta = json.load(open(mp))
                rec = {"check": prop, "tier": "quick", "exit": int(rc), "violations": int(nv), "keys": ast.literal_eval(keys), "wall_s": int(wall), "repo_commit": head, "via": "seedregress lane"}
                if "first_run" not in meta:
                    meta["first_run"] = {"check": prop, "exit": int(rc), "keys": rec["keys"]}
                if "first" not in sys.argv[2:]:
                    meta["check_runs"] = [r for r in meta.get("check_runs", []) if r["check"] != prop] + [rec]
                json.dump(meta, open(mp, "w"), indent=1)
        print("recorded")
    elif cmd == "clean":
        sh(f"rm -rf {BASE}")
