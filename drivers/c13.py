"""C13: the explicit-state search of vmain (own BFS + non-deduplicated DFS) followed by a second, independent explorer:
the same transition function driven by stateright's breadth-first checker (harness/vsr, own workspace). The two must
agree on the number of reachable canonical states and on the presence of violations; the verdict is vmain's."""
import json, os, subprocess


def run(core, tier, replay):
    prop = "C13"
    rc, out = core.cargo_build(["vmain"])
    if rc != 0:
        print(out[-6000:])
        print("MACHINERY-ERROR: harness (vmain) does not build against the current /repo tree")
        core.write_fail_evidence(prop, tier, "vmain build failed")
        return 2
    binp = os.path.join(core.HARNESS, "target", "release", "vmain")
    if replay:
        return core.run_bin(binp, ["replay", replay])
    rc = core.run_bin(binp, [prop, tier])
    if rc < 0 or rc > 2:
        print(f"MACHINERY-ERROR: vmain {prop} {tier} ended abnormally (status {rc}); see output above")
        core.write_fail_evidence(prop, tier, f"worker ended with status {rc}")
        return 2
    if rc == 2:
        return rc
    # second explorer
    vsr = os.path.join(core.HARNESS, "vsr")
    rcb, outb = core.cargo_build([], cwd=vsr, target_dir=os.path.join(core.HARNESS, "target-vsr"))
    if rcb != 0:
        print(outb[-3000:])
        print("MACHINERY-ERROR: the stateright explorer (harness/vsr) does not build")
        core.write_fail_evidence(prop, tier, "vsr build failed")
        return 2
    n = "7" if tier == "thorough" else "6"
    r = subprocess.run([os.path.join(core.HARNESS, "target-vsr", "release", "vsr"), n], stdout=subprocess.PIPE, stderr=subprocess.STDOUT, text=True, env=core.ENV, timeout=3600)
    try:
        res = json.loads(r.stdout.strip().splitlines()[-1])
    except Exception:
        print(r.stdout[-2000:])
        print("MACHINERY-ERROR: the stateright explorer did not report")
        core.write_fail_evidence(prop, tier, "vsr did not report")
        return 2
    evp = os.path.join(core.VERIF, "evidence", prop + ".json")
    ev = json.load(open(evp))
    ev["coverage"]["second_explorer"] = {"tool": "stateright 0.31 spawn_bfs", "names": res["names"], "unique_states": res["unique_states"], "expected_ordered_subsets": res["expected"], "discoveries": len(res["discoveries"]), "done": res["done"]}
    json.dump(ev, open(evp, "w"), indent=1)
    print(f"C13 second explorer (stateright): unique_states={res['unique_states']} expected={res['expected']} discoveries={len(res['discoveries'])}")
    # the second explorer covers the explicit-state search over the small alphabet; violations found only by the long-list
    # family (keys ending in /long-list) are outside its space
    keys = ev["coverage"].get("new_violation_keys", [])
    first_found = rc == 1 and any(not k.endswith("/long-list") for k in keys)
    second_found = len(res["discoveries"]) > 0
    if first_found != second_found:
        print(f"MACHINERY-ERROR: the two explorers disagree (vmain violation={first_found}, stateright discovery={second_found}): {res['discoveries'][:2]}")
        return 2
    if not first_found and (res["unique_states"] != res["expected"] or ev["coverage"].get("states") != res["unique_states"] or not res["done"]):
        print(f"MACHINERY-ERROR: state counts differ: vmain {ev['coverage'].get('states')}, stateright {res['unique_states']}, expected {res['expected']}")
        return 2
    return rc
