"""C20: shipped generated code vs a fresh expansion of the specification DSL by the in-tree macro crate.
Lockstep of two builds of the probe binary on the same enumerated corpus; transcripts compared by hash."""
import json, os, shutil, subprocess, sys, time

PROFILE = """
[profile.release]
opt-level = 2
overflow-checks = true
debug-assertions = true
debug = 0
codegen-units = 16
incremental = false
"""


def scratch_dir():
    base = os.environ.get("VERIF_SCRATCH") or ("/dev/shm" if os.path.isdir("/dev/shm") else os.environ.get("TMPDIR", "/tmp"))
    d = os.path.join(base, f"verif-c20-{os.getpid()}")
    shutil.rmtree(d, ignore_errors=True)
    os.makedirs(d)
    return d


def make_regenerated(core, scratch):
    regen = os.path.join(scratch, "regen")
    os.makedirs(regen)
    for crate in ("a2lfile", "a2lmacros"):
        shutil.copytree(os.path.join("/repo", crate), os.path.join(regen, crate), ignore=shutil.ignore_patterns("target"))
    spec_orig = os.path.join(regen, "a2lfile", "src", "specification_orig.rs")
    shutil.copyfile(spec_orig, os.path.join(regen, "a2lfile", "src", "specification.rs"))
    ct = os.path.join(regen, "a2lfile", "Cargo.toml")
    txt = open(ct).read()
    lines = txt.split("\n")
    out, i = [], 0
    replaced = False
    while i < len(lines):
        if lines[i].strip() == "[dependencies.a2lmacros]":
            out.append(lines[i])
            out.append('path = "../a2lmacros"')
            i += 1
            while i < len(lines) and lines[i].strip() and not lines[i].startswith("["):
                i += 1
            replaced = True
            continue
        out.append(lines[i])
        i += 1
    if not replaced:
        return None, "cannot find the a2lmacros dependency in a2lfile/Cargo.toml"
    open(ct, "w").write("\n".join(out))
    pv = os.path.join(regen, "vprobe")
    os.makedirs(os.path.join(pv, "src"))
    shutil.copyfile(os.path.join(core.HARNESS, "vprobe", "src", "main.rs"), os.path.join(pv, "src", "main.rs"))
    open(os.path.join(pv, "Cargo.toml"), "w").write(
        '[package]\nname = "vprobe"\nversion = "0.1.0"\nedition = "2021"\n\n[workspace]\n\n[dependencies]\na2lfile = { path = "../a2lfile" }\nvcore = { path = "' + os.path.join(core.HARNESS, "vcore") + '" }\n' + PROFILE)
    shutil.copyfile(os.path.join(core.HARNESS, "Cargo.lock"), os.path.join(pv, "Cargo.lock"))
    return pv, None


def run_hashes(binp, corpus):
    r = subprocess.run([binp, "hashes", corpus], stdout=subprocess.PIPE, stderr=subprocess.PIPE, text=True)
    if r.returncode != 0:
        return None, r.stderr[-2000:]
    d = {}
    for l in r.stdout.splitlines():
        p = l.split()
        if len(p) >= 3:
            d[(int(p[0]), int(p[1]))] = (p[2], p[3] if len(p) > 3 else "")
    return d, None


def full(binp, corpus, idx, strict):
    r = subprocess.run([binp, "full", corpus, str(idx), str(strict)], stdout=subprocess.PIPE, stderr=subprocess.DEVNULL, text=True)
    return r.stdout


def run(core, tier, replay):
    prop = "C20"
    t0 = time.time()
    scratch = scratch_dir()
    # the regenerated crate is built in the background while the harness builds and the corpus is written
    import threading
    regen_res = {}

    def build_regenerated():
        pv, err = make_regenerated(core, scratch)
        regen_res["pv"], regen_res["err"] = pv, err
        if pv is not None:
            tb = time.time()
            regen_res["rc"], regen_res["out"] = core.cargo_build([], target_dir=os.path.join(scratch, "target"), cwd=pv)
            regen_res["build_s"] = time.time() - tb

    th = threading.Thread(target=build_regenerated)
    th.start()
    rc, out = core.cargo_build(["vmain", "vprobe"])
    if rc != 0:
        th.join()
        shutil.rmtree(scratch, ignore_errors=True)
        print(out[-4000:])
        print("MACHINERY-ERROR: the harness does not build against the current /repo tree")
        core.write_fail_evidence(prop, tier, "harness build failed")
        return 2
    try:
        corpus = os.path.join(scratch, "corpus.bin")
        vmain = os.path.join(core.HARNESS, "target", "release", "vmain")
        r = subprocess.run([vmain, "dump-corpus", tier, corpus], stdout=subprocess.PIPE, text=True, env=core.ENV)
        if r.returncode != 0:
            print("MACHINERY-ERROR: cannot dump the corpus")
            core.write_fail_evidence(prop, tier, "corpus dump failed")
            return 2
        n_inputs = int(r.stdout.split()[0])
        th.join()
        pv, err = regen_res.get("pv"), regen_res.get("err")
        if pv is None:
            print("MACHINERY-ERROR: " + str(err))
            core.write_fail_evidence(prop, tier, str(err))
            return 2
        rc, out, build_s = regen_res["rc"], regen_res["out"], regen_res["build_s"]
        if rc != 0:
            # the shipped crate builds (vmain did), the regenerated one does not: regenerating changes something observable
            import c19
            return c19.violation_from_build_failure(core, prop, tier, out)
        shipped = os.path.join(core.HARNESS, "target", "release", "vprobe")
        regen = os.path.join(scratch, "target", "release", "vprobe")
        hs, e1 = run_hashes(shipped, corpus)
        hr, e2 = run_hashes(regen, corpus)
        if hs is None or hr is None:
            print("MACHINERY-ERROR: probe run failed: " + str(e1 or e2))
            core.write_fail_evidence(prop, tier, "probe run failed")
            return 2
        if set(hs) != set(hr) or len(hs) != 2 * n_inputs:
            print(f"MACHINERY-ERROR: transcript sets differ in size ({len(hs)} vs {len(hr)}, expected {2*n_inputs})")
            core.write_fail_evidence(prop, tier, "transcript count mismatch")
            return 2
        diffs = sorted(k for k in hs if hs[k][0] != hr[k][0])
        outcomes = {}
        for k in hs:
            key = f"shipped {hs[k][1]} / regenerated {hr[k][1]}"
            outcomes[key] = outcomes.get(key, 0) + 1
        violations = {}
        for (idx, strict) in diffs[:200]:
            a = full(shipped, corpus, idx, strict)
            b = full(regen, corpus, idx, strict)
            la, lb = a.splitlines(), b.splitlines()
            first = next((i for i in range(min(len(la), len(lb))) if la[i] != lb[i]), min(len(la), len(lb)))
            where = (la[first] if first < len(la) else "<end>")[:40]
            # classify by the kind of line that differs first
            kind = "diagnostic" if where.startswith("DIAG") else "error" if where.startswith("ERR") else "model" if where.startswith("A2lFile") else "text"
            key = f"C20/transcript-differs/{kind}/{hs[(idx,strict)][1]}-{hr[(idx,strict)][1]}"
            if key not in violations:
                violations[key] = {"count": 0, "idx": idx, "strict": strict, "shipped": a[:6000], "regenerated": b[:6000], "first_difference": [la[first][:300] if first < len(la) else "", lb[first][:300] if first < len(lb) else ""]}
            violations[key]["count"] += 1
        known = []
        try:
            kf = json.load(open(os.path.join(core.VERIF, "known_findings.json")))
            known = [(f["key"], f["what"]) for f in kf.get("findings", []) if f.get("property") == prop and f.get("status") == "open"]
        except Exception:
            pass
        nviol = 0
        rd = os.path.join(core.VERIF, "replays", prop)
        shutil.rmtree(rd, ignore_errors=True)
        for key, v in violations.items():
            kn = [k for k in known if k[0] == key]
            if kn:
                print(f"KNOWN-FINDING: property={prop} {kn[0][1]} [{key}]")
                continue
            nviol += 1
            os.makedirs(rd, exist_ok=True)
            path = os.path.join(rd, f"{abs(hash(key)) % 10**12:012d}.json")
            with open(path, "w") as f:
                json.dump({"property": prop, "key": key, "what": f"{v['count']} inputs give different transcripts; first difference: {v['first_difference']}", "replay": v}, f, indent=1)
            print(f"VIOLATION property={prop} replay={path}")
            print("  key: " + key)
            print("  what: shipped: " + v["first_difference"][0][:200])
            print("        regenerated: " + v["first_difference"][1][:200])
        sample_idx = sorted(hs)[len(hs) // 3]
        ev = {"property_id": prop, "tier": tier, "seed": int(os.environ.get("VERIF_SEED", "0") or 0), "level": "model_checking",
              "wall_s": round(time.time() - t0, 1), "violations": nviol,
              "coverage": {"states": n_inputs, "transitions": 4 * n_inputs, "traces_validated_against_impl": 2 * n_inputs, "evaluations": 2 * n_inputs,
                           "distinct_nontrivial": sum(1 for k in hs if hs[k][1] != "OK"), "programs": 2, "disagreements_checked": len(diffs),
                           "rule": "inputs = the C04 space (every tag x slot x enum item x 6 versions, every single deviation), a stride of the C01 cases (layout, value classes, comments) and every token deletion/duplication/swap/truncation of the carriers, each with strict on and off; both builds of the probe produce a transcript (result, Debug of the model, Display of every diagnostic, written text, check() count, written text after sort()); transcripts compared by hash, differing ones dumped in full. distinct = distinct input text; non-trivial = the load does not plainly succeed",
                           "exhaustive": True, "outcomes": outcomes, "regenerated_build_s": round(build_s, 1),
                           "samples": [full(shipped, corpus, sample_idx[0], sample_idx[1])[:1500]]},
              "assumptions": ["the regenerated variant is /repo/a2lfile with src/specification.rs replaced by src/specification_orig.rs and the a2lmacros dependency pointing at /repo/a2lmacros"]}
        os.makedirs(os.path.join(core.VERIF, "evidence"), exist_ok=True)
        with open(os.path.join(core.VERIF, "evidence", prop + ".json"), "w") as f:
            json.dump(ev, f, indent=1)
        print(f"{prop} {tier}: inputs={n_inputs} transcripts={2*n_inputs} differing={len(diffs)} violations={nviol} regenerated_build={build_s:.0f}s wall={time.time()-t0:.0f}s")
        return 1 if nviol else 0
    finally:
        th.join()
        shutil.rmtree(scratch, ignore_errors=True)
