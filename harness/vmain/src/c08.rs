//! C08 — merge conserves both inputs: explicit enumeration of all overlap assignments per
//! namespace, merge histories (bfs), algebraic cases; relational oracle on module snapshots.

use crate::mergecheck::{check_merge, MV};
use crate::modgen::*;
use crate::util::*;
use serde_json::{json, Value};
use vcore::explore::{fnv1a, par_map};
use vcore::grammar::Grammar;
use vcore::report::Run;

pub struct NsSpace {
    pub name: &'static str,
    pub kinds: Vec<&'static str>,
}

pub fn namespaces() -> Vec<NsSpace> {
    vec![
        NsSpace { name: "objects", kinds: vec!["AXIS_PTS", "BLOB", "CHARACTERISTIC", "INSTANCE", "MEASUREMENT"] },
        NsSpace { name: "compu_tabs", kinds: vec!["COMPU_TAB", "COMPU_VTAB", "COMPU_VTAB_RANGE"] },
        NsSpace { name: "typedefs", kinds: vec!["TYPEDEF_AXIS", "TYPEDEF_BLOB", "TYPEDEF_CHARACTERISTIC", "TYPEDEF_MEASUREMENT", "TYPEDEF_STRUCTURE"] },
        NsSpace { name: "compu_method", kinds: vec!["COMPU_METHOD"] },
        NsSpace { name: "unit", kinds: vec!["UNIT"] },
        NsSpace { name: "record_layout", kinds: vec!["RECORD_LAYOUT"] },
        NsSpace { name: "frame", kinds: vec!["FRAME"] },
        NsSpace { name: "transformer", kinds: vec!["TRANSFORMER"] },
        NsSpace { name: "memory_segment", kinds: vec!["MEMORY_SEGMENT"] },
        NsSpace { name: "group", kinds: vec!["GROUP"] },
        NsSpace { name: "function", kinds: vec!["FUNCTION"] },
        NsSpace { name: "user_rights", kinds: vec!["USER_RIGHTS"] },
    ]
}

/// a cell assignment: for each (name, side) an option index: 0 = absent, else 1 + kind*2 + content
pub fn specs_of(ns: &NsSpace, names: &[&str], assign: &[usize]) -> (Vec<ESpec>, Vec<ESpec>) {
    let (mut a, mut b) = (Vec::new(), Vec::new());
    for (ci, opt) in assign.iter().enumerate() {
        if *opt == 0 {
            continue;
        }
        let name = names[ci / 2];
        let side = ci % 2;
        let kind = ns.kinds[(opt - 1) / 2];
        let content = if (opt - 1) % 2 == 0 { "c1" } else { "c2" };
        let es = e(kind, name, content);
        if side == 0 {
            a.push(es);
        } else {
            b.push(es);
        }
    }
    (a, b)
}

pub fn merge_and_check(g: &Grammar, ta: &str, tb: &str) -> Result<Vec<MV>, String> {
    let (mut fa, mut fb) = match (load(ta, None, false), load(tb, None, false)) {
        (Loaded::Ok(a, _), Loaded::Ok(b, _)) => (a, b),
        (Loaded::Err(e), _) | (_, Loaded::Err(e)) => return Err(format!("machinery: generated module does not load: {e}")),
        _ => return Err("machinery: panic while loading a generated module".into()),
    };
    let _ = g;
    let sa = module_snapshot(&fa)?;
    let sb = module_snapshot(&fb)?;
    vcore::explore::guard(|| fa.merge_modules(&mut fb)).map_err(|p| format!("panic: {p}"))?;
    let sr = module_snapshot(&fa)?;
    let mut v = check_merge(&sa, &sb, &sr);
    // the merged file must be writable and reloadable to an equal model
    match crate::c01::roundtrip_model(&fa) {
        crate::c01::RT::Viol { oracle, what } => v.push(MV { category: "conservation", oracle: "merged-file-not-stable", detail: oracle.to_string(), what }),
        _ => {}
    }
    Ok(v)
}


/// every name-indexed list of the module answers lookups by name with the element at the position it reports
pub fn index_coherent(f: &a2lfile::A2lFile) -> Result<(), String> {
    use a2lfile::A2lObjectName;
    let m = &f.project.module[0];
    macro_rules! chk {
        ($l:expr, $what:expr) => {
            for (i, x) in $l.iter().enumerate() {
                let n = x.get_name();
                let first = $l.iter().position(|y| y.get_name() == n).unwrap_or(i);
                if $l.index(n) != Some(first) || !$l.contains_key(n) || $l.get(n).map(|y| y.get_name()) != Some(n) {
                    return Err(format!("{}: lookup of {n} gives index {:?}, the element is at {first}", $what, $l.index(n)));
                }
            }
            if $l.keys().count() != { let mut s = std::collections::BTreeSet::new(); $l.iter().for_each(|x| { s.insert(x.get_name().to_string()); }); s.len() } {
                return Err(format!("{}: the name index holds {} keys for {} elements", $what, $l.keys().count(), $l.len()));
            }
        };
    }
    chk!(m.axis_pts, "axis_pts");
    chk!(m.blob, "blob");
    chk!(m.characteristic, "characteristic");
    chk!(m.compu_method, "compu_method");
    chk!(m.compu_tab, "compu_tab");
    chk!(m.compu_vtab, "compu_vtab");
    chk!(m.compu_vtab_range, "compu_vtab_range");
    chk!(m.frame, "frame");
    chk!(m.function, "function");
    chk!(m.group, "group");
    chk!(m.instance, "instance");
    chk!(m.measurement, "measurement");
    chk!(m.record_layout, "record_layout");
    chk!(m.transformer, "transformer");
    chk!(m.typedef_axis, "typedef_axis");
    chk!(m.typedef_blob, "typedef_blob");
    chk!(m.typedef_characteristic, "typedef_characteristic");
    chk!(m.typedef_measurement, "typedef_measurement");
    chk!(m.typedef_structure, "typedef_structure");
    chk!(m.unit, "unit");
    if let Some(p) = &m.mod_par {
        chk!(p.memory_segment, "memory_segment");
    }
    Ok(())
}

/// modules for the histories on one live object: the same names in every namespace with three different contents, the
/// names a renaming produces, and a module that refers to them
fn live_menu(g: &Grammar) -> Vec<String> {
    let kinds = ["MEASUREMENT", "CHARACTERISTIC", "COMPU_METHOD", "UNIT", "RECORD_LAYOUT", "FRAME", "TRANSFORMER", "COMPU_VTAB", "TYPEDEF_AXIS", "MEMORY_SEGMENT", "GROUP", "FUNCTION"];
    let names = ["X", "XC", "CM", "U", "RL", "FR", "T", "V", "TA", "SEG", "G", "F"];
    let all = |c: &str, suffix: &str| -> Vec<ESpec> { kinds.iter().zip(names.iter()).map(|(k, n)| e(k, &format!("{n}{suffix}"), c)).collect() };
    vec![file_text(g, "L1", &all("c1", "")), file_text(g, "L2", &all("c2", "")), file_text(g, "L3", &all("c3", "")), file_text(g, "L4", &all("c1", ".MERGE")), file_text(g, "L5", &[e("MEASUREMENT", "X", "c2"), e("UNIT", "U", "c1"), e("COMPU_METHOD", "CM", "c2").kid(ks("REF_UNIT", &[("unit", "U")]))])]
}

/// one history of merges on a live object; Err((step, MV)) for the first problem
fn live_history(g: &Grammar, start: &str, menu: &[String], hist: &[usize]) -> Result<u64, (usize, MV)> {
    let _ = g;
    let mk = |o: &'static str, w: String| MV { category: "conservation", oracle: o, detail: "live".into(), what: w };
    let Loaded::Ok(mut f, _) = load(start, None, false) else { return Err((0, mk("machinery", "start does not load".into()))) };
    let mut steps = 0u64;
    for (i, j) in hist.iter().enumerate() {
        let Loaded::Ok(mut o, _) = load(&menu[*j], None, false) else { return Err((i, mk("machinery", "menu module does not load".into()))) };
        let sa = module_snapshot(&f).map_err(|e| (i, mk("machinery", e)))?;
        let sb = module_snapshot(&o).map_err(|e| (i, mk("machinery", e)))?;
        vcore::explore::guard(std::panic::AssertUnwindSafe(|| f.merge_modules(&mut o))).map_err(|p| (i, mk("panic", p)))?;
        steps += 1;
        let sr = module_snapshot(&f).map_err(|e| (i, mk("machinery", e)))?;
        if let Some(v) = check_merge(&sa, &sb, &sr).into_iter().find(|v| v.category == "conservation") {
            return Err((i, v));
        }
        index_coherent(&f).map_err(|w| (i, mk("name-index-incoherent-after-merge", w)))?;
    }
    if let crate::c01::RT::Viol { oracle, what } = crate::hist::roundtrip_modulo_order(&f) {
        return Err((hist.len().saturating_sub(1), MV { category: "conservation", oracle: "merged-file-not-stable", detail: oracle.to_string(), what }));
    }
    Ok(steps)
}

struct Case8 {
    label: String,
    ns: String,
    ta: String,
    tb: String,
}

fn cell_cases(g: &Grammar, thorough: bool) -> Vec<Case8> {
    let mut out = Vec::new();
    for ns in namespaces() {
        let name_sets: Vec<Vec<&str>> = if thorough {
            if ns.kinds.len() > 1 {
                vec![vec!["X", "Y"], vec!["X", "X.MERGE"]]
            } else {
                vec![vec!["X", "Y"], vec!["X", "X.MERGE", "X.MERGE2"], vec!["X", "X.MERGE", "X.MERGE.MERGE"]]
            }
        } else if ns.kinds.len() > 1 {
            vec![vec!["X", "Y"]]
        } else {
            vec![vec!["X", "Y"], vec!["X", "X.MERGE", "X.MERGE2"]]
        };
        for names in name_sets {
            let cells = names.len() * 2;
            let opts = 1 + ns.kinds.len() * 2;
            // quick tier for the 5-kind namespaces with 2 names: the second name only takes kind 0 and 1
            let total = opts.pow(cells as u32);
            for idx in 0..total {
                let mut assign = Vec::with_capacity(cells);
                let mut x = idx;
                for _ in 0..cells {
                    assign.push(x % opts);
                    x /= opts;
                }
                if !thorough && ns.kinds.len() > 3 {
                    // restrict the second name to absent / first two kinds (content c1) to keep the quick tier small
                    if assign[2] > 3 || assign[3] > 3 || (assign[2] != 0 && assign[2] % 2 == 0) || (assign[3] != 0 && assign[3] % 2 == 0) {
                        continue;
                    }
                }
                let (a, b) = specs_of(&ns, &names, &assign);
                if b.is_empty() {
                    continue;
                }
                out.push(Case8 { label: format!("{} names={:?} assign={:?}", ns.name, names, assign), ns: ns.name.to_string(), ta: file_text(g, "A", &a), tb: file_text(g, "B", &b) });
            }
        }
    }
    out
}

/// merge histories: bfs over merge(B_j) from a menu of small modules; every state checked
fn history_menu(g: &Grammar) -> Vec<String> {
    vec![
        file_text(g, "B1", &[e("MEASUREMENT", "X", "c1"), e("COMPU_METHOD", "CM", "c1")]),
        file_text(g, "B2", &[e("MEASUREMENT", "X", "c2"), e("CHARACTERISTIC", "Y", "c1")]),
        file_text(g, "B3", &[e("CHARACTERISTIC", "X", "c1"), e("COMPU_METHOD", "CM", "c2"), e("GROUP", "G", "c1").kid(kl("REF_MEASUREMENT", &["X"]))]),
        file_text(g, "B4", &[e("MEASUREMENT", "X.MERGE", "c1"), e("GROUP", "G", "c2").kid(kl("REF_MEASUREMENT", &["X.MERGE"]))]),
        file_text(g, "B5", &[e("UNIT", "U", "c1"), e("UNIT", "U.MERGE", "c2"), e("RECORD_LAYOUT", "RL", "c1")]),
        file_text(g, "B6", &[e("UNIT", "U", "c2"), e("RECORD_LAYOUT", "RL", "c2"), e("MEASUREMENT", "Y", "c2")]),
    ]
}

pub fn run(tier: &str) -> Run {
    let mut run = Run::new("C08", tier);
    let thorough = tier == "thorough";
    let g = crate::corpus::grammar();
    let cases = cell_cases(&g, thorough);
    let res = par_map(cases.len(), &|i| merge_and_check(&g, &cases[i].ta, &cases[i].tb), &|i| {
        println!("MACHINERY-ERROR: C08 case hangs: {}", cases[i].label);
        std::process::exit(2);
    });
    for (i, r) in res.into_iter().enumerate() {
        run.evaluations += 1;
        run.transitions += 3;
        let h = fnv1a(format!("{}|{}", cases[i].ta, cases[i].tb).as_bytes());
        if run.states.insert(h) {
            run.nontrivial.insert(h);
        }
        match r {
            Err(m) if m.starts_with("machinery") => run.machinery(format!("{}: {m}", cases[i].label)),
            Err(p) => run.violation(format!("C08/panic {}", vcore::explore::panic_key(&p)), format!("{}: {p}", cases[i].label), json!({"a": cases[i].ta, "b": cases[i].tb})),
            Ok(vs) => {
                if vs.is_empty() {
                    run.outcome(&format!("{}: conserved", cases[i].ns));
                }
                for v in vs {
                    run.outcome(&format!("{}: violation", cases[i].ns));
                    run.violation(format!("C08/{}/{}/{}", v.oracle, cases[i].ns, v.detail), format!("{}: {}", cases[i].label, v.what), json!({"a": cases[i].ta, "b": cases[i].tb}));
                }
            }
        }
        if i % 9001 == 17 {
            run.sample(json!({"label": cases[i].label, "A": short(&cases[i].ta, 300), "B": short(&cases[i].tb, 300)}));
        }
    }
    // the C09 reference-site space is also checked for conservation
    let rcases = crate::c09::build(&g, thorough);
    let rres = par_map(rcases.len(), &|i| merge_and_check(&g, &rcases[i].ta, &rcases[i].tb), &|i| {
        println!("MACHINERY-ERROR: C08 case hangs: {}", rcases[i].label);
        std::process::exit(2);
    });
    for (i, r) in rres.into_iter().enumerate() {
        run.evaluations += 1;
        run.transitions += 3;
        run.states.insert(fnv1a(format!("{}|{}", rcases[i].ta, rcases[i].tb).as_bytes()));
        match r {
            Err(m) if m.starts_with("machinery") => run.machinery(format!("{}: {m}", rcases[i].label)),
            Err(p) => run.violation(format!("C08/panic {}", vcore::explore::panic_key(&p)), format!("{}: {p}", rcases[i].label), json!({"a": rcases[i].ta, "b": rcases[i].tb})),
            Ok(vs) => {
                let vs: Vec<MV> = vs.into_iter().filter(|v| v.category == "conservation").collect();
                if vs.is_empty() {
                    run.outcome("reference-site space: conserved");
                }
                for v in vs {
                    run.outcome("reference-site space: violation");
                    run.violation(format!("C08/{}/refspace/{}", v.oracle, v.detail), format!("{}: {}", rcases[i].label, v.what), json!({"a": rcases[i].ta, "b": rcases[i].tb}));
                }
            }
        }
    }
    // algebraic cases and histories
    let menu = history_menu(&g);
    let empty = file_text(&g, "E", &[]);
    let mut starts = vec![("empty-module".to_string(), empty.clone()), ("new()".to_string(), a2lfile::new().write_to_string())];
    for (j, m) in menu.iter().enumerate() {
        starts.push((format!("B{}", j + 1), m.clone()));
    }
    // (d) merge empty, merge clone, merge into empty
    for (sn, st) in &starts {
        let Loaded::Ok(base, _) = load(st, None, false) else { continue };
        let before_text = base.write_to_string();
        for (what, other) in [("merge-empty", empty.clone()), ("merge-clone", st.clone())] {
            let mut f = a2lfile::load_from_string(st, None, false).unwrap().0;
            let mut o = a2lfile::load_from_string(&other, None, false).unwrap().0;
            f.merge_modules(&mut o);
            run.evaluations += 1;
            run.transitions += 1;
            // module names differ (A vs E): compare module content through the snapshot and the text
            let same_model = module_snapshot(&f).map(|s| s.elems.iter().map(|e| e.dv.canon()).collect::<Vec<_>>()) == module_snapshot(&base).map(|s| s.elems.iter().map(|e| e.dv.canon()).collect::<Vec<_>>());
            if !same_model || f.write_to_string() != before_text {
                run.violation(format!("C08/{what}-changes-something"), format!("{what} on {sn} changed the model or the text"), json!({"a": st, "b": other}));
            } else {
                run.outcome(&format!("{what}: unchanged"));
            }
        }
        // merge into empty yields B's content
        let mut f = a2lfile::load_from_string(&empty, None, false).unwrap().0;
        let mut o = a2lfile::load_from_string(st, None, false).unwrap().0;
        let want = module_snapshot(&o).map(|s| s.elems.iter().map(|e| (e.list.clone(), e.dv.canon())).collect::<Vec<_>>());
        f.merge_modules(&mut o);
        let got = module_snapshot(&f).map(|s| s.elems.iter().map(|e| (e.list.clone(), e.dv.canon())).collect::<Vec<_>>());
        run.evaluations += 1;
        run.transitions += 1;
        if want != got {
            run.violation("C08/merge-into-empty-differs".to_string(), format!("merging {sn} into an empty module does not yield its content"), json!({"a": empty, "b": st}));
        } else {
            run.outcome("merge-into-empty: equals B");
        }
    }
    // histories: bfs over sequences of merges, every step checked by the relational oracle
    let depth = if thorough { 4 } else { 3 };
    let mut frontier: Vec<(Vec<usize>, String)> = starts.iter().enumerate().map(|(i, s)| (vec![100 + i], s.1.clone())).collect();
    let mut seen = std::collections::HashSet::new();
    let mut hist_states = 0u64;
    for _d in 0..depth {
        let mut next = Vec::new();
        for (hist, text) in &frontier {
            for (j, m) in menu.iter().enumerate() {
                run.evaluations += 1;
                run.transitions += 1;
                match merge_and_check(&g, text, m) {
                    Err(e) => {
                        if e.starts_with("machinery") {
                            run.machinery(e);
                        } else {
                            run.violation(format!("C08/panic {}", vcore::explore::panic_key(&e)), format!("history {hist:?} + B{}: {e}", j + 1), json!({"a": text, "b": m}));
                        }
                    }
                    Ok(vs) => {
                        for v in vs.iter().filter(|v| v.category == "conservation") {
                            run.violation(format!("C08/{}/history/{}", v.oracle, v.detail), format!("history {hist:?} + B{}: {}", j + 1, v.what), json!({"a": text, "b": m}));
                        }
                        let mut f = a2lfile::load_from_string(text, None, false).unwrap().0;
                        let mut o = a2lfile::load_from_string(m, None, false).unwrap().0;
                        f.merge_modules(&mut o);
                        let t = f.write_to_string();
                        let canon = module_snapshot(&f).map(|s| s.elems.iter().map(|e| e.dv.canon()).collect::<Vec<_>>().join("|")).unwrap_or_default();
                        if seen.insert(fnv1a(canon.as_bytes())) {
                            hist_states += 1;
                            let mut h2 = hist.clone();
                            h2.push(j);
                            next.push((h2, t));
                        }
                    }
                }
            }
        }
        frontier = next;
    }
    // GROUP / FUNCTION unions: the same-name element on both sides with every combination of member lists drawn from a small
    // pool of identifiers (one identifier may stand in several lists of the element)
    {
        let opts: [&[&str]; 3] = [&[], &["P"], &["Q", "P"]];
        let mut ucases: Vec<Case8> = Vec::new();
        for (kind, lists) in [("GROUP", vec!["SUB_GROUP", "FUNCTION_LIST", "REF_CHARACTERISTIC", "REF_MEASUREMENT"]), ("FUNCTION", vec!["SUB_FUNCTION", "IN_MEASUREMENT", "DEF_CHARACTERISTIC"]), ("FUNCTION", vec!["LOC_MEASUREMENT", "OUT_MEASUREMENT", "REF_CHARACTERISTIC"])] {
            let n = lists.len() * 2;
            for code in 0..3usize.pow(n as u32) {
                let mut c = code;
                let (mut ea, mut eb) = (e(kind, "U", "c1"), e(kind, "U", "c1"));
                for (li, l) in lists.iter().enumerate() {
                    for side in 0..2 {
                        let o = opts[c % 3];
                        c /= 3;
                        if !o.is_empty() {
                            if side == 0 {
                                ea = ea.kid(kl(l, o));
                            } else {
                                eb = eb.kid(kl(l, o));
                            }
                        }
                        let _ = li;
                    }
                }
                ucases.push(Case8 { label: format!("{kind} union {lists:?} code {code}"), ns: format!("{}-union", kind.to_lowercase()), ta: file_text(&g, "A", &[ea]), tb: file_text(&g, "B", &[eb]) });
            }
        }
        // .. and the rest of the element: every optional sub-element that is not a member list (ROOT, ANNOTATION, FUNCTION_VERSION,
        // IF_DATA ..) present on A's side only, on B's side only and on both, with member lists that differ so that the union is
        // taken: A's element gains members and nothing else
        for (kind, list) in [("GROUP", "REF_CHARACTERISTIC"), ("GROUP", "SUB_GROUP"), ("FUNCTION", "DEF_CHARACTERISTIC"), ("FUNCTION", "SUB_FUNCTION")] {
            let union_fields: Vec<&str> = if kind == "GROUP" { vec!["SUB_GROUP", "FUNCTION_LIST", "REF_CHARACTERISTIC", "REF_MEASUREMENT"] } else { vec!["SUB_FUNCTION", "IN_MEASUREMENT", "LOC_MEASUREMENT", "OUT_MEASUREMENT", "DEF_CHARACTERISTIC", "REF_CHARACTERISTIC"] };
            let others: Vec<String> = g.elem(kind).refs.iter().filter(|r| r.in_version(5) && !union_fields.contains(&r.tag.as_str())).map(|r| r.tag.clone()).collect();
            for o in &others {
                for sides in 1..4u8 {
                    for (la, lb) in [(vec!["P"], vec!["Q", "P"]), (vec![], vec!["P"]), (vec!["P"], vec![])] {
                        let (mut ea, mut eb) = (e(kind, "U", "c1"), e(kind, "U", "c1"));
                        if !la.is_empty() {
                            ea = ea.kid(kl(list, &la));
                        }
                        if !lb.is_empty() {
                            eb = eb.kid(kl(list, &lb));
                        }
                        if sides & 1 != 0 {
                            ea = ea.kid(ks(o, &[]));
                        }
                        if sides & 2 != 0 {
                            eb = eb.kid(ks(o, &[]));
                        }
                        ucases.push(Case8 { label: format!("{kind} union of {list} {la:?} + {lb:?} with {o} on side(s) {sides}"), ns: format!("{}-union-rest", kind.to_lowercase()), ta: file_text(&g, "A", &[ea]), tb: file_text(&g, "B", &[eb]) });
                    }
                }
            }
        }
        let ures = par_map(ucases.len(), &|i| merge_and_check(&g, &ucases[i].ta, &ucases[i].tb), &|i| {
            println!("MACHINERY-ERROR: C08 union case hangs: {}", ucases[i].label);
            std::process::exit(2);
        });
        for (i, r) in ures.into_iter().enumerate() {
            run.evaluations += 1;
            run.transitions += 3;
            run.states.insert(fnv1a(format!("{}|{}", ucases[i].ta, ucases[i].tb).as_bytes()));
            match r {
                Err(e) if e.starts_with("machinery") => run.machinery(e),
                Err(e) => run.violation(format!("C08/panic {}", vcore::explore::panic_key(&e)), format!("{}: {e}", ucases[i].label), json!({"a": ucases[i].ta, "b": ucases[i].tb})),
                Ok(vs) => {
                    let cv: Vec<&MV> = vs.iter().filter(|v| v.category == "conservation" || v.oracle == "B-member-lost").collect();
                    if cv.is_empty() {
                        run.outcome("member-list unions: conserved");
                    }
                    for v in cv {
                        run.violation(format!("C08/{}/{}/{}", v.oracle, ucases[i].ns, v.detail), format!("{}: {}", ucases[i].label, v.what), json!({"a": ucases[i].ta, "b": ucases[i].tb}));
                    }
                }
            }
        }
        run.require("member-list unions: conserved", 5000);
    }
    // MOD_PAR on both sides: the SYSTEM_CONSTANTs (a name and a value) of A stay as they are, every name of B is represented, and no
    // name occurs twice, for every combination of {absent, value 1, value 2} per side for a shared name plus a name of B's own
    {
        let consts = |text: &str| -> Vec<(String, String)> {
            let Ok(lex) = vcore::reftok::lex(text) else { return vec![] };
            let t = &lex.tokens;
            (0..t.len()).filter(|i| t[*i].text == "SYSTEM_CONSTANT" && i + 2 < t.len()).map(|i| (t[i + 1].text.clone(), t[i + 2].text.clone())).collect()
        };
        for va in [None, Some("1"), Some("2")] {
            for vb in [None, Some("1"), Some("2")] {
                for (a_has_modpar, b_own) in [(true, true), (true, false), (false, true)] {
                    let mp = |shared: Option<&str>, own: Option<(&str, &str)>| {
                        let mut m = e("MOD_PAR", "", "c1");
                        if let Some(v) = shared {
                            m = m.kid(ks("SYSTEM_CONSTANT", &[("name", "\"X\""), ("value", &format!("\"{v}\""))]));
                        }
                        if let Some((n, v)) = own {
                            m = m.kid(ks("SYSTEM_CONSTANT", &[("name", &format!("\"{n}\"")), ("value", &format!("\"{v}\""))]));
                        }
                        m
                    };
                    let ea: Vec<ESpec> = if a_has_modpar { vec![mp(va, Some(("A_OWN", "7")))] } else { vec![] };
                    let eb = vec![mp(vb, if b_own { Some(("B_OWN", "8")) } else { None })];
                    let (ta, tb) = (file_text(&g, "A", &ea), file_text(&g, "B", &eb));
                    run.evaluations += 1;
                    run.transitions += 3;
                    run.states.insert(fnv1a(format!("{ta}|{tb}").as_bytes()));
                    let label = format!("MOD_PAR: SYSTEM_CONSTANT X = {va:?} in A (MOD_PAR present: {a_has_modpar}), {vb:?} in B, own constant in B: {b_own}");
                    let r = (|| -> Result<Vec<(&'static str, String)>, String> {
                        let (Loaded::Ok(mut fa, _), Loaded::Ok(mut fb, _)) = (load(&ta, None, false), load(&tb, None, false)) else { return Err("machinery: generated module does not load".into()) };
                        let (ca, cb) = (consts(&fa.write_to_string()), consts(&fb.write_to_string()));
                        vcore::explore::guard(|| fa.merge_modules(&mut fb)).map_err(|p| format!("panic: {p}"))?;
                        let cr = consts(&fa.write_to_string());
                        let mut out = Vec::new();
                        for c in &ca {
                            if !cr.contains(c) {
                                out.push(("A-element-changed", format!("SYSTEM_CONSTANT {} {} of A is missing or altered: {cr:?}", c.0, c.1)));
                            }
                        }
                        for c in &cb {
                            if !cr.iter().any(|r| r.0 == c.0) {
                                out.push(("B-element-lost", format!("SYSTEM_CONSTANT {} of B is not represented: {cr:?}", c.0)));
                            }
                        }
                        let mut names: Vec<&String> = cr.iter().map(|c| &c.0).collect();
                        names.sort();
                        if names.windows(2).any(|w| w[0] == w[1]) {
                            out.push(("duplicate-name", format!("the result holds a SYSTEM_CONSTANT name twice: {cr:?}")));
                        }
                        Ok(out)
                    })();
                    match r {
                        Err(e2) if e2.starts_with("machinery") => run.machinery(format!("{label}: {e2}")),
                        Err(e2) => run.violation(format!("C08/panic {}", vcore::explore::panic_key(&e2)), format!("{label}: {e2}"), json!({"a": ta, "b": tb})),
                        Ok(vs) => {
                            if vs.is_empty() {
                                run.outcome("system constants: conserved");
                            }
                            for (o, w) in vs {
                                run.violation(format!("C08/{o}/mod-par/SystemConstant"), format!("{label}: {w}"), json!({"a": ta, "b": tb}));
                            }
                        }
                    }
                }
            }
        }
    }
    // same-name elements that differ only in a later one of several same-named sub-items (an INSTANCE with one OVERWRITE per
    // axis: the OVERWRITE blocks share the name of the instance's component)
    {
        let inst = |second_cm: &str, first_cm: &str| {
            e("INSTANCE", "I", "c1")
                .set("type_ref", "TS")
                .kid(ks("OVERWRITE", &[("name", "ov"), ("axis_number", "1")]).with(ks("CONVERSION", &[("name", first_cm)])))
                .kid(ks("OVERWRITE", &[("name", "ov"), ("axis_number", "2")]).with(ks("CONVERSION", &[("name", second_cm)])))
                .kid(ks("OVERWRITE", &[("name", "ov"), ("axis_number", "3")]).with(ks("CONVERSION", &[("name", "CM1")])))
        };
        for (label, a, b) in [
            ("second OVERWRITE differs", inst("CM1", "CM1"), inst("CM2", "CM1")),
            ("first OVERWRITE differs", inst("CM1", "CM1"), inst("CM1", "CM2")),
            ("identical", inst("CM2", "CM1"), inst("CM2", "CM1")),
        ] {
            let (ta, tb) = (file_text(&g, "A", &[a]), file_text(&g, "B", &[b]));
            run.evaluations += 1;
            run.transitions += 3;
            run.states.insert(fnv1a(format!("{ta}|{tb}").as_bytes()));
            match merge_and_check(&g, &ta, &tb) {
                Err(e2) if e2.starts_with("machinery") => run.machinery(e2),
                Err(e2) => run.violation(format!("C08/panic {}", vcore::explore::panic_key(&e2)), format!("INSTANCE with three same-named OVERWRITE blocks, {label}: {e2}"), json!({"a": ta, "b": tb})),
                Ok(vs) => {
                    let cv: Vec<&MV> = vs.iter().filter(|v| v.category == "conservation").collect();
                    if cv.is_empty() {
                        run.outcome("same-named sub-items: conserved");
                    }
                    for v in cv {
                        run.violation(format!("C08/{}/same-named-sub-items/{}", v.oracle, v.detail), format!("INSTANCE with three same-named OVERWRITE blocks, {label}: {}", v.what), json!({"a": ta, "b": tb}));
                    }
                }
            }
        }
    }
    // rich documents (singletons MOD_COMMON / MOD_PAR / A2ML / VARIANT_CODING with all their optional children, elements with
    // sub-elements) merged into an empty module, into new() and into each other
    {
        let rich: Vec<String> = crate::corpus::rich_docs(&g).iter().map(|d| d.doc.text()).collect();
        let mut pairs: Vec<(String, String, String)> = Vec::new();
        for (j, b) in rich.iter().enumerate() {
            pairs.push((format!("empty module + rich({j})"), empty.clone(), b.clone()));
            pairs.push((format!("new() + rich({j})"), a2lfile::new().write_to_string(), b.clone()));
            for (i, a) in rich.iter().enumerate() {
                pairs.push((format!("rich({i}) + rich({j})"), a.clone(), b.clone()));
            }
        }
        for (label, ta, tb) in pairs {
            run.evaluations += 1;
            run.transitions += 3;
            run.states.insert(fnv1a(format!("{ta}|{tb}").as_bytes()));
            match merge_and_check(&g, &ta, &tb) {
                Err(e) if e.starts_with("machinery") => run.machinery(e),
                Err(e) => run.violation(format!("C08/panic {}", vcore::explore::panic_key(&e)), format!("{label}: {e}"), json!({"a": ta, "b": tb})),
                Ok(vs) => {
                    let cv: Vec<&MV> = vs.iter().filter(|v| v.category == "conservation").collect();
                    if cv.is_empty() {
                        run.outcome("rich documents: conserved");
                    }
                    for v in cv {
                        run.violation(format!("C08/{}/rich/{}", v.oracle, v.detail), format!("{label}: {}", v.what), json!({"a": ta, "b": tb}));
                    }
                }
            }
        }
        run.require("rich documents: conserved", 10);
    }
    // histories on one live object (the state keeps its in-memory indexes between the merges): every sequence of merges up
    // to the depth over the live menu, from an empty module and from the first menu module
    {
        let lm = live_menu(&g);
        let ldepth = if thorough { 5 } else { 4 };
        let mut seqs: Vec<Vec<usize>> = Vec::new();
        let mut fr: Vec<Vec<usize>> = vec![vec![]];
        for _ in 0..ldepth {
            let mut nx = Vec::new();
            for h in &fr {
                for j in 0..lm.len() {
                    let mut h2 = h.clone();
                    h2.push(j);
                    nx.push(h2);
                }
            }
            // (only maximal sequences are run: every prefix is checked on the way)
            fr = nx;
        }
        seqs.extend(fr);
        let lstarts = [empty.clone(), lm[0].clone()];
        let lres = par_map(seqs.len() * 2, &|i| live_history(&g, &lstarts[i % 2], &lm, &seqs[i / 2]), &|i| {
            println!("MACHINERY-ERROR: C08 live history hangs: {:?}", seqs[i / 2]);
            std::process::exit(2);
        });
        for (i, r) in lres.into_iter().enumerate() {
            run.evaluations += 1;
            run.states.insert(fnv1a(format!("live {} {:?}", i % 2, seqs[i / 2]).as_bytes()));
            match r {
                Ok(n) => {
                    run.transitions += n;
                    run.outcome("live history: every step conserved, name indexes coherent");
                }
                Err((_, v)) if v.oracle == "machinery" => run.machinery(v.what),
                Err((step, v)) => {
                    let hist = &seqs[i / 2][..=step.min(seqs[i / 2].len() - 1)];
                    let key = if v.oracle == "panic" { format!("C08/panic {}", vcore::explore::panic_key(&v.what)) } else { format!("C08/{}/live-history/{}", v.oracle, v.detail) };
                    run.violation(key, format!("live object, start {}, merges {:?} (step {}): {}", ["empty", "L1"][i % 2], hist.iter().map(|j| format!("L{}", j + 1)).collect::<Vec<_>>(), step + 1, v.what), json!({"live": {"start": i % 2, "hist": hist}}));
                }
            }
        }
        run.require("live history: every step conserved, name indexes coherent", 500);
    }
    run.outcome_n("history states (distinct module contents)", hist_states);
    run.extra.insert("history".into(), json!({"depth": depth, "menu": menu.len(), "distinct_states": hist_states}));
    run.require("objects: conserved", 500);
    run.require("typedefs: conserved", 500);
    run.require("compu_tabs: conserved", 500);
    run.require("unit: conserved", 50);
    run.rule = "per namespace, all assignments of {absent | (kind, content c1|c2)} to the cells (name, side) for the name sets {X,Y} and {X, X.MERGE, X.MERGE2 / X.MERGE.MERGE}; the reference-site space of C09; merge empty / clone / into empty from 8 start modules; bfs over merge histories from a menu of 6 modules (states deduplicated on module content); same-name GROUP / FUNCTION on both sides with every combination of member lists over {absent, [P], [Q, P]}; histories on one live object: every sequence of 4 (thorough 5) merges over 5 modules that hold the same names in 12 namespaces with three contents, the .MERGE names and a referrer, from two starts, the relational oracle and the coherence of every name index checked after each merge. Oracle: relational (A kept, every B element represented under an observed renaming that is fresh w.r.t. A, identical elements shared, names unique, nothing invented, merged file reloads to an equal model).".into();
    run.assumptions = vec!["USER_RIGHTS, SYSTEM_CONSTANT, MEMORY_LAYOUT and the singletons are all-or-nothing by design: only the A side and duplicate freedom are asserted for them".into()];
    run
}

pub fn replay(v: &Value) -> Result<String, String> {
    let g = crate::corpus::grammar();
    if let Some(l) = v.get("live") {
        let lm = live_menu(&g);
        let empty = file_text(&g, "E", &[]);
        let start = if l["start"].as_u64() == Some(0) { empty } else { lm[0].clone() };
        let hist: Vec<usize> = l["hist"].as_array().ok_or("no hist")?.iter().map(|x| x.as_u64().unwrap_or(0) as usize).collect();
        return match live_history(&g, &start, &lm, &hist) {
            Ok(n) => Ok(format!("{n} merges conserved")),
            Err((step, v)) => Err(format!("step {}: {}: {}", step + 1, v.oracle, v.what)),
        };
    }
    let ta = v["a"].as_str().ok_or("no a")?;
    let tb = v["b"].as_str().ok_or("no b")?;
    let vs = merge_and_check(&g, ta, tb)?;
    let vs: Vec<&MV> = vs.iter().filter(|v| v.category == "conservation").collect();
    if vs.is_empty() {
        Ok("conserved".into())
    } else {
        Err(vs.iter().map(|v| format!("{}: {}", v.oracle, v.what)).collect::<Vec<_>>().join(" || "))
    }
}
