//! C06 — strict and non-strict loading agree except on recoverable problems (lockstep).

use crate::c04;
use crate::corpus::{self, CDoc};
use crate::util::*;
use a2lfile::A2lError;
use serde_json::{json, Value};
use vcore::docgen::*;
use vcore::explore::{fnv1a, par_map};
use vcore::grammar::*;
use vcore::interp::Class;
use vcore::report::Run;

fn is_deprecation(e: &A2lError) -> bool {
    let v = variant_of(e);
    v.ends_with("BlockRefDeprecated") || v.ends_with("EnumRefDeprecated")
}

/// (filename, line) from the Display text "<kind> error: <file>:<line>: ..."
fn file_line(e: &A2lError) -> Option<(String, u32)> {
    let s = format!("{e}");
    let rest = s.split_once(" error: ")?.1;
    // filename may contain ':' only in exotic paths; the line is the number before the second ':' from the left after the name
    let mut parts = rest.splitn(3, ':');
    let file = parts.next()?.to_string();
    let line = parts.next()?.trim().parse().ok()?;
    Some((file, line))
}

pub struct Lock {
    pub text: String,
    pub label: String,
    pub class: String,
    /// the generator's idea of the token at which the fault sits (informational)
    pub fault_tok: Option<usize>,
    /// check R5 (file and line of the diagnostic) on this case
    pub r5: bool,
    /// first and last line of the element under test (located faults, one token per line)
    pub elem_lines: Option<(u32, u32)>,
}

pub enum V {
    Ok(String),
    Viol(&'static str, String),
}

pub fn lockstep(g: &Grammar, l: &Lock, via_file: Option<&std::path::Path>) -> V {
    let (strict, lax) = match via_file {
        None => (load(&l.text, None, true), load(&l.text, None, false)),
        Some(p) => {
            if std::fs::write(p, &l.text).is_err() {
                return V::Ok("scratch file not writable".into());
            }
            let f = |strict: bool| match vcore::explore::guard(|| a2lfile::load(p, None, strict)) {
                Ok(Ok((f, log))) => Loaded::Ok(f, log),
                Ok(Err(e)) => Loaded::Err(e),
                Err(p) => Loaded::Panic(p),
            };
            (f(true), f(false))
        }
    };
    if let Loaded::Panic(p) = &strict {
        return V::Viol("panic", p.clone());
    }
    if let Loaded::Panic(p) = &lax {
        return V::Viol("panic", p.clone());
    }
    // (an IF_DATA block, not the quoted tag inside an A2ML definition)
    let has_ifdata = l.text.match_indices("IF_DATA").any(|(i, _)| i == 0 || l.text.as_bytes()[i - 1] != b'"') && l.class != "end-tag-raw";
    let expect_file = via_file.map(|p| p.to_string_lossy().into_owned()).unwrap_or_default();
    let mut outcome = String::new();
    match (&strict, &lax) {
        (Loaded::Ok(fs, logs), Loaded::Ok(fl, logl)) => {
            outcome.push_str("both-ok");
            // R2 / R4
            if !has_ifdata || logl.is_empty() {
                if fs != fl {
                    return V::Viol("R4-models-differ", "both modes succeed but the models differ".into());
                }
            }
            if logl.is_empty() && !logs.is_empty() {
                return V::Viol("R2-strict-warns", format!("non-strict has no warnings, strict has: {}", logs[0]));
            }
            if !has_ifdata {
                // R3: strict Ok => non-strict has nothing but deprecation notices
                if let Some(e) = logl.iter().find(|e| !is_deprecation(e)) {
                    return V::Viol("R3-strict-accepts-what-lax-reports", format!("strict succeeds although non-strict reports: {e}"));
                }
                if logs.len() != logl.len() {
                    return V::Viol("R3-deprecation-count", format!("{} notices in strict mode, {} in non-strict mode", logs.len(), logl.len()));
                }
            }
            if !logl.is_empty() {
                outcome.push_str("+notices");
            }
        }
        (Loaded::Ok(..), Loaded::Err(e)) => {
            return V::Viol("R1-lax-fails", format!("strict loading succeeds, non-strict loading fails: {e}"));
        }
        (Loaded::Err(es), Loaded::Ok(_, logl)) => {
            outcome.push_str("strict-err,lax-ok");
            if logl.is_empty() {
                return V::Viol("R2-strict-fails", format!("non-strict succeeds without warnings, strict fails: {es}"));
            }
            if !has_ifdata && logl.iter().all(is_deprecation) {
                return V::Viol("R3-strict-rejects-clean", format!("strict fails ({es}) although non-strict reports nothing but deprecation notices"));
            }
        }
        (Loaded::Err(_), Loaded::Err(_)) => outcome.push_str("both-err"),
        _ => unreachable!(),
    }
    // R5: file and line of the diagnostic. The detection token is the one at which the reference
    // interpreter rejects the document, for the classes with a well-defined detection token.
    let mut recoverable = false;
    if std::env::var("C06_DEBUG").is_ok() {
        eprintln!("DEBUG lex/recognise: {:?}", vcore::reftok::lex(&l.text).map(|lx| vcore::interp::recognise(g, &lx).map(|_| "accepted").map_err(|r| format!("{:?} at {} {}", r.class, r.at, r.detail))));
    }
    let located = match vcore::reftok::lex(&l.text) {
        Ok(lexed) => match vcore::interp::recognise(g, &lexed) {
            // (the reference interpreter does not look inside A2ML / IF_DATA)
            Err(rej) if l.r5 && !has_ifdata && (!l.text.contains("A2ML") || l.class.ends_with("+a2ml-block")) && matches!(rej.class, Class::WrongType | Class::IdentForString | Class::BadNumber | Class::BadEnum | Class::UnknownTag | Class::BlockTooNew | Class::EnumTooNew | Class::EndTag | Class::NeedsBlock | Class::NeedsKeyword | Class::BadIdent | Class::Missing | Class::Trailing) => {
                // after a recoverable problem the non-strict parser goes on; if it fails later, the
                // warning is not observable (the log is only returned on success)
                recoverable = matches!(rej.class, Class::IdentForString | Class::UnknownTag | Class::BlockTooNew | Class::EnumTooNew | Class::EndTag | Class::BadIdent | Class::Missing | Class::Trailing);
                lexed.tokens.get(rej.at).map(|t| t.line)
            }
            _ => None,
        },
        Err(_) => None,
    };
    // a damaged A2ML block: the diagnostic that names it (strict: the error, non-strict: the log entry) carries a line of the
    // block - the A2ML text is one token that begins behind the tag of /begin A2ML and ends in front of /end
    if l.class.starts_with("a2ml-damaged-") {
        if let Some((first, last)) = l.elem_lines {
            let mut check = |e: &A2lError, mode: &str| -> Option<V> {
                if !format!("{e:?}").contains("A2mlError") {
                    return None;
                }
                let (f, ln) = file_line(e)?;
                if ln < first || ln >= last {
                    return Some(V::Viol("R5-line", format!("{mode}: the damaged A2ML block spans lines {first}..{last} (end tag at {last}), the diagnostic names line {ln}: {e}")));
                }
                if f != expect_file {
                    return Some(V::Viol("R5-file", format!("{mode}: diagnostic names file {f:?}, expected {expect_file:?}: {e}")));
                }
                outcome.push_str(",a2ml-line-checked");
                None
            };
            if let Loaded::Err(e) = &strict {
                if let Some(v) = check(e, "strict") {
                    return v;
                }
            }
            if let Loaded::Ok(_, log) = &lax {
                for e in log {
                    if let Some(v) = check(e, "non-strict") {
                        return v;
                    }
                }
            }
        }
    }
    // input that ends in the middle of the document: the end-of-input diagnostic names the line of the last token
    if l.class == "truncate" {
        if let Ok(lexed) = vcore::reftok::lex(&l.text) {
            if let Some(last) = lexed.tokens.last().map(|t| t.end_line) {
                for (mode, r) in [("strict", &strict), ("non-strict", &lax)] {
                    if let Loaded::Err(e) = r {
                        if format!("{e:?}").contains("UnexpectedEOF") {
                            if let Some((_, ln)) = file_line(e) {
                                if ln != last {
                                    return V::Viol("R5-line", format!("{mode}: the input ends at line {last}, the diagnostic names line {ln}: {e}"));
                                }
                                outcome.push_str(",eof-line-checked");
                            }
                        }
                    }
                }
            }
        }
    }
    if let Some(want) = located {
        let mut seen = 0;
        let mut check = |e: &A2lError, mode: &str| -> Option<V> {
            let (f, ln) = file_line(e)?;
            seen += 1;
            if ln != want {
                return Some(V::Viol("R5-line", format!("{mode}: the fault is at line {want}, the diagnostic names line {ln}: {e}")));
            }
            if f != expect_file {
                return Some(V::Viol("R5-file", format!("{mode}: diagnostic names file {f:?}, expected {expect_file:?}: {e}")));
            }
            None
        };
        if let Loaded::Err(e) = &strict {
            if let Some(v) = check(e, "strict") {
                return v;
            }
        }
        match &lax {
            Loaded::Err(e) => {
                if !recoverable {
                    if let Some(v) = check(e, "non-strict") {
                        return v;
                    }
                }
            }
            Loaded::Ok(_, log) => {
                if let Some(e) = log.iter().find(|e| !is_deprecation(e)) {
                    if let Some(v) = check(e, "non-strict") {
                        return v;
                    }
                }
            }
            _ => {}
        }
        if seen > 0 {
            outcome.push_str(",line-checked");
        }
    }
    V::Ok(outcome)
}

/// R5 across files: the line of a located single fault (and its neighbours) is moved into an include file; the
/// diagnostic must then name the include file and the line inside it. Only judged when the diagnostic is of the
/// same kind as for the flat text (whether an include at that place is transparent is C16's business).
pub fn lockstep_include(g: &Grammar, l: &Lock, dir: &std::path::Path, whole_element: bool) -> V {
    if !l.r5 || l.text.contains("IF_DATA") || l.text.contains("A2ML") {
        return V::Ok("include: not applicable".into());
    }
    let Ok(lexed) = vcore::reftok::lex(&l.text) else { return V::Ok("include: not applicable".into()) };
    let rej = match vcore::interp::recognise(g, &lexed) {
        Err(rej) if matches!(rej.class, Class::WrongType | Class::IdentForString | Class::BadNumber | Class::BadEnum | Class::UnknownTag | Class::BlockTooNew | Class::EnumTooNew | Class::EndTag | Class::NeedsBlock | Class::NeedsKeyword | Class::BadIdent) => rej,
        _ => return V::Ok("include: not applicable".into()),
    };
    let recoverable = matches!(rej.class, Class::IdentForString | Class::UnknownTag | Class::BlockTooNew | Class::EnumTooNew | Class::EndTag | Class::BadIdent);
    let Some(fl) = lexed.tokens.get(rej.at).map(|t| t.line) else { return V::Ok("include: not applicable".into()) };
    let lines: Vec<&str> = l.text.lines().collect();
    let n = lines.len() as u32;
    // keep the version line and the last line in the main file
    let (a, b) = if whole_element {
        match l.elem_lines {
            Some((a, b)) => (a.max(2), b.min(n.saturating_sub(1))),
            None => return V::Ok("include: not applicable".into()),
        }
    } else {
        (fl.max(2), fl.min(n.saturating_sub(1)))
    };
    if fl < a || fl > b || lexed.tokens.iter().any(|t| t.line != t.end_line) {
        return V::Ok("include: not applicable".into());
    }
    let mut main = String::new();
    let mut inc = String::new();
    for (i, line) in lines.iter().enumerate() {
        let ln = i as u32 + 1;
        if ln == a {
            main.push_str("/include inc.a2l\n");
        }
        if ln >= a && ln <= b {
            inc.push_str(line);
            inc.push('\n');
        } else {
            main.push_str(line);
            main.push('\n');
        }
    }
    let _ = std::fs::create_dir_all(dir);
    let mp = dir.join("main.a2l");
    if std::fs::write(&mp, &main).is_err() || std::fs::write(dir.join("inc.a2l"), &inc).is_err() {
        return V::Ok("include: scratch not writable".into());
    }
    let want_line = fl - a + 1;
    let flat = |strict: bool| load(&l.text, None, strict);
    let split = |strict: bool| match vcore::explore::guard(|| a2lfile::load(&mp, None, strict)) {
        Ok(Ok((f, log))) => Loaded::Ok(f, log),
        Ok(Err(e)) => Loaded::Err(e),
        Err(p) => Loaded::Panic(p),
    };
    let mut seen = 0;
    for strict in [true, false] {
        let (f, s) = (flat(strict), split(strict));
        if let Loaded::Panic(p) = &s {
            return V::Viol("panic", p.clone());
        }
        let first = |x: &Loaded| -> Option<String> {
            match x {
                Loaded::Err(e) => (strict || !recoverable).then(|| format!("{}|{}", variant_of(e), file_line(e).map(|(f, l)| format!("{f}:{l}")).unwrap_or_default())),
                Loaded::Ok(_, log) => log.iter().find(|e| !is_deprecation(e)).map(|e| format!("{}|{}", variant_of(e), file_line(e).map(|(f, l)| format!("{f}:{l}")).unwrap_or_default())),
                Loaded::Panic(_) => None,
            }
        };
        let (Some(df), Some(ds)) = (first(&f), first(&s)) else { continue };
        let (vf, lf) = df.split_once('|').unwrap();
        let (vs, ls) = ds.split_once('|').unwrap();
        if vf != vs || lf.is_empty() || ls.is_empty() {
            continue;
        }
        // the flat diagnostic must be the located one, otherwise there is nothing to transfer
        if lf.rsplit(':').next().and_then(|x| x.parse::<u32>().ok()) != Some(fl) {
            continue;
        }
        seen += 1;
        let (file, line) = ls.rsplit_once(':').unwrap();
        if !file.ends_with("inc.a2l") {
            return V::Viol("R5-file", format!("{}: the fault sits in line {want_line} of inc.a2l, the diagnostic names {ls} ({vs})", if strict { "strict" } else { "non-strict" }));
        }
        if line.parse::<u32>().ok() != Some(want_line) {
            return V::Viol("R5-line", format!("{}: the fault sits in line {want_line} of inc.a2l, the diagnostic names {ls} ({vs})", if strict { "strict" } else { "non-strict" }));
        }
    }
    V::Ok(if seen > 0 { "include: file and line checked".into() } else { "include: diagnostic kind differs from the flat text, not judged".into() })
}

/// tokens behind /end PROJECT: in the main file and in an include file (directly and nested); the diagnostic must name
/// the file and line of the first surplus token in both modes
pub fn trailing_token_cases(g: &Grammar, dir: &std::path::Path) -> Vec<(String, V)> {
    let mut out = Vec::new();
    let doc = corpus::carriers(g)[0].doc.text();
    let _ = std::fs::create_dir_all(dir);
    for (label, main_tail, files, want_file, want_line) in [
        ("surplus token in the main file", "\n\nSURPLUS 1\n".to_string(), vec![], "main.a2l", format!("{doc}\n\n").matches('\n').count() as u32 + 1),
        ("surplus token in an include file", "\n/include tail.a2l\n".to_string(), vec![("tail.a2l", "\n\nSURPLUS 1\n")], "tail.a2l", 3),
        ("surplus token in a nested include file", "\n/include t1.a2l\n".to_string(), vec![("t1.a2l", "/* c */\n/include t2.a2l\n"), ("t2.a2l", "\nSURPLUS\n")], "t2.a2l", 2),
    ] {
        let mp = dir.join("main.a2l");
        let mut ok = std::fs::write(&mp, format!("{doc}{main_tail}")).is_ok();
        for (n, c) in &files {
            ok &= std::fs::write(dir.join(n), c).is_ok();
        }
        if !ok {
            out.push((label.to_string(), V::Ok("trailing: scratch not writable".into())));
            continue;
        }
        let mut verdict = V::Ok("trailing: file and line checked".into());
        for strict in [true, false] {
            let r = vcore::explore::guard(|| a2lfile::load(&mp, None, strict));
            let diag: Option<A2lError> = match r {
                Err(p) => {
                    verdict = V::Viol("panic", p);
                    break;
                }
                Ok(Err(e)) => Some(e),
                Ok(Ok((_, log))) => log.into_iter().next(),
            };
            let Some(e) = diag else {
                verdict = V::Viol("R3-surplus-tokens-unreported", format!("{}: tokens behind /end PROJECT are not reported", if strict { "strict" } else { "non-strict" }));
                break;
            };
            match file_line(&e) {
                Some((f, l)) if f.ends_with(want_file) && l == want_line => {}
                other => {
                    verdict = V::Viol("R5-file", format!("{}: the surplus token is at {want_file}:{want_line}, the diagnostic names {other:?}: {e}", if strict { "strict" } else { "non-strict" }));
                    break;
                }
            }
        }
        out.push((label.to_string(), verdict));
    }
    out
}

/// index of the first token of the node at `path` in the token list of `doc`
pub fn node_token_range(doc: &Doc, path: &[usize]) -> Option<(usize, usize)> {
    // pre-order id of the node
    fn count(n: &Node) -> usize {
        1 + n.children.iter().map(count).sum::<usize>()
    }
    let mut id = 0usize;
    let mut cur = &doc.root;
    for (depth, p) in path.iter().enumerate() {
        // root is not numbered; its children start at 0
        if depth > 0 {
            id += 1; // enter the current node
        }
        for c in &cur.children[..*p] {
            id += count(c);
        }
        cur = &cur.children[*p];
    }
    let toks = doc.tokens();
    let first = toks.iter().position(|t| t.node == id)?;
    let last = toks.iter().rposition(|t| t.node == id)?;
    Some((first, last))
}

/// single faults whose detection token is known
fn located_faults(g: &Grammar, base: &CDoc) -> Vec<Lock> {
    let mut out = Vec::new();
    if base.path.is_empty() {
        return out;
    }
    let node = base.doc.root.at(&base.path).clone();
    let e = g.elem(&node.tag);
    if e.special != Special::None || !node.known {
        return out;
    }
    let Some((first, _)) = node_token_range(&base.doc, &base.path) else { return out };
    let tag_idx = if node.block { first + 1 } else { first };
    let mk = |label: &str, class: &str, f: &dyn Fn(&mut Node), fault_tok: usize| -> Lock {
        let mut d = base.doc.clone();
        f(d.root.at_mut(&base.path));
        let el = node_token_range(&d, &base.path).map(|(a, b)| (a as u32 + 1, b as u32 + 1));
        Lock { text: render_one_per_line(&d.tokens()), label: format!("{} + {label}", base.label), class: class.to_string(), fault_tok: Some(fault_tok), r5: true, elem_lines: el }
    };
    for (pi, p) in node.params.iter().enumerate() {
        // only fixed parameters: inside sequences the detection point is where the sequence gives up
        if !matches!(e.items.get(p.item), Some(Item::Single { .. }) | Some(Item::Array { .. })) {
            continue;
        }
        for (cls, tok) in corpus::wrong_class_tokens(&p.ty) {
            out.push(mk(&format!("param-class({},{cls})", p.field), &format!("wrong-class:{cls}"), &|n| n.params[pi].text = tok.to_string(), tag_idx + 1 + pi));
        }
    }
    out.push(mk("flip-block-form", "block-form", &|n| n.block = !n.block, if node.block { first } else { first + 1 }));
    if node.block {
        let mut d = base.doc.clone();
        d.root.at_mut(&base.path).end_tag = Some("WRONG_TAG".into());
        let (_, last) = node_token_range(&d, &base.path).unwrap();
        let (first2, _) = node_token_range(&d, &base.path).unwrap();
        out.push(Lock { text: render_one_per_line(&d.tokens()), label: format!("{} + wrong-end-tag", base.label), class: "end-tag".into(), fault_tok: Some(last), r5: true, elem_lines: Some((first2 as u32 + 1, last as u32 + 1)) });
    }
    if !e.refs.is_empty() {
        // unknown block as first child: its tag is two tokens behind the last parameter
        let at = tag_idx + node.params.len() + 2;
        out.push(mk("unknown-block", "unknown-tag", &|n| n.children.insert(0, corpus::unknown_node(true, "UNKNOWN_TAG", "")), at));
    }
    out
}

/// version faults: every gated slot / enum item in the newest version that does not have it
fn version_faults(g: &Grammar) -> Vec<Lock> {
    let mut out = Vec::new();
    for d in corpus::opt_docs(g, 1) {
        let node = d.doc.root.at(&d.path);
        let parent_tag = d.doc.root.at(&d.path[..d.path.len() - 1]).tag.clone();
        let Some(r) = g.elem(&parent_tag).refs.iter().find(|r| r.tag == node.tag) else { continue };
        let Some(vmin) = r.vmin else { continue };
        if vmin == 0 {
            continue;
        }
        let mut d2 = d.clone();
        corpus::set_version(&mut d2.doc, vmin - 1);
        // the chain itself must exist in that version
        let mut gen = Gen::new(g);
        let chain = gen.path[&node.tag].clone();
        let _ = &mut gen;
        if !corpus::chain_ok(&gen, &chain[..chain.len() - 1], vmin - 1) {
            continue;
        }
        let Some((first, _)) = node_token_range(&d2.doc, &d2.path) else { continue };
        let tag_idx = if node.block { first + 1 } else { first };
        out.push(Lock { text: render_one_per_line(&d2.doc.tokens()), label: format!("{} @v{} (too new)", d.label, vmin - 1), class: "block-too-new".into(), fault_tok: Some(tag_idx), r5: true, elem_lines: node_token_range(&d2.doc, &d2.path).map(|(a, b)| (a as u32 + 1, b as u32 + 1)) });
    }
    out
}

fn token_mutations(g: &Grammar, thorough: bool) -> Vec<Lock> {
    let mut docs = corpus::carriers(g);
    if thorough {
        docs.extend(corpus::opt_docs(g, 1));
    }
    let mut out = Vec::new();
    for d in &docs {
        let toks = d.doc.tokens();
        for ti in 0..toks.len() {
            for m in 0..3 {
                let mut t = toks.clone();
                match m {
                    0 => {
                        t.remove(ti);
                    }
                    1 => {
                        let c = t[ti].clone();
                        t.insert(ti, c);
                    }
                    _ => {
                        if ti + 1 >= t.len() {
                            continue;
                        }
                        t.swap(ti, ti + 1);
                    }
                }
                out.push(Lock {
                    text: render(&t, &std::collections::HashMap::new()),
                    label: format!("{} + {}(token {ti})", d.label, ["delete", "duplicate", "swap"][m]),
                    class: format!("token-{}", ["delete", "duplicate", "swap"][m]),
                    fault_tok: None,
                    // blind token mutations cascade; "the" detection token is not well defined
                    r5: false,
                    elem_lines: None,
                });
            }
        }
        // truncation at every token boundary
        for ti in 1..toks.len() {
            out.push(Lock { text: render(&toks[..ti], &std::collections::HashMap::new()), label: format!("{} + truncate(token {ti})", d.label), class: "truncate".into(), fault_tok: None, r5: false, elem_lines: None });
        }
    }
    out
}

pub fn build(g: &Grammar, thorough: bool) -> Vec<Lock> {
    let mut out = Vec::new();
    for c in c04::build_space(g, thorough) {
        let cls = if c.label.contains(" + ") { c.label.rsplit(" + ").next().unwrap_or("").split('(').next().unwrap_or("").to_string() } else { "valid-or-version".to_string() };
        out.push(Lock { text: c.doc.text(), label: c.label, class: cls, fault_tok: None, r5: true, elem_lines: None });
    }
    let mut base = corpus::carriers(g);
    base.extend(corpus::opt_docs(g, 1));
    for b in &base {
        out.extend(located_faults(g, b));
    }
    out.extend(version_faults(g));
    out.extend(token_mutations(g, thorough));
    // a required element is missing (detected at the token that ends the parent) / tokens behind /end PROJECT (detected at the
    // first surplus token): one token per line, the detecting token on a later line than its predecessor
    for d in corpus::missing_required(g) {
        out.push(Lock { text: render_one_per_line(&d.doc.tokens()), label: format!("{} (one token per line)", d.label), class: "missing-required".into(), fault_tok: None, r5: true, elem_lines: None });
        out.push(Lock { text: render_one_per_line(&d.doc.tokens()).replace("/end PROJECT", "\n/* c */\n\n/end PROJECT"), label: format!("{} (one token per line, comment and blank lines in front of /end PROJECT)", d.label), class: "missing-required".into(), fault_tok: None, r5: true, elem_lines: None });
    }
    {
        let base = render_one_per_line(&corpus::carriers(g)[0].doc.tokens());
        for (n, surplus) in [("number", "1"), ("string", "\"s\""), ("end", "/end"), ("identifier", "SURPLUS"), ("begin", "/begin SURPLUS"), ("float", "1.5e3"), ("end-project", "/end PROJECT")] {
            for gap in ["\n", "\n\n\n", "\n/* c */\n", " "] {
                out.push(Lock { text: format!("{}{gap}{surplus}\n", base.trim_end()), label: format!("surplus {n} behind /end PROJECT after {gap:?}"), class: format!("trailing-{n}"), fault_tok: None, r5: true, elem_lines: None });
            }
        }
    }
    // located faults behind an A2ML block whose text holds multi-line comments (the line count has to survive the raw text)
    {
        let a2ml = "/begin A2ML\n/* a\n   b\n   c */\nstruct S { uint; }; // x\n/* one\n\ntwo */\nblock \"IF_DATA\" struct S;\n\n/end A2ML\n";
        let base: Vec<(String, String, String)> = out.iter().filter(|l| l.fault_tok.is_some() && l.r5 && !l.text.contains("A2ML") && !l.text.contains("IF_DATA")).step_by(7).map(|l| (l.text.clone(), l.label.clone(), l.class.clone())).collect();
        for (ltext, llabel, lclass) in base {
            struct L {
                text: String,
                label: String,
                class: String,
            }
            let l = L { text: ltext, label: llabel, class: lclass };
            // behind the line that opens the MODULE (one token per line: the line after its long identifier)
            let Some(p) = l.text.find("MODULE") else { continue };
            let mut at = p;
            // skip the name and the long identifier lines
            for _ in 0..3 {
                at = match l.text[at..].find('\n') {
                    Some(x) => at + x + 1,
                    None => break,
                };
            }
            let mut t = l.text.clone();
            t.insert_str(at, a2ml);
            out.push(Lock { text: t, label: format!("{} behind an A2ML block with multi-line comments", l.label), class: format!("{}+a2ml-block", l.class), fault_tok: None, r5: true, elem_lines: None });
        }
    }
    // the two blocks whose content is not described by the grammar (A2ML, IF_DATA; hand-written parsers) closed by a wrong tag: at
    // module level and inside an element, alone and next to each other (no A2ML definition for the IF_DATA, so nothing is tried)
    {
        let head = "ASAP2_VERSION 1 71\n/begin PROJECT p \"\"\n/begin MODULE m \"\"\n";
        let tail = "/end MODULE\n/end PROJECT\n";
        let meas = |inner: &str| format!("/begin MEASUREMENT x \"\" UBYTE NO_COMPU_METHOD 0 0 0 255\n{inner}/end MEASUREMENT\n");
        for (n, body) in [
            ("A2ML closed by another tag", "/begin A2ML\nblock \"IF_DATA\" struct { uint; };\n/end A2M\n".to_string()),
            ("A2ML closed by the tag of its parent", "/begin A2ML\nstruct S { uint; };\n/end MODULE\n".to_string()),
            ("IF_DATA closed by another tag", "/begin IF_DATA ZZ 1\n/end IF_DAT\n".to_string()),
            ("IF_DATA with a nested block closed by another tag", "/begin IF_DATA ZZ /begin Q 1 /end Q\n/end ZZ\n".to_string()),
            ("IF_DATA inside an element closed by another tag", meas("/begin IF_DATA ZZ 1\n/end IFDATA\n")),
            ("IF_DATA inside an element closed by the tag of the element", meas("/begin IF_DATA ZZ 1\n/end MEASUREMENT\n")),
        ] {
            for extra in ["", "/begin MEASUREMENT y \"\" UBYTE NO_COMPU_METHOD 0 0 0 255\n/end MEASUREMENT\n"] {
                out.push(Lock { text: format!("{head}{body}{extra}{tail}"), label: format!("{n}{}", if extra.is_empty() { "" } else { ", an element behind it" }), class: "end-tag-raw".into(), fault_tok: None, r5: false, elem_lines: None });
            }
        }
    }
    // several A2ML blocks in one file: a valid one in the first module, damaged ones (five ways) in the second / third
    {
        let good = "/begin A2ML\nblock \"IF_DATA\" struct { uint; };\n/end A2ML\n";
        for (n, bad) in [("unclosed-brace", "block \"IF_DATA\" struct { uint;"), ("unknown-type", "block \"IF_DATA\" strukt { uint; };"), ("no-if-data", "struct S { uint; };"), ("empty", ""), ("stray-token", "block \"IF_DATA\" struct { uint; }; }")] {
            for layout in 0..6 {
                let m = |name: &str, body: &str| format!("/begin MODULE {name} \"\"\n{body}/end MODULE\n");
                // (layouts 4 and 5: the text spread over more lines, blank lines in front of the end tag)
                let badblock = if layout >= 4 { format!("/begin A2ML\n\n{}\n\n\n/end A2ML\n", bad.replace(' ', "\n")) } else { format!("/begin A2ML\n{bad}\n/end A2ML\n") };
                let mods = match layout {
                    0 => format!("{}{}", m("m1", good), m("m2", &badblock)),
                    1 => format!("{}{}{}", m("m1", good), m("m2", ""), m("m3", &badblock)),
                    2 => format!("{}{}", m("m1", &badblock), m("m2", good)),
                    3 | 4 => m("m1", &badblock),
                    _ => format!("{}{}", m("m1", good), m("m2", &format!("/begin MEASUREMENT x \"\" UBYTE NO_COMPU_METHOD 0 0 0 255\n/end MEASUREMENT\n{badblock}"))),
                };
                let text = format!("ASAP2_VERSION 1 71\n/begin PROJECT p \"\"\n{mods}/end PROJECT\n");
                // the lines of the damaged block: from its /begin to its /end (the A2ML text is one token that begins behind the tag)
                let at = text.find(&badblock).unwrap();
                let first = text[..at].matches('\n').count() as u32 + 1;
                let last = first + badblock.trim_end().matches('\n').count() as u32;
                out.push(Lock { text, label: format!("damaged A2ML block ({n}) in layout {layout} next to a valid one in another module"), class: format!("a2ml-damaged-{n}"), fault_tok: None, r5: false, elem_lines: Some((first, last)) });
            }
        }
    }
    // two problems at one token: the element under test with each enum item (current, deprecated, too new, per version) written
    // twice in its parent (the second occurrence is one too many for non-repeatable elements and ends with the enum item)
    for d in corpus::enum_docs(g).into_iter().chain(corpus::carriers(g)) {
        if d.path.len() < 2 {
            continue;
        }
        let (parent, idx) = (d.path[..d.path.len() - 1].to_vec(), d.path[d.path.len() - 1]);
        for v in 0..6 {
            let mut d2 = d.clone();
            let n = d2.doc.root.at(&d.path).clone();
            d2.doc.root.at_mut(&parent).children.insert(idx + 1, n);
            corpus::set_version(&mut d2.doc, v);
            out.push(Lock { text: d2.doc.text(), label: format!("{} twice @v{v}", d.label), class: "element-twice".into(), fault_tok: None, r5: false, elem_lines: None });
        }
    }
    // IF_DATA described by an in-file A2ML definition: the conforming instances and every deviation of the C18 space
    // (R1, R2 and - when non-strict loading is silent - R4 apply to IF_DATA as well)
    for plan in crate::c18::plans(false) {
        let (jobs, _) = crate::c18::jobs_for(&plan, thorough);
        for j in jobs.into_iter().filter(|j| j.mode == 0) {
            let payload = vcore::a2mlref::render_payload(&j.payload);
            out.push(Lock { text: vcore::ifdoc::doc_text(Some(&j.def_text), &[payload]), label: format!("IF_DATA under [{}]: {}", j.def_text.replace('\n', " "), j.kind), class: format!("ifdata-a2ml-{}", j.kind), fault_tok: None, r5: false, elem_lines: None });
        }
    }
    if thorough {
        // two faults: every pair of single deviations of the element under test, on all carriers
        for b in corpus::carriers(g) {
            let devs = corpus::deviations(g, &b);
            for d1 in &devs {
                for d2 in corpus::deviations(g, d1) {
                    out.push(Lock { text: d2.doc.text(), label: d2.label.clone(), class: "two-faults".into(), fault_tok: None, r5: false, elem_lines: None });
                }
            }
        }
    }
    out
}

pub fn run(tier: &str) -> Run {
    let mut run = Run::new("C06", tier);
    let g = corpus::grammar();
    let thorough = crate::util::wide(tier);
    let cases = build(&g, thorough);
    let scratch = {
        let base = if std::path::Path::new("/dev/shm").is_dir() { "/dev/shm".to_string() } else { std::env::temp_dir().to_string_lossy().into_owned() };
        let d = std::path::PathBuf::from(base).join(format!("verif-c06-{}", std::process::id()));
        let _ = std::fs::create_dir_all(&d);
        d
    };
    let res = par_map(
        cases.len(),
        &|i| {
            let v = lockstep(&g, &cases[i], None);
            // every 7th located fault also through load(file): the diagnostic must name the path
            let v2 = if cases[i].fault_tok.is_some() && i % 7 == 0 {
                use std::hash::{Hash, Hasher};
                let mut h = std::collections::hash_map::DefaultHasher::new();
                std::thread::current().id().hash(&mut h);
                let p = scratch.join(format!("t{}.a2l", h.finish() % 4096));
                Some(lockstep(&g, &cases[i], Some(&p)))
            } else {
                None
            };
            // every 5th (thorough: every) located fault also with its line, and with its line and both neighbours, in an include file
            let mut v3 = Vec::new();
            if cases[i].fault_tok.is_some() && (thorough || i % 5 == 0) {
                use std::hash::{Hash, Hasher};
                let mut h = std::collections::hash_map::DefaultHasher::new();
                std::thread::current().id().hash(&mut h);
                let d = scratch.join(format!("inc{}", h.finish() % 4096));
                v3.push(lockstep_include(&g, &cases[i], &d, false));
                v3.push(lockstep_include(&g, &cases[i], &d, true));
            }
            (fnv1a(cases[i].text.as_bytes()), v, v2, v3)
        },
        &|i| {
            println!("MACHINERY-ERROR: C06 case hangs: {}", cases[i].label);
            std::process::exit(2);
        },
    );
    for (label, v) in trailing_token_cases(&g, &scratch.join("trailing")) {
        run.evaluations += 1;
        run.transitions += 2;
        match v {
            V::Ok(o) => run.outcome(&o),
            V::Viol(o, w) => {
                let key = if o == "panic" { format!("C06/panic {}", vcore::explore::panic_key(&w)) } else { format!("C06/{o}/trailing:{label}") };
                run.violation(key, format!("{label}: {w}"), json!({"trailing": label}));
            }
        }
    }
    let _ = std::fs::remove_dir_all(&scratch);
    for (i, (h, v, v2, v3)) in res.into_iter().enumerate() {
        for (k, v) in v3.into_iter().enumerate() {
            run.evaluations += 1;
            run.transitions += 4;
            match v {
                V::Ok(o) => run.outcome(&o),
                V::Viol(o, w) => {
                    // k == 0: only the line of the faulty token is in the include file, its element begins in the main file
                    let key = if o == "panic" {
                        format!("C06/panic {}", vcore::explore::panic_key(&w))
                    } else if k == 0 && o == "R5-file" {
                        "C06/R5-file/include-inside-an-element-of-another-file".to_string()
                    } else {
                        format!("C06/{o}/include-{}:{}", if k == 0 { "token" } else { "element" }, cases[i].class)
                    };
                    run.violation(key, format!("{} ({} in an include file): {w}", cases[i].label, if k == 0 { "the faulty token alone" } else { "the whole element" }), json!({"text": cases[i].text, "label": cases[i].label, "class": cases[i].class, "fault_tok": cases[i].fault_tok, "r5": cases[i].r5, "elem_lines": cases[i].elem_lines.map(|(a, b)| vec![a, b]), "include_whole_element": k == 1}));
                }
            }
        }
        for (vi, v) in [Some(v), v2].into_iter().flatten().enumerate() {
            run.evaluations += 1;
            run.transitions += 2;
            match v {
                V::Ok(o) => {
                    if run.states.insert(h) && o != "both-ok" {
                        run.nontrivial.insert(h);
                    }
                    run.outcome(&format!("{}{}", o, if vi == 1 { " (file)" } else { "" }));
                }
                V::Viol(o, w) => {
                    run.states.insert(h);
                    let key = if o == "panic" { format!("C06/panic {}", vcore::explore::panic_key(&w)) } else { format!("C06/{o}/{}", cases[i].class) };
                    run.violation(key, format!("{}: {w}", cases[i].label), json!({"text": cases[i].text, "label": cases[i].label, "class": cases[i].class, "fault_tok": cases[i].fault_tok, "r5": cases[i].r5, "via_file": vi == 1}));
                }
            }
        }
        if i % 50021 == 5 {
            run.sample(json!({"label": cases[i].label, "text": short(&cases[i].text, 300)}));
        }
    }
    run.require("both-ok", 1000);
    run.require("both-err", 1000);
    run.require("strict-err,lax-ok", 1000);
    run.require("strict-err,lax-ok,line-checked", 300);
    run.require("both-err,line-checked", 300);
    run.require("include: file and line checked", 200);
    run.require("trailing: file and line checked", 3);
    run.rule = "lockstep of strict and non-strict load on: the C04 space (valid documents x 6 versions, single deviations), located single faults rendered one token per line (wrong lexical class at every fixed parameter, bad enum item, malformed number, block form, wrong end tag, unknown block, element newer than the file version, required element missing, surplus number / string / /end / identifier / /begin behind /end PROJECT after four kinds of gap), every token deletion/duplication/swap and truncation of every carrier; thorough adds all pairs of deviations; IF_DATA under an in-file A2ML definition: every conforming instance and every deviation of the C18 space for definitions of depth <= 3 (R1, R2, R4 when non-strict loading is silent). Relations R1..R5 of DESIGN.md; every 7th located fault also through load(file) to check the file name; every 5th (thorough: every) located fault with (a) the whole element under test and (b) only the line of the faulty token moved to an include file: the diagnostic must name that file and the line inside it; surplus tokens behind /end PROJECT in the main file, an include file and a nested include file. distinct = distinct text; non-trivial = at least one mode reports something".into();
    run
}

pub fn replay(v: &Value) -> Result<String, String> {
    let l = Lock {
        text: v["text"].as_str().ok_or("no text")?.to_string(),
        label: v["label"].as_str().unwrap_or("").into(),
        class: v["class"].as_str().unwrap_or("").into(),
        fault_tok: v["fault_tok"].as_u64().map(|x| x as usize),
        r5: v["r5"].as_bool().unwrap_or(true),
        elem_lines: v["elem_lines"].as_array().and_then(|a| Some((a.first()?.as_u64()? as u32, a.get(1)?.as_u64()? as u32))),
    };
    let g = corpus::grammar();
    let p = std::env::temp_dir().join(format!("verif-c06-replay-{}.a2l", std::process::id()));
    if let Some(label) = v["trailing"].as_str() {
        let d = std::env::temp_dir().join(format!("verif-c06-replay-{}", std::process::id()));
        let r = trailing_token_cases(&g, &d).into_iter().find(|(l, _)| l == label);
        let _ = std::fs::remove_dir_all(&d);
        return match r {
            Some((_, V::Viol(o, w))) => Err(format!("{o}: {w}")),
            Some((_, V::Ok(o))) => Ok(o),
            None => Err("unknown trailing case".into()),
        };
    }
    let r = if let Some(k) = v["include_whole_element"].as_bool() {
        let d = std::env::temp_dir().join(format!("verif-c06-replay-{}", std::process::id()));
        let r = lockstep_include(&g, &l, &d, k);
        let _ = std::fs::remove_dir_all(&d);
        r
    } else if v["via_file"].as_bool().unwrap_or(false) {
        lockstep(&g, &l, Some(&p))
    } else {
        lockstep(&g, &l, None)
    };
    let _ = std::fs::remove_file(&p);
    match r {
        V::Ok(o) => Ok(o),
        V::Viol(o, w) => Err(format!("{o}: {w}")),
    }
}
