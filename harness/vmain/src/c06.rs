//! C06 — strict and non-strict loading agree except on recoverable problems (lockstep).

use crate::c04;
use crate::corpus::{self, CDoc};
use crate::util::*;
use a2lfile::A2lError;
use serde_json::{json, Value};
use vcore::docgen::*;
use vcore::explore::{fnv1a, par_map};
use vcore::grammar::*;
use vcore::interp::Class;
use vcore::report::Run;

fn is_deprecation(e: &A2lError) -> bool {
    let v = variant_of(e);
    v.ends_with("BlockRefDeprecated") || v.ends_with("EnumRefDeprecated")
}

/// (filename, line) from the Display text "<kind> error: <file>:<line>: ..."
fn file_line(e: &A2lError) -> Option<(String, u32)> {
    let s = format!("{e}");
    let rest = s.split_once(" error: ")?.1;
    // filename may contain ':' only in exotic paths; the line is the number before the second ':' from the left after the name
    let mut parts = rest.splitn(3, ':');
    let file = parts.next()?.to_string();
    let line = parts.next()?.trim().parse().ok()?;
    Some((file, line))
}

pub struct Lock {
    pub text: String,
    pub label: String,
    pub class: String,
    /// the generator's idea of the token at which the fault sits (informational)
    pub fault_tok: Option<usize>,
    /// check R5 (file and line of the diagnostic) on this case
    pub r5: bool,
}

pub enum V {
    Ok(String),
    Viol(&'static str, String),
}

pub fn lockstep(g: &Grammar, l: &Lock, via_file: Option<&std::path::Path>) -> V {
    let (strict, lax) = match via_file {
        None => (load(&l.text, None, true), load(&l.text, None, false)),
        Some(p) => {
            if std::fs::write(p, &l.text).is_err() {
                return V::Ok("scratch file not writable".into());
            }
            let f = |strict: bool| match vcore::explore::guard(|| a2lfile::load(p, None, strict)) {
                Ok(Ok((f, log))) => Loaded::Ok(f, log),
                Ok(Err(e)) => Loaded::Err(e),
                Err(p) => Loaded::Panic(p),
            };
            (f(true), f(false))
        }
    };
    if let Loaded::Panic(p) = &strict {
        return V::Viol("panic", p.clone());
    }
    if let Loaded::Panic(p) = &lax {
        return V::Viol("panic", p.clone());
    }
    let has_ifdata = l.text.contains("IF_DATA");
    let expect_file = via_file.map(|p| p.to_string_lossy().into_owned()).unwrap_or_default();
    let mut outcome = String::new();
    match (&strict, &lax) {
        (Loaded::Ok(fs, logs), Loaded::Ok(fl, logl)) => {
            outcome.push_str("both-ok");
            // R2 / R4
            if !has_ifdata || logl.is_empty() {
                if fs != fl {
                    return V::Viol("R4-models-differ", "both modes succeed but the models differ".into());
                }
            }
            if logl.is_empty() && !logs.is_empty() {
                return V::Viol("R2-strict-warns", format!("non-strict has no warnings, strict has: {}", logs[0]));
            }
            if !has_ifdata {
                // R3: strict Ok => non-strict has nothing but deprecation notices
                if let Some(e) = logl.iter().find(|e| !is_deprecation(e)) {
                    return V::Viol("R3-strict-accepts-what-lax-reports", format!("strict succeeds although non-strict reports: {e}"));
                }
                if logs.len() != logl.len() {
                    return V::Viol("R3-deprecation-count", format!("{} notices in strict mode, {} in non-strict mode", logs.len(), logl.len()));
                }
            }
            if !logl.is_empty() {
                outcome.push_str("+notices");
            }
        }
        (Loaded::Ok(..), Loaded::Err(e)) => {
            return V::Viol("R1-lax-fails", format!("strict loading succeeds, non-strict loading fails: {e}"));
        }
        (Loaded::Err(es), Loaded::Ok(_, logl)) => {
            outcome.push_str("strict-err,lax-ok");
            if logl.is_empty() {
                return V::Viol("R2-strict-fails", format!("non-strict succeeds without warnings, strict fails: {es}"));
            }
            if !has_ifdata && logl.iter().all(is_deprecation) {
                return V::Viol("R3-strict-rejects-clean", format!("strict fails ({es}) although non-strict reports nothing but deprecation notices"));
            }
        }
        (Loaded::Err(_), Loaded::Err(_)) => outcome.push_str("both-err"),
        _ => unreachable!(),
    }
    // R5: file and line of the diagnostic. The detection token is the one at which the reference
    // interpreter rejects the document, for the classes with a well-defined detection token.
    let mut recoverable = false;
    let located = match vcore::reftok::lex(&l.text) {
        Ok(lexed) => match vcore::interp::recognise(g, &lexed) {
            // (the reference interpreter does not look inside A2ML / IF_DATA)
            Err(rej) if l.r5 && !has_ifdata && !l.text.contains("A2ML") && matches!(rej.class, Class::WrongType | Class::IdentForString | Class::BadNumber | Class::BadEnum | Class::UnknownTag | Class::BlockTooNew | Class::EnumTooNew | Class::EndTag | Class::NeedsBlock | Class::NeedsKeyword | Class::BadIdent) => {
                // after a recoverable problem the non-strict parser goes on; if it fails later, the
                // warning is not observable (the log is only returned on success)
                recoverable = matches!(rej.class, Class::IdentForString | Class::UnknownTag | Class::BlockTooNew | Class::EnumTooNew | Class::EndTag | Class::BadIdent);
                lexed.tokens.get(rej.at).map(|t| t.line)
            }
            _ => None,
        },
        Err(_) => None,
    };
    if let Some(want) = located {
        let mut seen = 0;
        let mut check = |e: &A2lError, mode: &str| -> Option<V> {
            let (f, ln) = file_line(e)?;
            seen += 1;
            if ln != want {
                return Some(V::Viol("R5-line", format!("{mode}: the fault is at line {want}, the diagnostic names line {ln}: {e}")));
            }
            if f != expect_file {
                return Some(V::Viol("R5-file", format!("{mode}: diagnostic names file {f:?}, expected {expect_file:?}: {e}")));
            }
            None
        };
        if let Loaded::Err(e) = &strict {
            if let Some(v) = check(e, "strict") {
                return v;
            }
        }
        match &lax {
            Loaded::Err(e) => {
                if !recoverable {
                    if let Some(v) = check(e, "non-strict") {
                        return v;
                    }
                }
            }
            Loaded::Ok(_, log) => {
                if let Some(e) = log.iter().find(|e| !is_deprecation(e)) {
                    if let Some(v) = check(e, "non-strict") {
                        return v;
                    }
                }
            }
            _ => {}
        }
        if seen > 0 {
            outcome.push_str(",line-checked");
        }
    }
    V::Ok(outcome)
}

/// index of the first token of the node at `path` in the token list of `doc`
pub fn node_token_range(doc: &Doc, path: &[usize]) -> Option<(usize, usize)> {
    // pre-order id of the node
    fn count(n: &Node) -> usize {
        1 + n.children.iter().map(count).sum::<usize>()
    }
    let mut id = 0usize;
    let mut cur = &doc.root;
    for (depth, p) in path.iter().enumerate() {
        // root is not numbered; its children start at 0
        if depth > 0 {
            id += 1; // enter the current node
        }
        for c in &cur.children[..*p] {
            id += count(c);
        }
        cur = &cur.children[*p];
    }
    let toks = doc.tokens();
    let first = toks.iter().position(|t| t.node == id)?;
    let last = toks.iter().rposition(|t| t.node == id)?;
    Some((first, last))
}

/// single faults whose detection token is known
fn located_faults(g: &Grammar, base: &CDoc) -> Vec<Lock> {
    let mut out = Vec::new();
    if base.path.is_empty() {
        return out;
    }
    let node = base.doc.root.at(&base.path).clone();
    let e = g.elem(&node.tag);
    if e.special != Special::None || !node.known {
        return out;
    }
    let Some((first, _)) = node_token_range(&base.doc, &base.path) else { return out };
    let tag_idx = if node.block { first + 1 } else { first };
    let mk = |label: &str, class: &str, f: &dyn Fn(&mut Node), fault_tok: usize| -> Lock {
        let mut d = base.doc.clone();
        f(d.root.at_mut(&base.path));
        Lock { text: render_one_per_line(&d.tokens()), label: format!("{} + {label}", base.label), class: class.to_string(), fault_tok: Some(fault_tok), r5: true }
    };
    for (pi, p) in node.params.iter().enumerate() {
        // only fixed parameters: inside sequences the detection point is where the sequence gives up
        if !matches!(e.items.get(p.item), Some(Item::Single { .. }) | Some(Item::Array { .. })) {
            continue;
        }
        for (cls, tok) in corpus::wrong_class_tokens(&p.ty) {
            out.push(mk(&format!("param-class({},{cls})", p.field), &format!("wrong-class:{cls}"), &|n| n.params[pi].text = tok.to_string(), tag_idx + 1 + pi));
        }
    }
    out.push(mk("flip-block-form", "block-form", &|n| n.block = !n.block, if node.block { first } else { first + 1 }));
    if node.block {
        let mut d = base.doc.clone();
        d.root.at_mut(&base.path).end_tag = Some("WRONG_TAG".into());
        let (_, last) = node_token_range(&d, &base.path).unwrap();
        out.push(Lock { text: render_one_per_line(&d.tokens()), label: format!("{} + wrong-end-tag", base.label), class: "end-tag".into(), fault_tok: Some(last), r5: true });
    }
    if !e.refs.is_empty() {
        // unknown block as first child: its tag is two tokens behind the last parameter
        let at = tag_idx + node.params.len() + 2;
        out.push(mk("unknown-block", "unknown-tag", &|n| n.children.insert(0, corpus::unknown_node(true, "UNKNOWN_TAG", "")), at));
    }
    out
}

/// version faults: every gated slot / enum item in the newest version that does not have it
fn version_faults(g: &Grammar) -> Vec<Lock> {
    let mut out = Vec::new();
    for d in corpus::opt_docs(g, 1) {
        let node = d.doc.root.at(&d.path);
        let parent_tag = d.doc.root.at(&d.path[..d.path.len() - 1]).tag.clone();
        let Some(r) = g.elem(&parent_tag).refs.iter().find(|r| r.tag == node.tag) else { continue };
        let Some(vmin) = r.vmin else { continue };
        if vmin == 0 {
            continue;
        }
        let mut d2 = d.clone();
        corpus::set_version(&mut d2.doc, vmin - 1);
        // the chain itself must exist in that version
        let mut gen = Gen::new(g);
        let chain = gen.path[&node.tag].clone();
        let _ = &mut gen;
        if !corpus::chain_ok(&gen, &chain[..chain.len() - 1], vmin - 1) {
            continue;
        }
        let Some((first, _)) = node_token_range(&d2.doc, &d2.path) else { continue };
        let tag_idx = if node.block { first + 1 } else { first };
        out.push(Lock { text: render_one_per_line(&d2.doc.tokens()), label: format!("{} @v{} (too new)", d.label, vmin - 1), class: "block-too-new".into(), fault_tok: Some(tag_idx), r5: true });
    }
    out
}

fn token_mutations(g: &Grammar, thorough: bool) -> Vec<Lock> {
    let mut docs = corpus::carriers(g);
    if thorough {
        docs.extend(corpus::opt_docs(g, 1));
    }
    let mut out = Vec::new();
    for d in &docs {
        let toks = d.doc.tokens();
        for ti in 0..toks.len() {
            for m in 0..3 {
                let mut t = toks.clone();
                match m {
                    0 => {
                        t.remove(ti);
                    }
                    1 => {
                        let c = t[ti].clone();
                        t.insert(ti, c);
                    }
                    _ => {
                        if ti + 1 >= t.len() {
                            continue;
                        }
                        t.swap(ti, ti + 1);
                    }
                }
                out.push(Lock {
                    text: render(&t, &std::collections::HashMap::new()),
                    label: format!("{} + {}(token {ti})", d.label, ["delete", "duplicate", "swap"][m]),
                    class: format!("token-{}", ["delete", "duplicate", "swap"][m]),
                    fault_tok: None,
                    // blind token mutations cascade; "the" detection token is not well defined
                    r5: false,
                });
            }
        }
        // truncation at every token boundary
        for ti in 1..toks.len() {
            out.push(Lock { text: render(&toks[..ti], &std::collections::HashMap::new()), label: format!("{} + truncate(token {ti})", d.label), class: "truncate".into(), fault_tok: None, r5: false });
        }
    }
    out
}

pub fn build(g: &Grammar, thorough: bool) -> Vec<Lock> {
    let mut out = Vec::new();
    for c in c04::build_space(g, thorough) {
        let cls = if c.label.contains(" + ") { c.label.rsplit(" + ").next().unwrap_or("").split('(').next().unwrap_or("").to_string() } else { "valid-or-version".to_string() };
        out.push(Lock { text: c.doc.text(), label: c.label, class: cls, fault_tok: None, r5: true });
    }
    let mut base = corpus::carriers(g);
    base.extend(corpus::opt_docs(g, 1));
    for b in &base {
        out.extend(located_faults(g, b));
    }
    out.extend(version_faults(g));
    out.extend(token_mutations(g, thorough));
    if thorough {
        // two faults: every pair of single deviations of the element under test, on all carriers
        for b in corpus::carriers(g) {
            let devs = corpus::deviations(g, &b);
            for d1 in &devs {
                for d2 in corpus::deviations(g, d1) {
                    out.push(Lock { text: d2.doc.text(), label: d2.label.clone(), class: "two-faults".into(), fault_tok: None, r5: false });
                }
            }
        }
    }
    out
}

pub fn run(tier: &str) -> Run {
    let mut run = Run::new("C06", tier);
    let g = corpus::grammar();
    let cases = build(&g, tier == "thorough");
    let scratch = {
        let base = if std::path::Path::new("/dev/shm").is_dir() { "/dev/shm".to_string() } else { std::env::temp_dir().to_string_lossy().into_owned() };
        let d = std::path::PathBuf::from(base).join(format!("verif-c06-{}", std::process::id()));
        let _ = std::fs::create_dir_all(&d);
        d
    };
    let res = par_map(
        cases.len(),
        &|i| {
            let v = lockstep(&g, &cases[i], None);
            // every 7th located fault also through load(file): the diagnostic must name the path
            let v2 = if cases[i].fault_tok.is_some() && i % 7 == 0 {
                use std::hash::{Hash, Hasher};
                let mut h = std::collections::hash_map::DefaultHasher::new();
                std::thread::current().id().hash(&mut h);
                let p = scratch.join(format!("t{}.a2l", h.finish() % 4096));
                Some(lockstep(&g, &cases[i], Some(&p)))
            } else {
                None
            };
            (fnv1a(cases[i].text.as_bytes()), v, v2)
        },
        &|i| {
            println!("MACHINERY-ERROR: C06 case hangs: {}", cases[i].label);
            std::process::exit(2);
        },
    );
    let _ = std::fs::remove_dir_all(&scratch);
    for (i, (h, v, v2)) in res.into_iter().enumerate() {
        for (vi, v) in [Some(v), v2].into_iter().flatten().enumerate() {
            run.evaluations += 1;
            run.transitions += 2;
            match v {
                V::Ok(o) => {
                    if run.states.insert(h) && o != "both-ok" {
                        run.nontrivial.insert(h);
                    }
                    run.outcome(&format!("{}{}", o, if vi == 1 { " (file)" } else { "" }));
                }
                V::Viol(o, w) => {
                    run.states.insert(h);
                    let key = if o == "panic" { format!("C06/panic {}", vcore::explore::panic_key(&w)) } else { format!("C06/{o}/{}", cases[i].class) };
                    run.violation(key, format!("{}: {w}", cases[i].label), json!({"text": cases[i].text, "label": cases[i].label, "class": cases[i].class, "fault_tok": cases[i].fault_tok, "r5": cases[i].r5, "via_file": vi == 1}));
                }
            }
        }
        if i % 50021 == 5 {
            run.sample(json!({"label": cases[i].label, "text": short(&cases[i].text, 300)}));
        }
    }
    run.require("both-ok", 1000);
    run.require("both-err", 1000);
    run.require("strict-err,lax-ok", 1000);
    run.require("strict-err,lax-ok,line-checked", 300);
    run.require("both-err,line-checked", 300);
    run.rule = "lockstep of strict and non-strict load on: the C04 space (valid documents x 6 versions, single deviations), located single faults rendered one token per line (wrong lexical class at every fixed parameter, bad enum item, malformed number, block form, wrong end tag, unknown block, element newer than the file version), every token deletion/duplication/swap and truncation of every carrier; thorough adds all pairs of deviations. Relations R1..R5 of DESIGN.md; every 7th located fault also through load(file) to check the file name. distinct = distinct text; non-trivial = at least one mode reports something".into();
    run
}

pub fn replay(v: &Value) -> Result<String, String> {
    let l = Lock {
        text: v["text"].as_str().ok_or("no text")?.to_string(),
        label: v["label"].as_str().unwrap_or("").into(),
        class: v["class"].as_str().unwrap_or("").into(),
        fault_tok: v["fault_tok"].as_u64().map(|x| x as usize),
        r5: v["r5"].as_bool().unwrap_or(true),
    };
    let g = corpus::grammar();
    let p = std::env::temp_dir().join(format!("verif-c06-replay-{}.a2l", std::process::id()));
    let r = if v["via_file"].as_bool().unwrap_or(false) { lockstep(&g, &l, Some(&p)) } else { lockstep(&g, &l, None) };
    let _ = std::fs::remove_file(&p);
    match r {
        V::Ok(o) => Ok(o),
        V::Viol(o, w) => Err(format!("{o}: {w}")),
    }
}
