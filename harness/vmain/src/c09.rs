//! C09 — merge preserves the reference structure of B: every reference position of the grammar x
//! overlap pattern of the target x kind of the target x novelty of the referrer.

use crate::c08::merge_and_check;
use crate::mergecheck::MV;
use crate::modgen::*;
use serde_json::{json, Value};
use vcore::explore::{fnv1a, par_map};
use vcore::grammar::Grammar;
use vcore::refsites::Ns;
use vcore::report::Run;

pub struct Case9 {
    pub label: String,
    pub site: String,
    pub ta: String,
    pub tb: String,
}

pub fn kinds_of(ns: Ns) -> Vec<&'static str> {
    match ns {
        Ns::Obj => vec!["AXIS_PTS", "BLOB", "CHARACTERISTIC", "INSTANCE", "MEASUREMENT"],
        Ns::Tab => vec!["COMPU_TAB", "COMPU_VTAB", "COMPU_VTAB_RANGE"],
        Ns::Typedef => vec!["TYPEDEF_AXIS", "TYPEDEF_BLOB", "TYPEDEF_CHARACTERISTIC", "TYPEDEF_MEASUREMENT", "TYPEDEF_STRUCTURE"],
        Ns::CompuMethod => vec!["COMPU_METHOD"],
        Ns::Unit => vec!["UNIT"],
        Ns::RecordLayout => vec!["RECORD_LAYOUT"],
        Ns::Function => vec!["FUNCTION"],
        Ns::Group => vec!["GROUP"],
        Ns::Transformer => vec!["TRANSFORMER"],
        Ns::MemSeg => vec!["MEMORY_SEGMENT"],
        Ns::Frame => vec!["FRAME"],
        Ns::UserRights => vec![],
    }
}

/// every reference position: (label, namespace of the target, referrer element that points at `t`)
pub fn referrers(t: &str) -> Vec<(&'static str, Ns, ESpec)> {
    let ad = |f: &str| k("AXIS_DESCR").with_set(f, t);
    let adk = |kid: KSpec| k("AXIS_DESCR").with(kid);
    vec![
        ("AXIS_PTS.conversion", Ns::CompuMethod, e("AXIS_PTS", "R", "c1").set("conversion", t)),
        ("AXIS_PTS.deposit_record", Ns::RecordLayout, e("AXIS_PTS", "R", "c1").set("deposit_record", t)),
        ("AXIS_PTS.input_quantity", Ns::Obj, e("AXIS_PTS", "R", "c1").set("input_quantity", t)),
        ("CHARACTERISTIC.conversion", Ns::CompuMethod, e("CHARACTERISTIC", "R", "c1").set("conversion", t)),
        ("CHARACTERISTIC.deposit", Ns::RecordLayout, e("CHARACTERISTIC", "R", "c1").set("deposit", t)),
        ("CHARACTERISTIC.AXIS_DESCR.conversion", Ns::CompuMethod, e("CHARACTERISTIC", "R", "c1").kid(ad("conversion"))),
        ("CHARACTERISTIC.AXIS_DESCR.input_quantity", Ns::Obj, e("CHARACTERISTIC", "R", "c1").kid(ad("input_quantity"))),
        ("CHARACTERISTIC.AXIS_DESCR.AXIS_PTS_REF", Ns::Obj, e("CHARACTERISTIC", "R", "c1").kid(adk(ks("AXIS_PTS_REF", &[("axis_points", t)])))),
        ("CHARACTERISTIC.AXIS_DESCR.CURVE_AXIS_REF", Ns::Obj, e("CHARACTERISTIC", "R", "c1").kid(adk(ks("CURVE_AXIS_REF", &[("curve_axis", t)])))),
        ("CHARACTERISTIC.COMPARISON_QUANTITY", Ns::Obj, e("CHARACTERISTIC", "R", "c1").kid(ks("COMPARISON_QUANTITY", &[("name", t)]))),
        ("CHARACTERISTIC.DEPENDENT_CHARACTERISTIC", Ns::Obj, e("CHARACTERISTIC", "R", "c1").kid(kl("DEPENDENT_CHARACTERISTIC", &["Q0", t]))),
        ("CHARACTERISTIC.VIRTUAL_CHARACTERISTIC", Ns::Obj, e("CHARACTERISTIC", "R", "c1").kid(kl("VIRTUAL_CHARACTERISTIC", &[t, "Q0"]))),
        ("CHARACTERISTIC.MAP_LIST", Ns::Obj, e("CHARACTERISTIC", "R", "c1").kid(kl("MAP_LIST", &[t]))),
        ("CHARACTERISTIC.FUNCTION_LIST", Ns::Function, e("CHARACTERISTIC", "R", "c1").kid(kl("FUNCTION_LIST", &[t]))),
        ("CHARACTERISTIC.REF_MEMORY_SEGMENT", Ns::MemSeg, e("CHARACTERISTIC", "R", "c1").kid(ks("REF_MEMORY_SEGMENT", &[("name", t)]))),
        ("MEASUREMENT.conversion", Ns::CompuMethod, e("MEASUREMENT", "R", "c1").set("conversion", t)),
        ("MEASUREMENT.VIRTUAL", Ns::Obj, e("MEASUREMENT", "R", "c1").kid(kl("VIRTUAL", &[t]))),
        ("MEASUREMENT.FUNCTION_LIST", Ns::Function, e("MEASUREMENT", "R", "c1").kid(kl("FUNCTION_LIST", &[t]))),
        ("MEASUREMENT.REF_MEMORY_SEGMENT", Ns::MemSeg, e("MEASUREMENT", "R", "c1").kid(ks("REF_MEMORY_SEGMENT", &[("name", t)]))),
        ("AXIS_PTS.REF_MEMORY_SEGMENT", Ns::MemSeg, e("AXIS_PTS", "R", "c1").kid(ks("REF_MEMORY_SEGMENT", &[("name", t)]))),
        ("AXIS_PTS.FUNCTION_LIST", Ns::Function, e("AXIS_PTS", "R", "c1").kid(kl("FUNCTION_LIST", &[t]))),
        ("TYPEDEF_AXIS.conversion", Ns::CompuMethod, e("TYPEDEF_AXIS", "R", "c1").set("conversion", t)),
        ("TYPEDEF_AXIS.record_layout", Ns::RecordLayout, e("TYPEDEF_AXIS", "R", "c1").set("record_layout", t)),
        ("TYPEDEF_AXIS.input_quantity", Ns::Obj, e("TYPEDEF_AXIS", "R", "c1").set("input_quantity", t)),
        ("TYPEDEF_CHARACTERISTIC.conversion", Ns::CompuMethod, e("TYPEDEF_CHARACTERISTIC", "R", "c1").set("conversion", t)),
        ("TYPEDEF_CHARACTERISTIC.record_layout", Ns::RecordLayout, e("TYPEDEF_CHARACTERISTIC", "R", "c1").set("record_layout", t)),
        ("TYPEDEF_CHARACTERISTIC.AXIS_DESCR.conversion", Ns::CompuMethod, e("TYPEDEF_CHARACTERISTIC", "R", "c1").kid(ad("conversion"))),
        ("TYPEDEF_CHARACTERISTIC.AXIS_DESCR.input_quantity", Ns::Obj, e("TYPEDEF_CHARACTERISTIC", "R", "c1").kid(ad("input_quantity"))),
        ("TYPEDEF_CHARACTERISTIC.AXIS_DESCR.AXIS_PTS_REF", Ns::Obj, e("TYPEDEF_CHARACTERISTIC", "R", "c1").kid(adk(ks("AXIS_PTS_REF", &[("axis_points", t)])))),
        ("TYPEDEF_CHARACTERISTIC.AXIS_DESCR.CURVE_AXIS_REF", Ns::Obj, e("TYPEDEF_CHARACTERISTIC", "R", "c1").kid(adk(ks("CURVE_AXIS_REF", &[("curve_axis", t)])))),
        ("TYPEDEF_MEASUREMENT.conversion", Ns::CompuMethod, e("TYPEDEF_MEASUREMENT", "R", "c1").set("conversion", t)),
        ("INSTANCE.type_ref", Ns::Typedef, e("INSTANCE", "R", "c1").set("type_ref", t)),
        ("INSTANCE.OVERWRITE.CONVERSION", Ns::CompuMethod, e("INSTANCE", "R", "c1").kid(k("OVERWRITE").with(ks("CONVERSION", &[("name", t)])))),
        ("INSTANCE.OVERWRITE.INPUT_QUANTITY", Ns::Obj, e("INSTANCE", "R", "c1").kid(k("OVERWRITE").with(ks("INPUT_QUANTITY", &[("name", t)])))),
        ("TYPEDEF_STRUCTURE.STRUCTURE_COMPONENT", Ns::Typedef, e("TYPEDEF_STRUCTURE", "R", "c1").kid(ks("STRUCTURE_COMPONENT", &[("component_type", t)]))),
        ("MOD_COMMON.S_REC_LAYOUT", Ns::RecordLayout, e("MOD_COMMON", "", "c1").kid(ks("S_REC_LAYOUT", &[("name", t)]))),
        ("COMPU_METHOD.COMPU_TAB_REF", Ns::Tab, e("COMPU_METHOD", "R", "c1").kid(ks("COMPU_TAB_REF", &[("conversion_table", t)]))),
        ("COMPU_METHOD.STATUS_STRING_REF", Ns::Tab, e("COMPU_METHOD", "R", "c1").kid(ks("STATUS_STRING_REF", &[("conversion_table", t)]))),
        ("COMPU_METHOD.COMPU_TAB_REF+STATUS_STRING_REF", Ns::Tab, e("COMPU_METHOD", "R", "c1").kid(ks("COMPU_TAB_REF", &[("conversion_table", t)])).kid(ks("STATUS_STRING_REF", &[("conversion_table", t)]))),
        ("COMPU_METHOD.REF_UNIT", Ns::Unit, e("COMPU_METHOD", "R", "c1").kid(ks("REF_UNIT", &[("unit", t)]))),
        ("UNIT.REF_UNIT", Ns::Unit, e("UNIT", "R", "c1").kid(ks("REF_UNIT", &[("unit", t)]))),
        ("FRAME.FRAME_MEASUREMENT", Ns::Obj, e("FRAME", "R", "c1").kid(kl("FRAME_MEASUREMENT", &[t]))),
        ("FUNCTION.IN_MEASUREMENT", Ns::Obj, e("FUNCTION", "R", "c1").kid(kl("IN_MEASUREMENT", &[t]))),
        ("FUNCTION.LOC_MEASUREMENT", Ns::Obj, e("FUNCTION", "R", "c1").kid(kl("LOC_MEASUREMENT", &[t]))),
        ("FUNCTION.OUT_MEASUREMENT", Ns::Obj, e("FUNCTION", "R", "c1").kid(kl("OUT_MEASUREMENT", &[t]))),
        ("FUNCTION.DEF_CHARACTERISTIC", Ns::Obj, e("FUNCTION", "R", "c1").kid(kl("DEF_CHARACTERISTIC", &[t]))),
        ("FUNCTION.REF_CHARACTERISTIC", Ns::Obj, e("FUNCTION", "R", "c1").kid(kl("REF_CHARACTERISTIC", &[t]))),
        ("FUNCTION.SUB_FUNCTION", Ns::Function, e("FUNCTION", "R", "c1").kid(kl("SUB_FUNCTION", &[t]))),
        ("GROUP.REF_CHARACTERISTIC", Ns::Obj, e("GROUP", "R", "c1").kid(kl("REF_CHARACTERISTIC", &[t]))),
        ("GROUP.REF_MEASUREMENT", Ns::Obj, e("GROUP", "R", "c1").kid(kl("REF_MEASUREMENT", &[t]))),
        ("GROUP.SUB_GROUP", Ns::Group, e("GROUP", "R", "c1").kid(kl("SUB_GROUP", &[t]))),
        ("GROUP.FUNCTION_LIST", Ns::Function, e("GROUP", "R", "c1").kid(kl("FUNCTION_LIST", &[t]))),
        ("TRANSFORMER.inverse_transformer", Ns::Transformer, e("TRANSFORMER", "R", "c1").set("inverse_transformer", t)),
        ("TRANSFORMER.TRANSFORMER_IN_OBJECTS", Ns::Obj, e("TRANSFORMER", "R", "c1").kid(kl("TRANSFORMER_IN_OBJECTS", &[t]))),
        ("TRANSFORMER.TRANSFORMER_OUT_OBJECTS", Ns::Obj, e("TRANSFORMER", "R", "c1").kid(kl("TRANSFORMER_OUT_OBJECTS", &[t]))),
        ("USER_RIGHTS.REF_GROUP", Ns::Group, e("USER_RIGHTS", "R", "c1").kid(kl("REF_GROUP", &[t]))),
        ("VARIANT_CODING.VAR_CRITERION.VAR_MEASUREMENT", Ns::Obj, e("VARIANT_CODING", "", "").kid(ks("VAR_CRITERION", &[("name", "CRIT")]).with(ks("VAR_MEASUREMENT", &[("name", t)])))),
        ("VARIANT_CODING.VAR_CRITERION.VAR_SELECTION_CHARACTERISTIC", Ns::Obj, e("VARIANT_CODING", "", "").kid(ks("VAR_CRITERION", &[("name", "CRIT")]).with(ks("VAR_SELECTION_CHARACTERISTIC", &[("name", t)])))),
        ("VARIANT_CODING.VAR_CHARACTERISTIC.name", Ns::Obj, e("VARIANT_CODING", "", "").kid(ks("VAR_CHARACTERISTIC", &[("name", t)]))),
    ]
}

trait WithSet {
    fn with_set(self, f: &str, v: &str) -> KSpec;
}
impl WithSet for KSpec {
    fn with_set(mut self, f: &str, v: &str) -> KSpec {
        self.set.push((f.to_string(), v.to_string()));
        self
    }
}

/// identifier positions that are not references: a criterion named like a renamed object must stay
fn non_reference_cases(g: &Grammar, out: &mut Vec<Case9>) {
    let vc = |crit: &str| {
        e("VARIANT_CODING", "", "")
            .kid(KSpec { tag: "VAR_CRITERION".into(), set: vec![("name".into(), crit.into())], list: Some(vec!["X".into(), "V2".into()]), kids: vec![] })
            .kid(KSpec { tag: "VAR_CHARACTERISTIC".into(), set: vec![("name".into(), "CH".into())], list: Some(vec![crit.into()]), kids: vec![] })
    };
    for crit in ["X", "CRIT"] {
        let b = vec![e("MEASUREMENT", "X", "c1"), e("CHARACTERISTIC", "CH", "c1").kid(ks("DISPLAY_IDENTIFIER", &[("display_name", "X")])), vc(crit), e("INSTANCE", "I", "c1").kid(ks("OVERWRITE", &[("name", "X")]))];
        let a = vec![e("MEASUREMENT", "X", "c2")];
        out.push(Case9 { label: format!("non-reference identifiers equal to a renamed object name (criterion {crit})"), site: "non-reference".into(), ta: file_text(g, "A", &a), tb: file_text(g, "B", &b) });
    }
}

/// the referrer with its identifier list naming the target several times (t, Q0, t, t)
fn with_repeated_target(es: &ESpec, t: &str) -> Option<ESpec> {
    fn fix(k: &mut KSpec, t: &str) -> bool {
        let mut hit = false;
        if let Some(l) = &mut k.list {
            if l.iter().any(|x| x == t) {
                *l = vec![t.to_string(), "Q0".to_string(), t.to_string(), t.to_string()];
                hit = true;
            }
        }
        for kk in k.kids.iter_mut() {
            hit |= fix(kk, t);
        }
        hit
    }
    let mut e2 = es.clone();
    let mut hit = false;
    for k in e2.kids.iter_mut() {
        hit |= fix(k, t);
    }
    hit.then_some(e2)
}

pub fn build(g: &Grammar, thorough: bool) -> Vec<Case9> {
    let mut out = Vec::new();
    let mut sites = referrers("X");
    let repeated: Vec<(&'static str, Ns, ESpec)> = sites.iter().filter_map(|(l, ns, r)| with_repeated_target(r, "X").map(|r2| (*l, *ns, r2))).collect();
    let n_plain = sites.len();
    sites.extend(repeated);
    for (si, (label, ns, referrer)) in sites.iter().enumerate() {
        let label = &if si >= n_plain { format!("{label} (target named several times)") } else { label.to_string() };
        for tk in kinds_of(*ns) {
            for overlap in ["absent", "identical", "conflict", "conflict+merge-taken", "conflict+merge-name-in-B", "conflict-other-kind", "both-conflict:X+X.MERGE", "both-conflict:X+X.MERGE+X.MERGE2"] {
                // (A holds an element of another kind of the same namespace under the name X)
                let other_kinds: Vec<&str> = kinds_of(*ns).into_iter().filter(|k| *k != tk).collect();
                if overlap == "conflict-other-kind" && other_kinds.is_empty() {
                    continue;
                }
                // twin: A holds a referrer with the same text as B's (same name, same content, same reference text); whether the two
                // are the same element depends on what their references designate after the merge
                for novelty in ["new", "conflicting", "twin"] {
                    if referrer.name.is_empty() && novelty != "new" {
                        continue; // singletons are all-or-nothing
                    }
                    let mut a: Vec<ESpec> = Vec::new();
                    let mut b: Vec<ESpec> = vec![e(tk, "X", "c1")];
                    match overlap {
                        "identical" => a.push(e(tk, "X", "c1")),
                        "conflict" => a.push(e(tk, "X", "c2")),
                        "conflict-other-kind" => a.push(e(other_kinds[0], "X", "c1")),
                        "conflict+merge-taken" => {
                            a.push(e(tk, "X", "c2"));
                            a.push(e(tk, "X.MERGE", "c1"));
                        }
                        "conflict+merge-name-in-B" => {
                            // B itself holds an element with the name the conflicting X would get, referenced by a second referrer
                            a.push(e(tk, "X", "c2"));
                            b.push(e(tk, "X.MERGE", "c3"));
                            if !referrer.name.is_empty() {
                                if let Some((_, _, r2)) = referrers("X.MERGE").into_iter().find(|(l, _, _)| l == label) {
                                    let mut r2 = r2;
                                    r2.name = "R2".into();
                                    b.push(r2);
                                }
                            }
                        }
                        "both-conflict:X+X.MERGE" | "both-conflict:X+X.MERGE+X.MERGE2" => {
                            // both files are products of earlier merges: X and X.MERGE (and X.MERGE2) exist on both sides and all of them
                            // differ, so several elements of B get a fresh name in one merge; each has a referrer of its own in B
                            let names: Vec<&str> = if overlap.ends_with("MERGE2") { vec!["X.MERGE", "X.MERGE2"] } else { vec!["X.MERGE"] };
                            a.push(e(tk, "X", "c2"));
                            for (k, n) in names.iter().enumerate() {
                                a.push(e(tk, n, "c2"));
                                b.push(e(tk, n, if k == 0 { "c3" } else { "c1" }));
                                if !referrer.name.is_empty() {
                                    if let Some((_, _, r2)) = referrers(n).into_iter().find(|(l, _, _)| l == label) {
                                        let mut r2 = r2;
                                        r2.name = format!("R{}", k + 2);
                                        b.push(r2);
                                    }
                                }
                            }
                        }
                        _ => {}
                    }
                    // an element with the same name in another namespace, conflicting as well
                    let other_kind = if *ns == Ns::CompuMethod { "UNIT" } else { "COMPU_METHOD" };
                    if thorough || overlap == "conflict" {
                        a.push(e(other_kind, "X", "c2"));
                        b.push(e(other_kind, "X", "c1"));
                    }
                    if referrer.tag == *tk {
                        // referrer and target are of the same kind: fine, different names
                    }
                    b.push(referrer.clone());
                    if novelty == "conflicting" {
                        let mut ra = e(&referrer.tag, "R", "c2");
                        ra.set = vec![];
                        a.push(ra);
                    }
                    if novelty == "twin" {
                        a.push(referrer.clone());
                    }
                    out.push(Case9 { label: format!("{label} -> {tk} X [{overlap}], referrer {novelty}"), site: label.to_string(), ta: file_text(g, "A", &a), tb: file_text(g, "B", &b) });
                }
            }
        }
    }
    non_reference_cases(g, &mut out);
    // every reference position again with every item of every enumeration parameter of the referrer and of its first-level
    // sub-elements (axis kinds, characteristic types, conversion types ...): which renaming code runs must not depend on them
    for (label, ns, referrer) in sites.iter().take(n_plain) {
        let mut variants: Vec<(String, ESpec)> = Vec::new();
        let enum_params = |tag: &str| -> Vec<(String, Vec<String>)> {
            let Some(el) = g.get_elem(tag) else { return vec![] };
            el.items
                .iter()
                .filter_map(|it| match it {
                    vcore::grammar::Item::Single { ty: vcore::grammar::PType::Enum(en), name } => Some((vcore::grammar::make_varname(name), g.enumdef(en).items.iter().filter(|i| i.in_version(5)).map(|i| i.name.clone()).collect())),
                    _ => None,
                })
                .collect()
        };
        for (field, items) in enum_params(&referrer.tag) {
            for it in items {
                let mut r = referrer.clone();
                r.set.retain(|(f, _)| f != &field);
                r.set.push((field.clone(), it.clone()));
                variants.push((format!("{}={it}", field), r));
            }
        }
        for (ki, kid) in referrer.kids.iter().enumerate() {
            for (field, items) in enum_params(&kid.tag) {
                for it in items {
                    let mut r = referrer.clone();
                    r.kids[ki].set.retain(|(f, _)| f != &field);
                    r.kids[ki].set.push((field.clone(), it.clone()));
                    variants.push((format!("{}.{}={it}", kid.tag, field), r));
                }
            }
        }
        let tk = kinds_of(*ns)[0];
        for (vn, r) in variants {
            let a = vec![e(tk, "X", "c2")];
            let b = vec![e(tk, "X", "c1"), r];
            out.push(Case9 { label: format!("{label} -> {tk} X [conflict], referrer new, {vn}"), site: label.to_string(), ta: file_text(g, "A", &a), tb: file_text(g, "B", &b) });
        }
    }
    if thorough {
        // pairs of positions in one B: two referrers, two targets with different overlap
        let s2 = referrers("Y");
        for (i, (l1, n1, r1)) in sites.iter().enumerate() {
            for (l2, n2, r2) in s2.iter().skip(i + 1) {
                if r1.name.is_empty() && r2.name.is_empty() && r1.tag == r2.tag {
                    continue;
                }
                let (k1, k2) = (kinds_of(*n1)[0], kinds_of(*n2)[0]);
                let mut r2 = r2.clone();
                if !r2.name.is_empty() {
                    r2.name = "R2".into();
                }
                if r1.tag == r2.tag && r1.name.is_empty() {
                    continue;
                }
                let a = vec![e(k1, "X", "c2"), e(k2, "Y", "c2")];
                let b = vec![e(k1, "X", "c1"), e(k2, "Y", "c1"), r1.clone(), r2];
                out.push(Case9 { label: format!("pair {l1} + {l2}"), site: format!("{l1}+{l2}"), ta: file_text(g, "A", &a), tb: file_text(g, "B", &b) });
            }
        }
    }
    out
}

pub fn run(tier: &str) -> Run {
    let mut run = Run::new("C09", tier);
    let g = crate::corpus::grammar();
    let cases = build(&g, crate::util::wide(tier));
    let res = par_map(cases.len(), &|i| merge_and_check(&g, &cases[i].ta, &cases[i].tb), &|i| {
        println!("MACHINERY-ERROR: C09 case hangs: {}", cases[i].label);
        std::process::exit(2);
    });
    for (i, r) in res.into_iter().enumerate() {
        run.evaluations += 1;
        run.transitions += 3;
        let h = fnv1a(format!("{}|{}", cases[i].ta, cases[i].tb).as_bytes());
        if run.states.insert(h) {
            run.nontrivial.insert(h);
        }
        match r {
            Err(m) if m.starts_with("machinery") => run.machinery(format!("{}: {m}", cases[i].label)),
            Err(p) => run.violation(format!("C09/panic {}", vcore::explore::panic_key(&p)), format!("{}: {p}", cases[i].label), json!({"a": cases[i].ta, "b": cases[i].tb})),
            Ok(vs) => {
                let mut any = false;
                for v in vs.iter().filter(|v| v.category == "reference" || (cases[i].site == "non-reference" && (v.oracle == "B-element-changed" || v.oracle == "B-singleton-changed"))) {
                    any = true;
                    let detail = if cases[i].site == "non-reference" { "non-reference identifier".to_string() } else { v.detail.clone() };
                    run.violation(format!("C09/{}/{}", v.oracle, detail), format!("{}: {}", cases[i].label, v.what), json!({"a": cases[i].ta, "b": cases[i].tb}));
                }
                run.outcome(if any { "reference structure broken" } else { "reference structure preserved" });
            }
        }
        if i % 401 == 3 {
            run.sample(json!({"label": cases[i].label, "B": crate::util::short(&cases[i].tb, 500)}));
        }
    }
    run.require("reference structure preserved", 500);
    run.rule = "every reference position of the grammar (60 referrer shapes incl. positions nested in AXIS_DESCR / OVERWRITE / VAR_CRITERION and the singletons MOD_COMMON, VARIANT_CODING) x every kind of the target namespace x target overlap {absent, identical, conflicting, conflicting and X.MERGE taken in A, conflicting and X.MERGE present in B with its own referrer, X and X.MERGE (and X.MERGE2) conflicting on both sides with a referrer each} x referrer {new, conflicting}; a same-named conflicting element in another namespace; identifier positions that are not references (criterion names, OVERWRITE name, DISPLAY_IDENTIFIER) equal to a renamed object name; thorough: all pairs of positions. Oracle: the element that represents B's referrer holds, at every position, the name of the element that represents its original target (observed renaming).".into();
    run.assumptions = vec!["elements of B that are shared as identical are A's elements (their references are A's)".into()];
    run
}

pub fn replay(v: &Value) -> Result<String, String> {
    let g = crate::corpus::grammar();
    let ta = v["a"].as_str().ok_or("no a")?;
    let tb = v["b"].as_str().ok_or("no b")?;
    let vs = merge_and_check(&g, ta, tb)?;
    let vs: Vec<&MV> = vs.iter().filter(|v| v.category == "reference" || v.oracle == "B-element-changed" || v.oracle == "B-singleton-changed").collect();
    if vs.is_empty() {
        Ok("reference structure preserved".into())
    } else {
        Err(vs.iter().map(|v| format!("{}: {}", v.oracle, v.what)).collect::<Vec<_>>().join(" || "))
    }
}
