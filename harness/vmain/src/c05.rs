//! C05 — layout preservation (every significant token keeps its line; writer output is a
//! fixpoint) and edit locality (one API change touches only the lines of that object).

use crate::c01::{self, Case, CM, WS};
use crate::corpus::{self, CDoc};
use crate::util::*;
use a2lfile::{A2lFile, A2lObjectName};
use serde_json::{json, Value};
use std::collections::HashMap;
use vcore::docgen::*;
use vcore::explore::{fnv1a, par_map};
use vcore::grammar::*;
use vcore::interp::{self, INode};
use vcore::reftok::{self, Kind};
use vcore::report::Run;

/// is whitespace `w` allowed at gap `gap` by the scope of the property?
fn ws_in_scope(toks: &[RTok], gap: usize, w: &str) -> bool {
    let has_lf = w.contains('\n');
    if gap > 0 && gap < toks.len() {
        // /begin and /end stay on the line of their tag
        if matches!(toks[gap - 1].kind, TKind::Begin | TKind::End) && has_lf {
            return false;
        }
        // the /end of an A2ML block stands on its own line
        if toks[gap].kind == TKind::End && toks.get(gap + 1).map_or(false, |t| t.text == "A2ML") && !has_lf {
            return false;
        }
    }
    true
}

fn block_level_gap(g: &Grammar, toks: &[RTok], gap: usize) -> bool {
    if gap == 0 || gap >= toks.len() || toks[gap].depth == 0 {
        return false;
    }
    let role = c01::gap_role(toks, gap);
    let near = |i: usize| toks.get(i).map_or(false, |t| matches!(t.kind, TKind::Other | TKind::Raw));
    if near(gap) || near(gap - 1) {
        return false;
    }
    match role {
        "before-sub-element" => {
            // the parent of the sub-element: a comment is kept only inside blocks
            true
        }
        "before-end" => {
            let tag = toks.get(gap + 1).map(|t| t.text.as_str()).unwrap_or("");
            tag != "A2ML" && tag != "IF_DATA" && g.get_elem(tag).map_or(false, |e| !e.refs.is_empty())
        }
        _ => false,
    }
}

fn layout_cases(g: &Grammar, d: &CDoc, out: &mut Vec<Case>) {
    let toks = d.doc.tokens();
    for gap in 0..=toks.len() {
        let role = c01::gap_role(&toks, gap);
        for (n, w) in WS {
            if !ws_in_scope(&toks, gap, w) {
                continue;
            }
            let mut gm = HashMap::new();
            gm.insert(gap, w.to_string());
            out.push(Case { label: format!("{} + ws(gap {gap},{n})", d.label), class: format!("ws:{n}@{role}"), text: render(&toks, &gm), spec: None, parts: vec![] });
        }
        if block_level_gap(g, &toks, gap) {
            for (n, c) in CM {
                let mut gm = HashMap::new();
                gm.insert(gap, c.to_string());
                out.push(Case { label: format!("{} + cm(gap {gap},{n})", d.label), class: format!("cm:{n}@{role}"), text: render(&toks, &gm), spec: None, parts: vec![] });
            }
        }
    }
}

fn pair_cases(g: &Grammar, d: &CDoc, out: &mut Vec<Case>) {
    let toks = d.doc.tokens();
    let mut choices: Vec<(usize, String, String)> = Vec::new();
    for gap in 0..=toks.len() {
        for (n, w) in WS {
            if ws_in_scope(&toks, gap, w) {
                choices.push((gap, format!("ws:{n}"), w.to_string()));
            }
        }
        if block_level_gap(g, &toks, gap) {
            for (n, c) in CM {
                choices.push((gap, format!("cm:{n}"), c.to_string()));
            }
        }
    }
    for i in 0..choices.len() {
        for j in (i + 1)..choices.len() {
            if choices[i].0 == choices[j].0 {
                continue;
            }
            let mut gm = HashMap::new();
            gm.insert(choices[i].0, choices[i].2.clone());
            gm.insert(choices[j].0, choices[j].2.clone());
            let single = |c: &(usize, String, String)| {
                let mut m = HashMap::new();
                m.insert(c.0, c.2.clone());
                (format!("{}@{}", c.1, c01::gap_role(&toks, c.0)), render(&toks, &m))
            };
            out.push(Case {
                label: format!("{} + {}(gap {}) + {}(gap {})", d.label, choices[i].1, choices[i].0, choices[j].1, choices[j].0),
                class: format!("pair:{}@{}+{}@{}", choices[i].1, c01::gap_role(&toks, choices[i].0), choices[j].1, c01::gap_role(&toks, choices[j].0)),
                text: render(&toks, &gm),
                spec: None,
                parts: vec![single(&choices[i]), single(&choices[j])],
            });
        }
    }
}

pub enum LV {
    OutOfScope(&'static str),
    Ok,
    Viol(&'static str, String),
}

/// (i) token lines preserved and (ii) writer output is a fixpoint
pub fn lines_preserved(g: &Grammar, text: &str) -> LV {
    let Ok(lex0) = reftok::lex(text) else { return LV::OutOfScope("not lexable") };
    if interp::recognise(g, &lex0).is_err() {
        return LV::OutOfScope("not valid");
    }
    let m0 = match load(text, None, true) {
        Loaded::Ok(f, _) => f,
        Loaded::Err(_) => return LV::OutOfScope("rejected"),
        Loaded::Panic(p) => return LV::Viol("panic", p),
    };
    let t1 = match write(&m0) {
        Ok(t) => t,
        Err(p) => return LV::Viol("panic", p),
    };
    let Ok(lex1) = reftok::lex(&t1) else { return LV::Viol("output-not-lexable", short(&t1, 300)) };
    if lex0.tokens.len() != lex1.tokens.len() {
        return LV::Viol("token-count", format!("{} significant tokens in, {} out", lex0.tokens.len(), lex1.tokens.len()));
    }
    for (i, (a, b)) in lex0.tokens.iter().zip(lex1.tokens.iter()).enumerate() {
        if a.line != b.line {
            return LV::Viol(
                "token-line",
                format!("token {i} ({}) is on line {} in the input and on line {} in the output\n--- input:\n{}\n--- output:\n{}", short(&a.text, 30), a.line, b.line, short(text, 500), short(&t1, 500)),
            );
        }
    }
    // (ii) text in the writer's own format is reproduced byte for byte
    let m1 = match load(&t1, None, true) {
        Loaded::Ok(f, _) => f,
        Loaded::Err(e) => return LV::Viol("reload-fails", format!("{e}")),
        Loaded::Panic(p) => return LV::Viol("panic", p),
    };
    match write(&m1) {
        Ok(t2) if t2 == t1 => LV::Ok,
        Ok(t2) => LV::Viol("not-a-fixpoint", format!("writer output is not reproduced byte for byte: {} vs {} bytes", t1.len(), t2.len())),
        Err(p) => LV::Viol("panic", p),
    }
}

// ------------------------------------------------------------------------------------------
// (iii) edit locality

#[derive(Debug, Clone)]
pub enum Edit {
    /// edit the long_identifier of item `idx` of list `kind`
    EditStr(&'static str, usize),
    /// edit a numeric field
    EditNum(&'static str, usize),
    Remove(&'static str, usize),
    /// push a builder-made element, optionally followed by sort_new_items
    Push(&'static str, bool),
}

macro_rules! with_list {
    ($file:expr, $kind:expr, $l:ident => $body:expr, $default:expr) => {{
        let m = &mut $file.project.module[0];
        match $kind {
            "AXIS_PTS" => { let $l = &mut m.axis_pts; $body }
            "BLOB" => { let $l = &mut m.blob; $body }
            "CHARACTERISTIC" => { let $l = &mut m.characteristic; $body }
            "COMPU_METHOD" => { let $l = &mut m.compu_method; $body }
            "COMPU_TAB" => { let $l = &mut m.compu_tab; $body }
            "COMPU_VTAB" => { let $l = &mut m.compu_vtab; $body }
            "COMPU_VTAB_RANGE" => { let $l = &mut m.compu_vtab_range; $body }
            "FRAME" => { let $l = &mut m.frame; $body }
            "FUNCTION" => { let $l = &mut m.function; $body }
            "GROUP" => { let $l = &mut m.group; $body }
            "INSTANCE" => { let $l = &mut m.instance; $body }
            "MEASUREMENT" => { let $l = &mut m.measurement; $body }
            "TYPEDEF_AXIS" => { let $l = &mut m.typedef_axis; $body }
            "TYPEDEF_BLOB" => { let $l = &mut m.typedef_blob; $body }
            "TYPEDEF_CHARACTERISTIC" => { let $l = &mut m.typedef_characteristic; $body }
            "TYPEDEF_MEASUREMENT" => { let $l = &mut m.typedef_measurement; $body }
            "TYPEDEF_STRUCTURE" => { let $l = &mut m.typedef_structure; $body }
            "UNIT" => { let $l = &mut m.unit; $body }
            _ => $default,
        }
    }};
}

pub const LIST_KINDS: [&str; 18] = [
    "AXIS_PTS", "BLOB", "CHARACTERISTIC", "COMPU_METHOD", "COMPU_TAB", "COMPU_VTAB", "COMPU_VTAB_RANGE", "FRAME", "FUNCTION", "GROUP",
    "INSTANCE", "MEASUREMENT", "TYPEDEF_AXIS", "TYPEDEF_BLOB", "TYPEDEF_CHARACTERISTIC", "TYPEDEF_MEASUREMENT", "TYPEDEF_STRUCTURE", "UNIT",
];

/// apply the edit; returns (kind, name of the affected object) or None when not applicable
fn apply(file: &mut A2lFile, e: &Edit, k: &mut u32) -> Option<(String, String, Option<(String, String)>)> {
    match e {
        Edit::EditStr(kind, idx) => with_list!(file, *kind, l => {
            if *idx >= l.len() { return None; }
            let old = format!("\"{}\"", l[*idx].long_identifier);
            l[*idx].long_identifier = "EDITED TEXT".to_string();
            Some((kind.to_string(), l[*idx].get_name().to_string(), Some((old, "\"EDITED TEXT\"".to_string()))))
        }, None),
        Edit::EditNum(kind, idx) => {
            let m = &mut file.project.module[0];
            match *kind {
                "MEASUREMENT" => {
                    let it = m.measurement.iter_mut().nth(*idx)?;
                    let old = it.resolution;
                    it.resolution = 4242;
                    Some((kind.to_string(), it.get_name().to_string(), Some((old.to_string(), "4242".into()))))
                }
                "CHARACTERISTIC" => {
                    let it = m.characteristic.iter_mut().nth(*idx)?;
                    let old = it.lower_limit;
                    it.lower_limit = 4242.0;
                    Some((kind.to_string(), it.get_name().to_string(), Some((format!("{old}"), "4242".into()))))
                }
                "AXIS_PTS" => {
                    let it = m.axis_pts.iter_mut().nth(*idx)?;
                    let old = it.max_axis_points;
                    it.max_axis_points = 4242;
                    Some((kind.to_string(), it.get_name().to_string(), Some((old.to_string(), "4242".into()))))
                }
                _ => None,
            }
        }
        Edit::Remove(kind, idx) => with_list!(file, *kind, l => {
            if *idx >= l.len() { return None; }
            let it = l.swap_remove_idx(*idx)?;
            Some((kind.to_string(), it.get_name().to_string(), None))
        }, None),
        Edit::Push(kind, sorted) => {
            let before: Vec<String> = with_list!(file, *kind, l => l.iter().map(|x| x.get_name().to_string()).collect(), return None);
            if !crate::gen_builders::push_module_item(file, kind, k, 1) {
                return None;
            }
            let name: String = with_list!(file, *kind, l => l.iter().map(|x| x.get_name().to_string()).find(|n| !before.contains(n)), None)?;
            if *sorted {
                file.sort_new_items();
            }
            Some((kind.to_string(), name, None))
        }
    }
}

fn find_named<'a>(n: &'a INode, toks: &[reftok::Tok], kind: &str, name: &str) -> Option<&'a INode> {
    if n.tag == kind && n.params.first().map_or(false, |p| toks[p.0].text == name) {
        return Some(n);
    }
    n.children.iter().find_map(|c| find_named(c, toks, kind, name))
}

/// lines [first, last] (1-based) that belong to the object: its tokens plus its leading blank lines
fn object_lines(g: &Grammar, text: &str, kind: &str, name: &str) -> Option<(u32, u32)> {
    let lex = reftok::lex(text).ok()?;
    let acc = interp::recognise(g, &lex).ok()?;
    let n = find_named(&acc.root, &lex.tokens, kind, name)?;
    let first_tok = &lex.tokens[n.first_tok];
    let last = lex.tokens[n.last_tok].end_line;
    let prev_line = if n.first_tok > 0 { lex.tokens[n.first_tok - 1].end_line } else { 0 };
    if prev_line >= first_tok.line {
        return None; // shares a line with the previous token: outside the scope
    }
    // comments between the previous token and the object belong to neither: stop at the last comment line
    let mut start = prev_line + 1;
    for c in &lex.comments {
        if c.before_token == n.first_tok {
            let cend = c.line + c.text.matches('\n').count() as u32;
            start = start.max(cend + 1);
        }
    }
    // a following token on the same line as the end: outside the scope
    if let Some(nt) = lex.tokens.get(n.last_tok + 1) {
        if nt.line <= last {
            return None;
        }
    }
    Some((start, last))
}

fn remove_lines(text: &str, first: u32, last: u32) -> String {
    let mut out = String::new();
    for (i, l) in text.split_inclusive('\n').enumerate() {
        let ln = i as u32 + 1;
        if ln < first || ln > last {
            out.push_str(l);
        }
    }
    out
}

pub fn edit_local(g: &Grammar, text: &str, e: &Edit) -> LV {
    let mut f = match load(text, None, true) {
        Loaded::Ok(f, _) => f,
        _ => return LV::OutOfScope("rejected"),
    };
    let old = match write(&f) {
        Ok(t) => t,
        Err(p) => return LV::Viol("panic", p),
    };
    let mut k = 5000u32;
    let applied = match vcore::explore::guard(|| apply(&mut f, e, &mut k)) {
        Ok(a) => a,
        Err(p) => return LV::Viol("panic", p),
    };
    let Some((kind, name, repl)) = applied else { return LV::OutOfScope("edit not applicable") };
    let new = match write(&f) {
        Ok(t) => t,
        Err(p) => return LV::Viol("panic", p),
    };
    match e {
        Edit::EditStr(..) | Edit::EditNum(..) => {
            let Some((a, b)) = object_lines(g, &old, &kind, &name) else { return LV::OutOfScope("object span not determinable") };
            let (ol, nl): (Vec<&str>, Vec<&str>) = (old.split('\n').collect(), new.split('\n').collect());
            if ol.len() != nl.len() {
                return LV::Viol("edit-changes-line-count", format!("editing one field of {kind} {name} changed the number of lines {} -> {}", ol.len(), nl.len()));
            }
            let changed: Vec<usize> = (0..ol.len()).filter(|i| ol[*i] != nl[*i]).collect();
            if changed.len() != 1 {
                return LV::Viol("edit-not-local", format!("editing one field of {kind} {name} changed {} lines: {:?}", changed.len(), changed.iter().map(|i| i + 1).collect::<Vec<_>>()));
            }
            let ln = changed[0] as u32 + 1;
            if ln < a || ln > b {
                return LV::Viol("edit-not-local", format!("editing {kind} {name} (lines {a}..{b}) changed line {ln}"));
            }
            if let Some((from, to)) = repl {
                if ol[changed[0]].replacen(&from, &to, 1) != nl[changed[0]] {
                    return LV::Viol("edit-not-local", format!("line {ln} changed from {:?} to {:?}, expected only {from} -> {to}", ol[changed[0]], nl[changed[0]]));
                }
            }
            LV::Ok
        }
        Edit::Remove(..) => {
            let Some((a, b)) = object_lines(g, &old, &kind, &name) else { return LV::OutOfScope("object span not determinable") };
            let expected = remove_lines(&old, a, b);
            if expected != new {
                return LV::Viol("remove-not-local", format!("removing {kind} {name} (lines {a}..{b}) changed other lines\n--- expected:\n{}\n--- got:\n{}", short(&expected, 600), short(&new, 600)));
            }
            LV::Ok
        }
        Edit::Push(..) => {
            let Some((a, b)) = object_lines(g, &new, &kind, &name) else {
                // a new object that shares a line with another token changed that line
                if let Ok(lex) = reftok::lex(&new) {
                    if let Ok(acc) = interp::recognise(g, &lex) {
                        if let Some(n) = find_named(&acc.root, &lex.tokens, &kind, &name) {
                            let first_line = lex.tokens[n.first_tok].line;
                            let last_line = lex.tokens[n.last_tok].end_line;
                            let before = n.first_tok > 0 && lex.tokens[n.first_tok - 1].end_line >= first_line;
                            let after = lex.tokens.get(n.last_tok + 1).map_or(false, |t| t.line <= last_line);
                            if before || after {
                                return LV::Viol("push-not-local", format!("the new {kind} {name} shares line {} with a token of another object\n--- new:\n{}", if before { first_line } else { last_line }, short(&new, 800)));
                            }
                        }
                    }
                }
                return LV::OutOfScope("object span not determinable");
            };
            let expected_old = remove_lines(&new, a, b);
            if expected_old != old {
                return LV::Viol("push-not-local", format!("adding {kind} {name} (lines {a}..{b} of the new text) changed other lines\n--- old:\n{}\n--- new:\n{}", short(&old, 600), short(&new, 600)));
            }
            LV::Ok
        }
    }
}

fn edit_docs(g: &Grammar) -> Vec<(String, String)> {
    // one document per list kind with three elements, in three layouts
    let mut gen = Gen::new(g);
    let mut out = Vec::new();
    for kind in LIST_KINDS {
        let (mut doc, path) = gen.carrier_v("MODULE", 5, 1);
        for other in ["MOD_COMMON", "COMPU_METHOD"] {
            if other != kind {
                let n = gen.min_node(other, 5, 1);
                doc.root.at_mut(&path).children.push(n);
            }
        }
        for i in 0..3 {
            let mut n = gen.min_node(kind, 5, 1);
            if i == 1 {
                // one richer element
                let e = g.elem(kind).clone();
                for r in e.refs.iter().take(3) {
                    if r.in_version(5) && r.tag != "IF_DATA" && n.child(&r.tag).is_none() {
                        let c = gen.min_node(&r.tag, 5, 1);
                        n.children.push(c);
                    }
                }
            }
            doc.root.at_mut(&path).children.push(n);
        }
        let n = gen.min_node("USER_RIGHTS", 5, 1);
        doc.root.at_mut(&path).children.push(n);
        // a module that holds nothing but four elements of the kind under test (no other kind, no comment)
        {
            let (mut d1, p1) = gen.carrier_v("MODULE", 5, 1);
            d1.root.at_mut(&p1).children.clear();
            for _ in 0..4 {
                let n = gen.min_node(kind, 5, 1);
                d1.root.at_mut(&p1).children.push(n);
            }
            out.push((format!("edit-doc({kind},single-kind)"), render(&d1.tokens(), &HashMap::new())));
        }
        let toks = doc.tokens();
        // layout A: default; layout B: blank line before every module-level element; layout C: parameters on separate lines
        out.push((format!("edit-doc({kind},compact)"), render(&toks, &HashMap::new())));
        let mut gb = HashMap::new();
        for (i, t) in toks.iter().enumerate() {
            if t.starts_line && t.depth == 2 && t.kind != TKind::End {
                gb.insert(i, "\n\n    ".to_string());
            }
        }
        out.push((format!("edit-doc({kind},blank-lines)"), render(&toks, &gb)));
        let mut gc = HashMap::new();
        for (i, t) in toks.iter().enumerate() {
            if i > 0 && !t.starts_line && t.depth == 2 && !matches!(toks[i - 1].kind, TKind::Begin | TKind::End) {
                gc.insert(i, "\n        ".to_string());
            }
        }
        out.push((format!("edit-doc({kind},one-param-per-line)"), render(&toks, &gc)));
        // layout D: a comment on the line of every /end of a module-level element (also the last one, in front of /end MODULE)
        // and a line comment behind the last parameter line of elements with children
        let mut gd = HashMap::new();
        for (i, t) in toks.iter().enumerate() {
            if i > 1 && t.starts_line && toks[i - 2].kind == TKind::End && (t.depth == 2 || (t.depth == 1 && t.kind == TKind::End)) {
                gd.insert(i, format!(" /* tail */\n{}", "  ".repeat(t.depth)));
            }
        }
        out.push((format!("edit-doc({kind},trailing-comments)"), render(&toks, &gd)));
        // layout E: the elements of the kind under test stand on the line of the preceding /end (only pushes are judged in
        // this layout: a line is shared by two objects)
        let mut ge = HashMap::new();
        let mut seen_kind = 0;
        for (i, t) in toks.iter().enumerate() {
            if t.starts_line && t.depth == 2 && t.kind == TKind::Begin && toks.get(i + 1).map(|x| x.text.as_str()) == Some(kind) {
                seen_kind += 1;
                if seen_kind >= 2 {
                    ge.insert(i, " ".to_string());
                }
            }
        }
        out.push((format!("edit-doc({kind},siblings-on-one-line)"), render(&toks, &ge)));
    }
    out
}

fn edits_for(kind: &'static str) -> Vec<Edit> {
    let mut v = vec![];
    for idx in 0..3 {
        v.push(Edit::EditStr(kind, idx));
        v.push(Edit::Remove(kind, idx));
        if matches!(kind, "MEASUREMENT" | "CHARACTERISTIC" | "AXIS_PTS") {
            v.push(Edit::EditNum(kind, idx));
        }
    }
    v.push(Edit::Push(kind, false));
    v.push(Edit::Push(kind, true));
    v
}

pub fn run(tier: &str) -> Run {
    let mut run = Run::new("C05", tier);
    let thorough = crate::util::wide(tier);
    let g = corpus::grammar();
    let carriers = corpus::carriers(&g);
    let mut cases: Vec<Case> = Vec::new();
    let mut docs: Vec<CDoc> = carriers.clone();
    docs.extend(corpus::rich_docs(&g));
    if thorough {
        docs.extend(corpus::opt_docs(&g, 1));
    }
    for d in &docs {
        cases.push(Case { label: d.label.clone(), class: "plain".into(), text: d.doc.text(), spec: None, parts: vec![] });
        cases.push(Case { label: format!("{} + crlf", d.label), class: "crlf-document".into(), text: d.doc.text().replace('\n', "\r\n"), spec: None, parts: vec![] });
        layout_cases(&g, d, &mut cases);
    }
    c01::ifdata_gap_cases(true, false, &mut cases);
    // every value class at every scalar parameter: the written form of a value (escapes, number notation) must not
    // move anything to another line
    for d in &carriers {
        let mut vc = Vec::new();
        c01::value_cases(d, if thorough { 2 } else { 1 }, &mut vc);
        // (strings with raw line breaks are outside the scope of the property)
        cases.extend(vc.into_iter().filter(|c| !c.class.contains("raw-lf") && !c.class.contains("raw-cr")));
    }
    let pair_tags: &[&str] = if thorough { &["MEASUREMENT", "ANNOTATION_TEXT", "A2ML", "IF_DATA", "FNC_VALUES", "VAR_CRITERION", "HEADER", "COMPU_VTAB", "MEMORY_SEGMENT", "FUNCTION_LIST", "FORMULA", "SYMBOL_LINK"] } else { &["ANNOTATION_TEXT", "FORMULA"] };
    for t in pair_tags {
        if let Some(d) = carriers.iter().find(|c| c.label == format!("carrier({t})")) {
            pair_cases(&g, d, &mut cases);
        }
    }
    let res = par_map(cases.len(), &|i| (fnv1a(cases[i].text.as_bytes()), lines_preserved(&g, &cases[i].text)), &|i| {
        println!("MACHINERY-ERROR: C05 case hangs: {}", cases[i].label);
        std::process::exit(2);
    });
    for (i, (h, r)) in res.into_iter().enumerate() {
        run.evaluations += 1;
        run.transitions += 4;
        let fresh = run.states.insert(h);
        let cls = cases[i].class.split(':').next().unwrap_or("").to_string();
        match r {
            LV::OutOfScope(why) => run.outcome(&format!("{cls}: out of scope ({why})")),
            LV::Ok => {
                if fresh {
                    run.nontrivial.insert(h);
                }
                run.outcome(&format!("{cls}: lines preserved"));
            }
            LV::Viol(o, w) => {
                run.outcome(&format!("{cls}: violation"));
                let mut class = cases[i].class.clone();
                for (pc, pt) in &cases[i].parts {
                    if let LV::Viol(o2, _) = lines_preserved(&g, pt) {
                        if o2 == o {
                            class = pc.clone();
                            break;
                        }
                    }
                }
                let key = if o == "panic" { format!("C05/panic {}", vcore::explore::panic_key(&w)) } else { format!("C05/{o}/{class}") };
                run.violation(key, format!("{}: {w}", cases[i].label), json!({"text": cases[i].text, "label": cases[i].label}));
            }
        }
        if i % 20011 == 3 {
            run.sample(json!({"label": cases[i].label, "text": short(&cases[i].text, 300)}));
        }
    }
    // (iii)
    let edocs = edit_docs(&g);
    let mut ecases: Vec<(String, String, Edit)> = Vec::new();
    for (label, text) in &edocs {
        let kind = LIST_KINDS.iter().find(|k| label.starts_with(&format!("edit-doc({k},"))).unwrap();
        for e in edits_for(kind) {
            if label.contains("siblings-on-one-line") && !matches!(e, Edit::Push(..)) {
                continue;
            }
            ecases.push((label.clone(), text.clone(), e));
        }
    }
    let eres = par_map(ecases.len(), &|i| edit_local(&g, &ecases[i].1, &ecases[i].2), &|i| {
        println!("MACHINERY-ERROR: C05 edit case hangs: {} {:?}", ecases[i].0, ecases[i].2);
        std::process::exit(2);
    });
    for (i, r) in eres.into_iter().enumerate() {
        run.evaluations += 1;
        run.transitions += 4;
        let h = fnv1a(format!("{}{:?}", ecases[i].0, ecases[i].2).as_bytes());
        run.states.insert(h);
        let opname = format!("{:?}", ecases[i].2).split('(').next().unwrap_or("").to_string();
        match r {
            LV::OutOfScope(why) => run.outcome(&format!("edit {opname}: out of scope ({why})")),
            LV::Ok => {
                run.nontrivial.insert(h);
                run.outcome(&format!("edit {opname}: local"));
            }
            LV::Viol(o, w) => {
                run.outcome(&format!("edit {opname}: violation"));
                let kind = match &ecases[i].2 {
                    Edit::EditStr(k, _) | Edit::EditNum(k, _) | Edit::Remove(k, _) | Edit::Push(k, _) => *k,
                };
                let layout = ecases[i].0.rsplit(',').next().unwrap_or("").trim_end_matches(')').to_string();
                let key = if o == "panic" {
                    format!("C05/panic {}", vcore::explore::panic_key(&w))
                } else if layout == "trailing-comments" && matches!(ecases[i].2, Edit::Remove(..) | Edit::Push(_, true)) {
                    // (a comment on the line of an /end is an item of its own in the parent: see the open finding)
                    format!("C05/{o}/{}/comment-on-the-line-of-an-end", if matches!(ecases[i].2, Edit::Remove(..)) { "remove" } else { "push-then-sort_new_items" })
                } else {
                    format!("C05/{o}/{opname}/{kind}/{layout}")
                };
                run.violation(key, format!("{} {:?}: {w}", ecases[i].0, ecases[i].2), json!({"text": ecases[i].1, "edit": format!("{:?}", ecases[i].2), "edit_case": i}));
            }
        }
    }
    run.require("ws: lines preserved", 1000);
    run.require("cm: lines preserved", 500);
    run.require("ifdata-ws: lines preserved", 300);
    run.require("val: lines preserved", 1000);
    run.require("edit EditStr: local", 50);
    run.require("edit Remove: local", 50);
    run.require("edit Push: local", 30);
    run.rule = "(i)+(ii): every carrier and rich document x 7 whitespace shapes at every gap allowed by the scope (/begin,/end on the line of their tag; A2ML /end on its own line) x 7 comment shapes at every block-level gap, CRLF, all pairs on selected documents; 10 IF_DATA payloads (interpreted through an in-file A2ML definition and uninterpreted: nested blocks, hex, floats, wide integers, strings) written on one line and one token per line x 7 whitespace shapes at every gap between payload tokens; every value class (integers, floats, strings over the escape units, identifiers) at every scalar parameter of every carrier; oracle: same significant tokens on the same line numbers (reference tokenizer on both texts) and write(load(output)) == output. (iii): per module-level list kind a 3-element document in 3 layouts x {edit string field, edit numeric field, remove first/middle/last, push a builder-made element with/without sort_new_items}; oracle: new text == old text with exactly the object's lines (incl. its leading blank lines) changed/removed/inserted.".into();
    run.assumptions = vec!["scope as in the quantifier (canonical element order, include-free, no raw line breaks in strings)".into()];
    run
}

pub fn replay(v: &Value) -> Result<String, String> {
    let g = corpus::grammar();
    let text = v["text"].as_str().ok_or("no text")?;
    if let Some(i) = v["edit_case"].as_u64() {
        let edocs = edit_docs(&g);
        let mut n = 0usize;
        for (label, t) in &edocs {
            let kind = LIST_KINDS.iter().find(|k| label.starts_with(&format!("edit-doc({k},"))).unwrap();
            for e in edits_for(kind) {
                if n == i as usize {
                    return match edit_local(&g, t, &e) {
                        LV::Viol(o, w) => Err(format!("{o}: {w}")),
                        LV::Ok => Ok("local".into()),
                        LV::OutOfScope(w) => Ok(format!("out of scope: {w}")),
                    };
                }
                n += 1;
            }
        }
        return Err("edit case not found".into());
    }
    match lines_preserved(&g, text) {
        LV::Viol(o, w) => Err(format!("{o}: {w}")),
        LV::Ok => Ok("lines preserved".into()),
        LV::OutOfScope(w) => Ok(format!("out of scope: {w}")),
    }
}
