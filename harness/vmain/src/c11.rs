//! C11 — check(): cross-reference diagnostics are sound, complete and total.

use crate::corpus;
use crate::modgen::*;
use crate::util::*;
use a2lfile::{A2lError, A2lFile, A2lObjectName, A2lObjectNameSetter, ItemList};
use serde_json::{json, Value};
use std::collections::BTreeSet;
use vcore::explore::{fnv1a, guard, par_map};
use vcore::grammar::Grammar;
use vcore::report::Run;

/// the consistent base module; `t(position, default)` yields the target written at a position
pub fn base_module(g: &Grammar, t: &dyn Fn(&str, &str) -> String) -> String {
    base_module_ex(g, t, false)
}

thread_local! {
    /// axis kind written for the AXIS_DESCR blocks that carry an AXIS_PTS_REF (default COM_AXIS)
    static AXIS_ATTR: std::cell::Cell<&'static str> = const { std::cell::Cell::new("COM_AXIS") };
}

thread_local! {
    /// build the base module with one AXIS_DESCR more than the type permits on C and TC (positions SURPLUS_AXIS_DESCR.*)
    static SURPLUS: std::cell::Cell<bool> = const { std::cell::Cell::new(false) };
}

pub fn base_module_surplus(g: &Grammar, t: &dyn Fn(&str, &str) -> String) -> String {
    SURPLUS.with(|s| s.set(true));
    let r = base_module_ex(g, t, false);
    SURPLUS.with(|s| s.set(false));
    r
}

/// `extras`: one more, unreferenced, element at the end of every list that the editing histories work on
pub fn base_module_ex(g: &Grammar, t: &dyn Fn(&str, &str) -> String, extras: bool) -> String {
    let ad = |prefix: &str, attr: &str, refkid: Option<KSpec>| {
        let attr = if attr == "COM_AXIS" { AXIS_ATTR.with(|a| a.get()) } else { attr };
        let mut a = ks("AXIS_DESCR", &[("attribute", attr), ("input_quantity", &t(&format!("{prefix}.AXIS_DESCR.input_quantity"), "M")), ("conversion", &t(&format!("{prefix}.AXIS_DESCR.conversion"), "CM"))]);
        a.set.push(("lower_limit".into(), "1".into()));
        a.set.push(("upper_limit".into(), "2".into()));
        if let Some(k) = refkid {
            a = a.with(k);
        }
        a
    };
    let lim = |e: ESpec| e.set("lower_limit", "1").set("upper_limit", "2");
    let mut elems = vec![
        e("MEMORY_SEGMENT", "SEG", "c1"),
        e("UNIT", "U", "c1"),
        e("COMPU_TAB", "TAB", "c1"),
        e("COMPU_VTAB", "VT", "c1"),
        e("COMPU_METHOD", "CM", "c1")
            .set("conversion_type", "TAB_INTP")
            .kid(ks("COMPU_TAB_REF", &[("conversion_table", &t("COMPU_METHOD.COMPU_TAB_REF", "TAB"))]))
            .kid(ks("STATUS_STRING_REF", &[("conversion_table", &t("COMPU_METHOD.STATUS_STRING_REF", "VT"))]))
            .kid(ks("REF_UNIT", &[("unit", &t("COMPU_METHOD.REF_UNIT", "U"))])),
        e("RECORD_LAYOUT", "RL", "c1")
            .kid(ks("FNC_VALUES", &[("position", "1"), ("datatype", "FLOAT64_IEEE")]))
            .kid(ks("AXIS_PTS_X", &[("position", "2"), ("datatype", "FLOAT64_IEEE")]))
            .kid(ks("AXIS_PTS_Y", &[("position", "3"), ("datatype", "FLOAT64_IEEE")])),
        lim(e("MEASUREMENT", "M", "c1").set("datatype", "FLOAT64_IEEE").set("conversion", &t("MEASUREMENT.conversion", "CM")))
            .kid(kl("FUNCTION_LIST", &[&t("MEASUREMENT.FUNCTION_LIST", "F")]))
            .kid(ks("REF_MEMORY_SEGMENT", &[("name", &t("MEASUREMENT.REF_MEMORY_SEGMENT", "SEG"))])),
        lim(e("AXIS_PTS", "AX", "c1").set("conversion", &t("AXIS_PTS.conversion", "CM")).set("input_quantity", &t("AXIS_PTS.input_quantity", "M")).set("deposit_record", &t("AXIS_PTS.deposit_record", "RL")))
            .kid(kl("FUNCTION_LIST", &[&t("AXIS_PTS.FUNCTION_LIST", "F")]))
            .kid(ks("REF_MEMORY_SEGMENT", &[("name", &t("AXIS_PTS.REF_MEMORY_SEGMENT", "SEG"))])),
        lim(e("CHARACTERISTIC", "C2", "c1").set("characteristic_type", "VALUE").set("deposit", "RL").set("conversion", "CM")),
        lim(e("CHARACTERISTIC", "C", "c1").set("characteristic_type", "MAP").set("deposit", &t("CHARACTERISTIC.deposit", "RL")).set("conversion", &t("CHARACTERISTIC.conversion", "CM")))
            .kid(ad("CHARACTERISTIC", "COM_AXIS", Some(ks("AXIS_PTS_REF", &[("axis_points", &t("CHARACTERISTIC.AXIS_DESCR.AXIS_PTS_REF", "AX"))]))))
            .kid(ad("CHARACTERISTIC", "CURVE_AXIS", Some(ks("CURVE_AXIS_REF", &[("curve_axis", &t("CHARACTERISTIC.AXIS_DESCR.CURVE_AXIS_REF", "C2"))]))))
            .kid(ks("COMPARISON_QUANTITY", &[("name", &t("CHARACTERISTIC.COMPARISON_QUANTITY", "M"))]))
            .kid(kl("DEPENDENT_CHARACTERISTIC", &["C2", &t("CHARACTERISTIC.DEPENDENT_CHARACTERISTIC", "C2")]))
            .kid(kl("MAP_LIST", &[&t("CHARACTERISTIC.MAP_LIST", "C2")]))
            .kid(kl("VIRTUAL_CHARACTERISTIC", &[&t("CHARACTERISTIC.VIRTUAL_CHARACTERISTIC", "C2"), "C2"]))
            .kid(kl("FUNCTION_LIST", &[&t("CHARACTERISTIC.FUNCTION_LIST", "F")]))
            .kid(ks("REF_MEMORY_SEGMENT", &[("name", &t("CHARACTERISTIC.REF_MEMORY_SEGMENT", "SEG"))])),
        lim(e("TYPEDEF_AXIS", "TA", "c1").set("input_quantity", &t("TYPEDEF_AXIS.input_quantity", "M")).set("record_layout", &t("TYPEDEF_AXIS.record_layout", "RL")).set("conversion", &t("TYPEDEF_AXIS.conversion", "CM"))),
        lim(e("TYPEDEF_CHARACTERISTIC", "TC", "c1").set("characteristic_type", "MAP").set("record_layout", &t("TYPEDEF_CHARACTERISTIC.record_layout", "RL")).set("conversion", &t("TYPEDEF_CHARACTERISTIC.conversion", "CM")))
            .kid(ad("TYPEDEF_CHARACTERISTIC", "COM_AXIS", Some(ks("AXIS_PTS_REF", &[("axis_points", &t("TYPEDEF_CHARACTERISTIC.AXIS_DESCR.AXIS_PTS_REF", "AX"))]))))
            .kid(ad("TYPEDEF_CHARACTERISTIC", "CURVE_AXIS", Some(ks("CURVE_AXIS_REF", &[("curve_axis", &t("TYPEDEF_CHARACTERISTIC.AXIS_DESCR.CURVE_AXIS_REF", "C2"))])))),
        lim(e("TYPEDEF_MEASUREMENT", "TM", "c1").set("datatype", "FLOAT64_IEEE").set("conversion", &t("TYPEDEF_MEASUREMENT.conversion", "CM"))),
        e("TYPEDEF_STRUCTURE", "TS", "c1")
            .kid(ks("STRUCTURE_COMPONENT", &[("name", "comp"), ("component_type", &t("TYPEDEF_STRUCTURE.STRUCTURE_COMPONENT", "TM"))]))
            .kid(ks("STRUCTURE_COMPONENT", &[("name", "tc"), ("component_type", "TC")]))
            .kid(ks("STRUCTURE_COMPONENT", &[("name", "onlyone"), ("component_type", "TM")])),
        // a second structure that also holds TC: a THIS. reference inside TC has to be valid in every structure that holds it
        e("TYPEDEF_STRUCTURE", "TS2", "c1")
            .kid(ks("STRUCTURE_COMPONENT", &[("name", "comp"), ("component_type", "TM")]))
            .kid(ks("STRUCTURE_COMPONENT", &[("name", "tc"), ("component_type", "TC")])),
        e("INSTANCE", "I2", "c1").set("type_ref", "TS2"),
        e("INSTANCE", "I", "c1").set("type_ref", &t("INSTANCE.type_ref", "TS")),
        e("FUNCTION", "F2", "c1"),
        e("FUNCTION", "F", "c1")
            .kid(kl("IN_MEASUREMENT", &[&t("FUNCTION.IN_MEASUREMENT", "M")]))
            .kid(kl("LOC_MEASUREMENT", &[&t("FUNCTION.LOC_MEASUREMENT", "M")]))
            .kid(kl("OUT_MEASUREMENT", &[&t("FUNCTION.OUT_MEASUREMENT", "M")]))
            .kid(kl("DEF_CHARACTERISTIC", &[&t("FUNCTION.DEF_CHARACTERISTIC", "C2")]))
            .kid(kl("REF_CHARACTERISTIC", &[&t("FUNCTION.REF_CHARACTERISTIC", "C2")]))
            .kid(kl("SUB_FUNCTION", &[&t("FUNCTION.SUB_FUNCTION", "F2")])),
        e("GROUP", "G2", "c1"),
        e("GROUP", "G", "c1")
            .kid(k("ROOT"))
            .kid(kl("REF_CHARACTERISTIC", &[&t("GROUP.REF_CHARACTERISTIC", "C2")]))
            .kid(kl("REF_MEASUREMENT", &[&t("GROUP.REF_MEASUREMENT", "M")]))
            .kid(kl("FUNCTION_LIST", &[&t("GROUP.FUNCTION_LIST", "F")]))
            .kid(kl("SUB_GROUP", &[&t("GROUP.SUB_GROUP", "G2")])),
        e("TRANSFORMER", "T2", "c1").set("inverse_transformer", "NO_INVERSE_TRANSFORMER"),
        e("TRANSFORMER", "T", "c1")
            .set("inverse_transformer", &t("TRANSFORMER.inverse_transformer", "T2"))
            .kid(kl("TRANSFORMER_IN_OBJECTS", &[&t("TRANSFORMER.TRANSFORMER_IN_OBJECTS", "C2")]))
            .kid(kl("TRANSFORMER_OUT_OBJECTS", &[&t("TRANSFORMER.TRANSFORMER_OUT_OBJECTS", "C2")])),
    ];
    if SURPLUS.with(|s| s.get()) {
        // a MAP takes two AXIS_DESCR: the third one is surplus, its references are examined all the same
        for el in elems.iter_mut() {
            if (el.tag == "CHARACTERISTIC" && el.name == "C") || el.tag == "TYPEDEF_CHARACTERISTIC" {
                let prefix = format!("{}.SURPLUS_AXIS_DESCR", el.tag);
                let mut a = ks("AXIS_DESCR", &[("attribute", "COM_AXIS"), ("input_quantity", &t(&format!("{prefix}.input_quantity"), "M")), ("conversion", &t(&format!("{prefix}.conversion"), "CM"))]);
                a.set.push(("lower_limit".into(), "1".into()));
                a.set.push(("upper_limit".into(), "2".into()));
                a = a.with(ks("AXIS_PTS_REF", &[("axis_points", &t(&format!("{prefix}.AXIS_PTS_REF"), "AX"))]));
                el.kids.push(a);
            }
        }
    }
    if extras {
        for tag in ["MEMORY_SEGMENT", "UNIT", "COMPU_TAB", "COMPU_VTAB", "COMPU_VTAB_RANGE", "COMPU_METHOD", "RECORD_LAYOUT", "MEASUREMENT", "AXIS_PTS", "CHARACTERISTIC", "TYPEDEF_AXIS", "TYPEDEF_CHARACTERISTIC", "TYPEDEF_MEASUREMENT", "TYPEDEF_STRUCTURE", "INSTANCE", "FUNCTION", "GROUP", "TRANSFORMER"] {
            let mut x = e(tag, &format!("ZZ_{tag}"), "c1");
            if tag == "INSTANCE" {
                x = x.set("type_ref", "TS");
            }
            elems.push(x);
        }
    }
    file_text(g, "m", &elems)
}

/// (position, namespace class) of the positions check() covers
pub const POSITIONS: &[(&str, &str)] = &[
    ("COMPU_METHOD.COMPU_TAB_REF", "tab"),
    ("COMPU_METHOD.STATUS_STRING_REF", "tab"),
    ("COMPU_METHOD.REF_UNIT", "unit"),
    ("MEASUREMENT.conversion", "cm"),
    ("MEASUREMENT.FUNCTION_LIST", "function"),
    ("MEASUREMENT.REF_MEMORY_SEGMENT", "memseg"),
    ("AXIS_PTS.conversion", "cm"),
    ("AXIS_PTS.input_quantity", "obj-iq"),
    ("AXIS_PTS.deposit_record", "rl"),
    ("AXIS_PTS.FUNCTION_LIST", "function"),
    ("AXIS_PTS.REF_MEMORY_SEGMENT", "memseg"),
    ("CHARACTERISTIC.deposit", "rl"),
    ("CHARACTERISTIC.conversion", "cm"),
    ("CHARACTERISTIC.AXIS_DESCR.input_quantity", "obj-iq"),
    ("CHARACTERISTIC.AXIS_DESCR.conversion", "cm"),
    ("CHARACTERISTIC.AXIS_DESCR.AXIS_PTS_REF", "obj"),
    ("CHARACTERISTIC.AXIS_DESCR.CURVE_AXIS_REF", "obj"),
    ("CHARACTERISTIC.COMPARISON_QUANTITY", "obj"),
    ("CHARACTERISTIC.DEPENDENT_CHARACTERISTIC", "obj"),
    ("CHARACTERISTIC.MAP_LIST", "obj"),
    ("CHARACTERISTIC.VIRTUAL_CHARACTERISTIC", "obj"),
    ("CHARACTERISTIC.FUNCTION_LIST", "function"),
    ("CHARACTERISTIC.REF_MEMORY_SEGMENT", "memseg"),
    ("TYPEDEF_AXIS.input_quantity", "obj-iq"),
    ("TYPEDEF_AXIS.record_layout", "rl"),
    ("TYPEDEF_AXIS.conversion", "cm"),
    ("TYPEDEF_CHARACTERISTIC.record_layout", "rl"),
    ("TYPEDEF_CHARACTERISTIC.conversion", "cm"),
    ("TYPEDEF_CHARACTERISTIC.AXIS_DESCR.input_quantity", "obj-iq"),
    ("TYPEDEF_CHARACTERISTIC.AXIS_DESCR.conversion", "cm"),
    ("TYPEDEF_CHARACTERISTIC.AXIS_DESCR.AXIS_PTS_REF", "obj-this"),
    ("TYPEDEF_CHARACTERISTIC.AXIS_DESCR.CURVE_AXIS_REF", "obj-this"),
    ("TYPEDEF_MEASUREMENT.conversion", "cm"),
    ("TYPEDEF_STRUCTURE.STRUCTURE_COMPONENT", "typedef"),
    ("INSTANCE.type_ref", "typedef"),
    ("FUNCTION.IN_MEASUREMENT", "obj"),
    ("FUNCTION.LOC_MEASUREMENT", "obj"),
    ("FUNCTION.OUT_MEASUREMENT", "obj"),
    ("FUNCTION.DEF_CHARACTERISTIC", "obj"),
    ("FUNCTION.REF_CHARACTERISTIC", "obj"),
    ("FUNCTION.SUB_FUNCTION", "function"),
    ("GROUP.REF_CHARACTERISTIC", "obj"),
    ("GROUP.REF_MEASUREMENT", "obj"),
    ("GROUP.FUNCTION_LIST", "function"),
    ("GROUP.SUB_GROUP", "group"),
    ("TRANSFORMER.inverse_transformer", "transformer"),
    ("TRANSFORMER.TRANSFORMER_IN_OBJECTS", "obj"),
    ("TRANSFORMER.TRANSFORMER_OUT_OBJECTS", "obj"),
];

/// positions inside an AXIS_DESCR beyond the number the characteristic type permits (built by base_module_surplus)
pub const SURPLUS_POSITIONS: &[(&str, &str)] = &[
    ("CHARACTERISTIC.SURPLUS_AXIS_DESCR.input_quantity", "obj-iq"),
    ("CHARACTERISTIC.SURPLUS_AXIS_DESCR.conversion", "cm"),
    ("CHARACTERISTIC.SURPLUS_AXIS_DESCR.AXIS_PTS_REF", "obj"),
    ("TYPEDEF_CHARACTERISTIC.SURPLUS_AXIS_DESCR.input_quantity", "obj-iq"),
    ("TYPEDEF_CHARACTERISTIC.SURPLUS_AXIS_DESCR.conversion", "cm"),
    ("TYPEDEF_CHARACTERISTIC.SURPLUS_AXIS_DESCR.AXIS_PTS_REF", "obj-this"),
];

/// alternative targets for a namespace class: (name, expected: None = no report, Some(n) = a report naming n)
fn alternatives(class: &str) -> Vec<(String, Option<String>)> {
    let missing = |n: &str| (n.to_string(), Some(n.to_string()));
    let ok = |n: &str| (n.to_string(), None);
    match class {
        "tab" => vec![missing("MISSING"), ok("VT"), ok("TAB"), missing("CM"), missing("NO_COMPU_METHOD")],
        "unit" => vec![missing("MISSING"), missing("CM")],
        "cm" => vec![missing("MISSING"), ok("NO_COMPU_METHOD"), missing("TAB"), missing("M")],
        "function" => vec![missing("MISSING"), ok("F2"), missing("G")],
        "memseg" => vec![missing("MISSING"), missing("M")],
        "rl" => vec![missing("MISSING"), missing("NO_COMPU_METHOD"), missing("CM")],
        "obj-iq" => vec![missing("MISSING"), ok("NO_INPUT_QUANTITY"), ok("AX"), ok("I"), missing("TM"), missing("CM")],
        // (outside a typedef used as a structure component the prefix THIS. has no meaning: an ordinary name, and there is no such object)
        "obj" => vec![missing("MISSING"), ok("AX"), ok("M"), ok("I"), missing("TM"), missing("NO_INPUT_QUANTITY"), missing("THIS.comp"), missing("THIS.nope")],
        // TC is used as a component of TS (which has components comp and tc) and not directly by an INSTANCE
        "obj-this" => vec![missing("MISSING"), ok("AX"), ok("THIS.comp"), ok("THIS.tc"), ("THIS.nope".to_string(), Some("nope".to_string())), ("THIS.onlyone".to_string(), Some("onlyone".to_string()))],
        "typedef" => vec![missing("MISSING"), ok("TA"), ok("TC"), missing("M")],
        "group" => vec![missing("MISSING"), missing("F")],
        "transformer" => vec![missing("MISSING"), ok("NO_INVERSE_TRANSFORMER"), ok("T"), missing("C2")],
        _ => vec![],
    }
}

/// the alternatives of a class plus the placeholder names of the other positions (NO_COMPU_METHOD is a placeholder only where a
/// conversion is expected, NO_INPUT_QUANTITY only for input quantities, NO_INVERSE_TRANSFORMER only for inverse transformers)
fn alternatives_all(class: &str) -> Vec<(String, Option<String>)> {
    let mut v = alternatives(class);
    for ph in ["NO_COMPU_METHOD", "NO_INPUT_QUANTITY", "NO_INVERSE_TRANSFORMER"] {
        if !v.iter().any(|(n, _)| n == ph) {
            v.push((ph.to_string(), Some(ph.to_string())));
        }
    }
    v
}

fn xref_targets(rep: &[A2lError]) -> (BTreeSet<String>, Vec<String>) {
    let mut t = BTreeSet::new();
    let mut other = Vec::new();
    for e in rep {
        match e {
            A2lError::CrossReferenceError { target_name, .. } => {
                t.insert(target_name.clone());
            }
            // a group that lost its only parent / gained a second one is a consequence of the corruption
            A2lError::GroupStructureError { .. } => {}
            // (the surplus family has one AXIS_DESCR too many on purpose)
            A2lError::ContentError { description, .. } if description.contains("AXIS_DESCR") && description.starts_with("Expected") => {}
            other_e => other.push(other_e.to_string()),
        }
    }
    (t, other)
}

pub fn run_check(text: &str) -> Result<Vec<A2lError>, String> {
    let f = match load(text, None, true) {
        Loaded::Ok(f, log) => {
            if !log.is_empty() {
                return Err(format!("machinery: generated module has warnings: {}", log[0]));
            }
            f
        }
        Loaded::Err(e) => return Err(format!("machinery: generated module does not load: {e}")),
        Loaded::Panic(p) => return Err(format!("panic: {p}")),
    };
    let before = format!("{f:?}");
    let rep = guard(|| f.check()).map_err(|p| format!("panic: {p}"))?;
    if format!("{f:?}") != before {
        return Err("modified: check() changed the model".into());
    }
    Ok(rep)
}

struct Case11 {
    label: String,
    pos: String,
    text: String,
    expect: Option<String>,
}

fn odd_structures(g: &Grammar) -> Vec<(String, String)> {
    let mut out = Vec::new();
    for ctype in ["VALUE", "VAL_BLK", "ASCII", "CURVE", "MAP", "CUBOID", "CUBE_4", "CUBE_5"] {
        for n in 0..8usize {
            for attr in ["STD_AXIS", "COM_AXIS", "FIX_AXIS", "CURVE_AXIS", "RES_AXIS"] {
                for tag in ["CHARACTERISTIC", "TYPEDEF_CHARACTERISTIC"] {
                    for rl_dims in [0usize, 2, 5] {
                        let mut rl = e("RECORD_LAYOUT", "RL", "c1").kid(ks("FNC_VALUES", &[("position", "1"), ("datatype", "UBYTE")]));
                        for (d, dn) in ["X", "Y", "Z", "4", "5"].iter().enumerate().take(rl_dims) {
                            rl = rl.kid(ks(&format!("AXIS_PTS_{dn}"), &[("position", &format!("{}", d + 2)), ("datatype", "SWORD")]));
                        }
                        let mut c = e(tag, "C", "c1").set("characteristic_type", ctype).set(if tag == "CHARACTERISTIC" { "deposit" } else { "record_layout" }, "RL");
                        for _ in 0..n {
                            c = c.kid(ks("AXIS_DESCR", &[("attribute", attr)]));
                        }
                        out.push((format!("{tag} {ctype} with {n} {attr} AXIS_DESCR, record layout with {rl_dims} axis dimensions"), file_text(g, "m", &[rl, c])));
                    }
                }
            }
        }
    }
    // duplicate names, empty lists, groups with odd structure, no MOD_PAR but REF_MEMORY_SEGMENT
    out.push(("duplicate names across kinds".into(), file_text(g, "m", &[e("MEASUREMENT", "X", "c1"), e("CHARACTERISTIC", "X", "c1"), e("MEASUREMENT", "X", "c2")])));
    // duplicate names within every repeatable named kind of the module (same and different content, adjacent and not)
    let module = g.get_elem("MODULE").expect("MODULE");
    for r in &module.refs {
        let Some(el) = g.get_elem(&r.tag) else { continue };
        if !r.repeat || !r.in_version(5) || !el.is_named() || r.tag == "IF_DATA" {
            continue;
        }
        let t = r.tag.as_str();
        out.push((format!("duplicate {t}: identical twice"), file_text(g, "m", &[e(t, "DUP", "c1"), e(t, "DUP", "c1")])));
        out.push((format!("duplicate {t}: different content"), file_text(g, "m", &[e(t, "DUP", "c1"), e(t, "DUP", "c2")])));
        out.push((format!("duplicate {t}: three, one other between"), file_text(g, "m", &[e(t, "DUP", "c1"), e(t, "OTHER", "c1"), e(t, "DUP", "c2"), e(t, "DUP", "c1")])));
    }
    out.push(("REF_MEMORY_SEGMENT without MOD_PAR".into(), file_text(g, "m", &[e("MEASUREMENT", "X", "c1").kid(ks("REF_MEMORY_SEGMENT", &[("name", "S")]))])));
    out.push(("empty lists".into(), file_text(g, "m", &[e("FUNCTION", "F", "c1").kid(kl("SUB_FUNCTION", &[])).kid(kl("IN_MEASUREMENT", &[])), e("GROUP", "G", "c1").kid(kl("SUB_GROUP", &[]))])));
    out.push(("group cycles".into(), file_text(g, "m", &[e("GROUP", "A", "c1").kid(kl("SUB_GROUP", &["B", "A"])), e("GROUP", "B", "c1").kid(kl("SUB_GROUP", &["A", "A", "NOPE"])).kid(k("ROOT"))])));
    out.push(("structure component cycle".into(), file_text(g, "m", &[e("TYPEDEF_STRUCTURE", "S", "c1").kid(ks("STRUCTURE_COMPONENT", &[("name", "c"), ("component_type", "S")])), e("INSTANCE", "I", "c1").set("type_ref", "S")])));
    out
}


// ------------------------------------------------------------------------------------------------
// models reached through the editing API: the report for a model that was edited through ItemList operations must be
// the report for the same model loaded from its own text (a state reached by a history of operations is compared with
// the same state reached from the initial state; no expected value is written by hand)

#[derive(Clone, Debug, PartialEq)]
pub enum EditOp {
    Pop,
    SwapRemove(usize),
    SwapRemoveIdx(usize),
    RetainNot(usize),
    Truncate(usize),
    Rename(usize),
    /// rename to the name the element already has
    RenameSame(usize),
    /// rename to the name of the element behind it and back
    RenameSwap(usize),
    Clear,
    SortDesc,
    PushBack,
}

impl EditOp {
    fn to_json(&self) -> Value {
        json!(format!("{self:?}"))
    }
    fn from_str(s: &str) -> Option<EditOp> {
        let num = |p: &str| s.strip_prefix(p).and_then(|r| r.trim_end_matches(')').parse::<usize>().ok());
        Some(match s {
            "Pop" => EditOp::Pop,
            "Clear" => EditOp::Clear,
            "SortDesc" => EditOp::SortDesc,
            "PushBack" => EditOp::PushBack,
            _ => {
                if let Some(n) = num("SwapRemove(") {
                    EditOp::SwapRemove(n)
                } else if let Some(n) = num("SwapRemoveIdx(") {
                    EditOp::SwapRemoveIdx(n)
                } else if let Some(n) = num("RetainNot(") {
                    EditOp::RetainNot(n)
                } else if let Some(n) = num("Truncate(") {
                    EditOp::Truncate(n)
                } else if let Some(n) = num("Rename(") {
                    EditOp::Rename(n)
                } else if let Some(n) = num("RenameSame(") {
                    EditOp::RenameSame(n)
                } else if let Some(n) = num("RenameSwap(") {
                    EditOp::RenameSwap(n)
                } else {
                    return None;
                }
            }
        })
    }
}

fn apply_ops<T: A2lObjectName + A2lObjectNameSetter + Clone>(l: &mut ItemList<T>, ops: &[EditOp]) {
    let mut stash: Option<T> = None;
    for op in ops {
        let name_at = |l: &ItemList<T>, i: usize| l.iter().nth(i).map(|x| x.get_name().to_string()).unwrap_or_else(|| "ABSENT_NAME".to_string());
        match op {
            EditOp::Pop => stash = l.pop().or(stash),
            EditOp::SwapRemove(i) => {
                let n = name_at(l, *i);
                stash = l.swap_remove(&n).or(stash);
            }
            EditOp::SwapRemoveIdx(i) => stash = l.swap_remove_idx(*i).or(stash),
            EditOp::RetainNot(i) => {
                let n = name_at(l, *i);
                l.retain(|x| x.get_name() != n);
            }
            EditOp::Truncate(k) => l.truncate(*k),
            EditOp::Rename(i) => {
                let n = format!("RENAMED_{}", name_at(l, *i));
                l.rename_item(*i, &n);
            }
            EditOp::RenameSame(i) => {
                let n = name_at(l, *i);
                l.rename_item(*i, &n);
            }
            EditOp::RenameSwap(i) => {
                // a -> tmp, b -> a's name, tmp -> b's name: the two elements exchange their names
                if *i + 1 < l.len() {
                    let (a, b) = (name_at(l, *i), name_at(l, *i + 1));
                    l.rename_item(*i, "TMP_SWAP");
                    l.rename_item(*i + 1, &a);
                    l.rename_item(*i, &b);
                }
            }
            EditOp::Clear => l.clear(),
            EditOp::SortDesc => l.sort_by(|a, b| b.get_name().cmp(a.get_name())),
            EditOp::PushBack => {
                if let Some(x) = stash.take() {
                    if !l.contains_key(x.get_name()) {
                        l.push(x);
                    }
                }
            }
        }
    }
}

pub const EDIT_LISTS: &[&str] = &[
    "axis_pts", "characteristic", "compu_method", "compu_tab", "compu_vtab", "compu_vtab_range", "function", "group", "instance", "measurement", "record_layout", "transformer",
    "typedef_axis", "typedef_characteristic", "typedef_measurement", "typedef_structure", "unit", "memory_segment",
];

fn list_len(f: &A2lFile, list: &str) -> usize {
    let m = &f.project.module[0];
    match list {
        "axis_pts" => m.axis_pts.len(),
        "characteristic" => m.characteristic.len(),
        "compu_method" => m.compu_method.len(),
        "compu_tab" => m.compu_tab.len(),
        "compu_vtab" => m.compu_vtab.len(),
        "compu_vtab_range" => m.compu_vtab_range.len(),
        "function" => m.function.len(),
        "group" => m.group.len(),
        "instance" => m.instance.len(),
        "measurement" => m.measurement.len(),
        "record_layout" => m.record_layout.len(),
        "transformer" => m.transformer.len(),
        "typedef_axis" => m.typedef_axis.len(),
        "typedef_characteristic" => m.typedef_characteristic.len(),
        "typedef_measurement" => m.typedef_measurement.len(),
        "typedef_structure" => m.typedef_structure.len(),
        "unit" => m.unit.len(),
        "memory_segment" => m.mod_par.as_ref().map(|p| p.memory_segment.len()).unwrap_or(0),
        _ => 0,
    }
}

fn edit_list(f: &mut A2lFile, list: &str, ops: &[EditOp]) {
    let m = &mut f.project.module[0];
    match list {
        "axis_pts" => apply_ops(&mut m.axis_pts, ops),
        "characteristic" => apply_ops(&mut m.characteristic, ops),
        "compu_method" => apply_ops(&mut m.compu_method, ops),
        "compu_tab" => apply_ops(&mut m.compu_tab, ops),
        "compu_vtab" => apply_ops(&mut m.compu_vtab, ops),
        "compu_vtab_range" => apply_ops(&mut m.compu_vtab_range, ops),
        "function" => apply_ops(&mut m.function, ops),
        "group" => apply_ops(&mut m.group, ops),
        "instance" => apply_ops(&mut m.instance, ops),
        "measurement" => apply_ops(&mut m.measurement, ops),
        "record_layout" => apply_ops(&mut m.record_layout, ops),
        "transformer" => apply_ops(&mut m.transformer, ops),
        "typedef_axis" => apply_ops(&mut m.typedef_axis, ops),
        "typedef_characteristic" => apply_ops(&mut m.typedef_characteristic, ops),
        "typedef_measurement" => apply_ops(&mut m.typedef_measurement, ops),
        "typedef_structure" => apply_ops(&mut m.typedef_structure, ops),
        "unit" => apply_ops(&mut m.unit, ops),
        "memory_segment" => {
            if let Some(p) = m.mod_par.as_mut() {
                apply_ops(&mut p.memory_segment, ops)
            }
        }
        _ => {}
    }
}

/// the entries of a report without line numbers, sorted
fn report_key(rep: &[A2lError]) -> Vec<String> {
    let mut v: Vec<String> = rep
        .iter()
        .map(|e| {
            let s = e.to_string();
            let mut out = String::new();
            let mut rest = s.as_str();
            while let Some(p) = rest.find("line ") {
                out.push_str(&rest[..p + 5]);
                rest = rest[p + 5..].trim_start_matches(|c: char| c.is_ascii_digit());
                out.push('N');
            }
            out.push_str(rest);
            out
        })
        .collect();
    v.sort();
    v
}

/// Ok((report of the edited model, number of entries)) when it agrees with the report of the reloaded text
pub fn run_edit_case(text: &str, list: &str, ops: &[EditOp]) -> Result<(usize, bool), String> {
    let mut f = match load(text, None, false) {
        Loaded::Ok(f, _) => f,
        _ => return Err("machinery: base module does not load".into()),
    };
    let before_rep = report_key(&guard(|| f.check()).map_err(|p| format!("panic: {p}"))?);
    guard(std::panic::AssertUnwindSafe(|| edit_list(&mut f, list, ops))).map_err(|p| format!("machinery: edit panics (C13 matter): {p}"))?;
    let dbg = format!("{f:?}");
    let rep = guard(|| f.check()).map_err(|p| format!("panic: {p}"))?;
    if format!("{f:?}") != dbg {
        return Err("modified: check() changed the model".into());
    }
    let out = write(&f).map_err(|p| format!("machinery: write panics: {p}"))?;
    let g2 = match load(&out, None, false) {
        Loaded::Ok(g2, _) => g2,
        _ => return Err("machinery: edited model does not reload".into()),
    };
    let rep2 = guard(|| g2.check()).map_err(|p| format!("panic on the reloaded model: {p}"))?;
    let (a, b) = (report_key(&rep), report_key(&rep2));
    if a != b {
        let only_a: Vec<&String> = a.iter().filter(|x| !b.contains(x)).collect();
        let only_b: Vec<&String> = b.iter().filter(|x| !a.contains(x)).collect();
        return Err(format!("differs: report of the edited model and of the same model loaded from its text differ; only edited: {only_a:?}; only reloaded: {only_b:?}"));
    }
    Ok((a.len(), a != before_rep))
}

/// all operation sequences of length <= depth over the alphabet for a list of n elements
fn edit_sequences(n: usize, depth: usize) -> Vec<Vec<EditOp>> {
    let mut alpha = vec![EditOp::Pop, EditOp::Clear, EditOp::SortDesc, EditOp::PushBack];
    for i in 0..=n {
        alpha.push(EditOp::SwapRemove(i));
        alpha.push(EditOp::SwapRemoveIdx(i));
        alpha.push(EditOp::RetainNot(i));
        alpha.push(EditOp::Truncate(i));
        alpha.push(EditOp::Rename(i));
        alpha.push(EditOp::RenameSame(i));
        alpha.push(EditOp::RenameSwap(i));
    }
    let mut out: Vec<Vec<EditOp>> = vec![];
    let mut frontier: Vec<Vec<EditOp>> = vec![vec![]];
    for _ in 0..depth {
        let mut next = vec![];
        for s in &frontier {
            for a in &alpha {
                if s.is_empty() && *a == EditOp::PushBack {
                    continue;
                }
                let mut t = s.clone();
                t.push(a.clone());
                next.push(t);
            }
        }
        out.extend(next.iter().cloned());
        frontier = next;
    }
    out
}

pub fn run(tier: &str) -> Run {
    let mut run = Run::new("C11", tier);
    let thorough = tier == "thorough";
    let g = corpus::grammar();
    // base
    let base = base_module(&g, &|_, d| d.to_string());
    match run_check(&base) {
        Ok(rep) if rep.is_empty() => run.outcome("base module: empty report"),
        Ok(rep) => {
            run.violation("C11/false-positive/base", format!("fully consistent module is reported: {}", rep.iter().map(|e| e.to_string()).collect::<Vec<_>>().join(" || ")), json!({"text": base, "expect": Value::Null}));
        }
        Err(e) => run.machinery(format!("base module: {e}")),
    }
    run.evaluations += 1;
    run.sample(json!({"label": "consistent base module", "text": short(&base, 1500)}));
    let mut cases = Vec::new();
    for (pos, class) in POSITIONS {
        for (alt, expect) in alternatives_all(class) {
            let p = pos.to_string();
            let a = alt.clone();
            let text = base_module(&g, &move |id, d| if id == p { a.clone() } else { d.to_string() });
            cases.push(Case11 { label: format!("{pos} -> {alt}"), pos: pos.to_string(), text, expect });
        }
    }
    for (pos, class) in SURPLUS_POSITIONS {
        for (alt, expect) in alternatives_all(class) {
            let p = pos.to_string();
            let a = alt.clone();
            let text = base_module_surplus(&g, &move |id, d| if id == p { a.clone() } else { d.to_string() });
            cases.push(Case11 { label: format!("{pos} -> {alt}"), pos: pos.to_string(), text, expect });
        }
    }
    // a dangling AXIS_PTS_REF under every axis kind (the reference is examined whatever the kind says about its use)
    for attr in ["STD_AXIS", "FIX_AXIS", "COM_AXIS", "RES_AXIS", "CURVE_AXIS"] {
        for pos in ["CHARACTERISTIC.AXIS_DESCR.AXIS_PTS_REF", "TYPEDEF_CHARACTERISTIC.AXIS_DESCR.AXIS_PTS_REF", "CHARACTERISTIC.AXIS_DESCR.input_quantity", "CHARACTERISTIC.AXIS_DESCR.conversion"] {
            AXIS_ATTR.with(|a| a.set(attr));
            let p = pos.to_string();
            let text = base_module(&g, &move |id, d| if id == p { "MISSING".to_string() } else { d.to_string() });
            AXIS_ATTR.with(|a| a.set("COM_AXIS"));
            cases.push(Case11 { label: format!("{pos} -> MISSING with axis kind {attr}"), pos: format!("{pos}[{attr}]"), text, expect: Some("MISSING".into()) });
        }
    }
    {
        let text = base_module_surplus(&g, &|_, d| d.to_string());
        cases.push(Case11 { label: "base module with a surplus AXIS_DESCR".into(), pos: "surplus-base".into(), text, expect: None });
    }
    // every case again inside a project with a second, consistent module (in front of and behind the module under test) that
    // uses the same names and instantiates the typedef TC directly: nothing may leak from one module into another
    {
        let other = {
            let a = base.find("/begin MODULE").unwrap_or(0);
            let b = base.rfind("/end MODULE").map(|x| x + "/end MODULE".len()).unwrap_or(base.len());
            base[a..b].replacen("/begin MODULE m ", "/begin MODULE other ", 1).replacen("/end MODULE", "/begin INSTANCE IX \"\" TC 0x0 /end INSTANCE\n  /end MODULE", 1)
        };
        let n0 = cases.len();
        for i in 0..n0 {
            let t = &cases[i].text;
            let (Some(a), Some(b)) = (t.find("/begin MODULE"), t.rfind("/end MODULE")) else { continue };
            let b = b + "/end MODULE".len();
            let before = format!("{}{}\n  {}{}", &t[..a], other, &t[a..b], &t[b..]);
            let after = format!("{}{}\n  {}{}", &t[..a], &t[a..b], other, &t[b..]);
            cases.push(Case11 { label: format!("{} [second module in front]", cases[i].label), pos: format!("{}+module-before", cases[i].pos), text: before, expect: cases[i].expect.clone() });
            cases.push(Case11 { label: format!("{} [second module behind]", cases[i].label), pos: format!("{}+module-after", cases[i].pos), text: after, expect: cases[i].expect.clone() });
        }
    }
    // consistent characteristics over every assignment of axis kinds: the record layout describes exactly the dimensions whose
    // AXIS_DESCR is a STD_AXIS, each dimension with a datatype of its own, and the limits of every STD_AXIS description use the
    // full range of its own dimension (so pairing a description with another dimension shows as a limit or content report);
    // COM_AXIS / RES_AXIS refer to an AXIS_PTS, CURVE_AXIS to a curve. The report must be empty.
    {
        let dims = [("X", "UBYTE", "255"), ("Y", "UWORD", "65535"), ("Z", "ULONG", "4294967295"), ("4", "FLOAT32_IEEE", "3e38"), ("5", "FLOAT64_IEEE", "1e300")];
        let kinds = ["STD_AXIS", "COM_AXIS", "FIX_AXIS", "CURVE_AXIS", "RES_AXIS"];
        for (ctype, n) in [("CURVE", 1usize), ("MAP", 2), ("CUBOID", 3), ("CUBE_4", 4), ("CUBE_5", 5)] {
            for code in 0..5usize.pow(n as u32) {
                // (five axes: every assignment with at most two kinds other than the first one's, to keep the family small in quick)
                let attrs: Vec<&str> = (0..n).map(|i| kinds[(code / 5usize.pow(i as u32)) % 5]).collect();
                if n == 5 && !thorough && attrs.iter().collect::<BTreeSet<_>>().len() > 2 {
                    continue;
                }
                for tag in ["CHARACTERISTIC", "TYPEDEF_CHARACTERISTIC"] {
                    let mut rl = e("RECORD_LAYOUT", "RLA", "c1").kid(ks("FNC_VALUES", &[("position", "1"), ("datatype", "FLOAT64_IEEE")]));
                    let mut c = e(tag, "CA", "c1").set("characteristic_type", ctype).set(if tag == "CHARACTERISTIC" { "deposit" } else { "record_layout" }, "RLA").set("conversion", "NO_COMPU_METHOD").set("lower_limit", "0").set("upper_limit", "1");
                    for (i, a) in attrs.iter().enumerate() {
                        let (dn, dt, max) = dims[i];
                        let mut k = ks("AXIS_DESCR", &[("attribute", a), ("input_quantity", "M"), ("conversion", "NO_COMPU_METHOD"), ("lower_limit", "0"), ("upper_limit", if *a == "STD_AXIS" { max } else { "1" })]);
                        match *a {
                            "STD_AXIS" => rl = rl.kid(ks(&format!("AXIS_PTS_{dn}"), &[("position", &format!("{}", i + 2)), ("datatype", dt)])),
                            "COM_AXIS" | "RES_AXIS" => k = k.with(ks("AXIS_PTS_REF", &[("axis_points", "AX")])),
                            "CURVE_AXIS" => k = k.with(ks("CURVE_AXIS_REF", &[("curve_axis", "CV")])),
                            _ => {}
                        }
                        c = c.kid(k);
                    }
                    let rlx = e("RECORD_LAYOUT", "RLX", "c1").kid(ks("FNC_VALUES", &[("position", "1"), ("datatype", "FLOAT64_IEEE")])).kid(ks("AXIS_PTS_X", &[("position", "2"), ("datatype", "FLOAT64_IEEE")]));
                    let m = e("MEASUREMENT", "M", "c1").set("datatype", "FLOAT64_IEEE").set("conversion", "NO_COMPU_METHOD").set("lower_limit", "0").set("upper_limit", "1");
                    let ax = e("AXIS_PTS", "AX", "c1").set("input_quantity", "M").set("deposit_record", "RLX").set("conversion", "NO_COMPU_METHOD").set("lower_limit", "0").set("upper_limit", "1");
                    let cv = e("CHARACTERISTIC", "CV", "c1").set("characteristic_type", "CURVE").set("deposit", "RLX").set("conversion", "NO_COMPU_METHOD").set("lower_limit", "0").set("upper_limit", "1").kid(ks("AXIS_DESCR", &[("attribute", "STD_AXIS"), ("input_quantity", "M"), ("conversion", "NO_COMPU_METHOD"), ("lower_limit", "0"), ("upper_limit", "1")]));
                    let text = file_text(&g, "m", &[rl, rlx, m, ax, cv, c]);
                    cases.push(Case11 { label: format!("consistent {tag} {ctype} with axes {attrs:?} and a record layout describing exactly the STD_AXIS dimensions"), pos: format!("axis-layout/{tag}/{ctype}"), text, expect: None });
                }
            }
        }
    }
    if thorough {
        // pairs of corruptions: both missing targets must be named
        for (i, (p1, _)) in POSITIONS.iter().enumerate() {
            for (p2, _) in POSITIONS.iter().skip(i + 1) {
                let (a, b) = (p1.to_string(), p2.to_string());
                let text = base_module(&g, &move |id, d| if id == a { "MISSING1".into() } else if id == b { "MISSING2".into() } else { d.to_string() });
                cases.push(Case11 { label: format!("{p1} -> MISSING1, {p2} -> MISSING2"), pos: format!("{p1}+{p2}"), text, expect: Some("MISSING1+MISSING2".into()) });
            }
        }
    }
    let res = par_map(cases.len(), &|i| run_check(&cases[i].text), &|i| {
        println!("MACHINERY-ERROR: C11 case hangs: {}", cases[i].label);
        std::process::exit(2);
    });
    for (i, r) in res.into_iter().enumerate() {
        run.evaluations += 1;
        run.transitions += 2;
        let h = fnv1a(cases[i].text.as_bytes());
        run.states.insert(h);
        run.nontrivial.insert(h);
        match r {
            Err(m) if m.starts_with("machinery") => run.machinery(format!("{}: {m}", cases[i].label)),
            Err(p) => run.violation(format!("C11/{}", if p.starts_with("panic") { format!("panic {}", vcore::explore::panic_key(p.trim_start_matches("panic: "))) } else { "model-modified".into() }), format!("{}: {p}", cases[i].label), json!({"text": cases[i].text})),
            Ok(rep) => {
                let (targets, other) = xref_targets(&rep);
                let want: BTreeSet<String> = cases[i].expect.iter().flat_map(|s| s.split('+').map(|x| x.to_string())).collect();
                if targets != want {
                    let kind = if want.is_empty() { "false-positive" } else if targets.is_empty() { "missed" } else { "wrong-target" };
                    run.violation(format!("C11/{kind}/{}", cases[i].pos), format!("{}: cross-reference report names {:?}, expected {:?}", cases[i].label, targets, want), json!({"text": cases[i].text, "expect": cases[i].expect}));
                    run.outcome("verdict wrong");
                } else if !other.is_empty() && want.is_empty() {
                    run.violation(format!("C11/false-positive-other/{}", cases[i].pos), format!("{}: unexpected report: {}", cases[i].label, other.join(" || ")), json!({"text": cases[i].text, "expect": cases[i].expect}));
                } else {
                    run.outcome(if want.is_empty() { "resolving target: no report" } else { "missing target: named" });
                }
            }
        }
    }
    // editing histories: all operation sequences up to the depth on every list check() indexes, on the base module and on
    // the base module with one more element per list
    {
        let depth = if thorough { 3 } else { 2 };
        let bases = [("base", base.clone()), ("base+extras", base_module_ex(&g, &|_, d| d.to_string(), true))];
        let mut ecases: Vec<(usize, &str, Vec<EditOp>)> = Vec::new();
        for (bi, (_, text)) in bases.iter().enumerate() {
            let Loaded::Ok(f, _) = load(text, None, false) else {
                run.machinery("editing histories: base does not load");
                continue;
            };
            for list in EDIT_LISTS {
                let n = list_len(&f, list);
                for ops in edit_sequences(n, depth) {
                    ecases.push((bi, list, ops));
                }
            }
        }
        let eres = par_map(ecases.len(), &|i| run_edit_case(&bases[ecases[i].0].1, ecases[i].1, &ecases[i].2), &|i| {
            println!("MACHINERY-ERROR: C11 editing history hangs: {} {:?}", ecases[i].1, ecases[i].2);
            std::process::exit(2);
        });
        for (i, r) in eres.into_iter().enumerate() {
            let (bi, list, ops) = &ecases[i];
            run.evaluations += 1;
            run.transitions += 4 + ops.len() as u64;
            let label = format!("{} {list}: {ops:?}", bases[*bi].0);
            let h = fnv1a(label.as_bytes());
            run.states.insert(h);
            let rj = json!({"text": bases[*bi].1, "edit": {"list": list, "ops": ops.iter().map(|o| o.to_json()).collect::<Vec<_>>()}});
            match r {
                Ok((_, changed)) => {
                    if changed {
                        run.nontrivial.insert(h);
                        run.outcome("editing history: report changed, equal to the report of the reloaded model");
                    } else {
                        run.outcome("editing history: report unchanged, equal to the report of the reloaded model");
                    }
                    if i % 9973 == 0 {
                        run.sample(json!({"label": label}));
                    }
                }
                Err(m) if m.starts_with("machinery") => run.outcome("editing history: skipped (edit or write panics: ItemList matter, C13)"),
                Err(p) => {
                    let kind = if p.starts_with("panic") { format!("panic {}", vcore::explore::panic_key(p.trim_start_matches("panic: ").trim_start_matches("panic on the reloaded model: "))) } else if p.starts_with("modified") { "model-modified".into() } else { "edited-vs-reloaded".into() };
                    run.violation(format!("C11/{kind}/edit/{list}/{}", ops.iter().map(|o| format!("{o:?}").split('(').next().unwrap().to_string()).collect::<Vec<_>>().join("+")), format!("{label}: {p}"), rj);
                }
            }
        }
        run.require("editing history: report changed, equal to the report of the reloaded model", 1000);
    }
    // totality on structurally odd files and on every corpus document
    let mut odd = odd_structures(&g);
    let mut docs = corpus::carriers(&g);
    docs.extend(corpus::opt_docs(&g, 1));
    docs.extend(corpus::rich_docs(&g));
    if thorough {
        docs.extend(corpus::opt_pair_docs(&g, None));
        docs.extend(corpus::enum_docs(&g));
    }
    for d in docs {
        odd.push((d.label.clone(), d.doc.text()));
    }
    for c in crate::c10::build(&g, false).into_iter().step_by(if thorough { 1 } else { 23 }) {
        odd.push((c.label, c.text));
    }
    let tres = par_map(
        odd.len(),
        &|i| match load(&odd[i].1, None, false) {
            Loaded::Ok(f, _) => {
                let before = format!("{f:?}");
                match guard(|| f.check()) {
                    Err(p) => Err(format!("panic: {p}")),
                    Ok(rep) => {
                        if format!("{f:?}") != before {
                            Err("modified".to_string())
                        } else {
                            Ok(rep.len())
                        }
                    }
                }
            }
            _ => Ok(usize::MAX),
        },
        &|i| {
            println!("MACHINERY-ERROR: C11 totality case hangs: {}", odd[i].0);
            std::process::exit(2);
        },
    );
    // totality on models edited through the API: every document above with every scalar field of every element overwritten
    // (all references dangle, numbers and enum items change), in the four integer value modes
    {
        let n = odd.len();
        let eres = par_map(
            n * 2,
            &|j| {
                let Loaded::Ok(mut f, _) = load(&odd[j / 2].1, None, false) else { return Ok(false) };
                crate::gen_builders::set_mode(if j % 2 == 0 { 0 } else { 3 });
                let mut k = 8000u32;
                let r = guard(std::panic::AssertUnwindSafe(|| crate::gen_builders::mutate_Project(&mut f.project, &mut k)));
                crate::gen_builders::set_mode(0);
                if r.is_err() {
                    return Ok(false);
                }
                let before = format!("{f:?}");
                match guard(|| f.check()) {
                    Err(p) => Err(format!("panic: {p}")),
                    Ok(_) if format!("{f:?}") != before => Err("modified".to_string()),
                    Ok(_) => Ok(true),
                }
            },
            &|j| {
                println!("MACHINERY-ERROR: C11 edited-model totality case hangs: {}", odd[j / 2].0);
                std::process::exit(2);
            },
        );
        for (j, r) in eres.into_iter().enumerate() {
            run.evaluations += 1;
            run.transitions += 2;
            match r {
                Ok(true) => run.outcome("totality on edited models: report returned"),
                Ok(false) => run.outcome("totality on edited models: not applicable"),
                Err(p) => {
                    let key = if p.starts_with("panic") { format!("C11/panic {}", vcore::explore::panic_key(p.trim_start_matches("panic: "))) } else { "C11/model-modified".to_string() };
                    run.violation(key, format!("{} with every field edited: {p}", odd[j / 2].0), json!({"text": odd[j / 2].1, "totality": true, "edited_mode": if j % 2 == 0 { 0 } else { 3 }}));
                }
            }
        }
    }
    for (i, r) in tres.into_iter().enumerate() {
        run.evaluations += 1;
        run.transitions += 2;
        run.states.insert(fnv1a(odd[i].1.as_bytes()));
        match r {
            Ok(usize::MAX) => run.outcome("totality: document not loadable (skipped)"),
            Ok(0) => run.outcome("totality: empty report"),
            Ok(_) => run.outcome("totality: report returned"),
            Err(p) => {
                let key = if p.starts_with("panic") { format!("C11/panic {}", vcore::explore::panic_key(p.trim_start_matches("panic: "))) } else { "C11/model-modified".to_string() };
                run.violation(key, format!("{}: {p}", odd[i].0), json!({"text": odd[i].1, "totality": true}));
            }
        }
    }
    run.require("resolving target: no report", 50);
    run.require("missing target: named", 50);
    run.require("totality: report returned", 500);
    run.rule = "one fully consistent module with every position check() covers populated (its report must be empty) x for each of the 48 covered positions every alternative target of its namespace class (missing, another kind of the same namespace, the special constants, THIS.<component> valid / invalid, a name from another namespace); thorough: all pairs of corruptions. Oracle: the set of target names of CrossReferenceErrors equals the set of names made missing. Editing histories: all sequences of <= 2 (thorough 3) ItemList operations (pop, swap_remove by name / index, retain, truncate, rename_item, clear, sort_by, push of the removed element) on each of the 18 lists check() indexes, on the base module and on the base module with one more element per list; oracle: check() does not panic, leaves the model untouched and returns the report of the same model loaded from its own text (modulo line numbers). Totality: 8 characteristic types x 0..7 AXIS_DESCR x 5 axis kinds x 3 record layouts for CHARACTERISTIC and TYPEDEF_CHARACTERISTIC, odd structures (duplicate names within every repeatable named kind of the module, cycles, empty lists, missing MOD_PAR), every corpus document and the C10 modules: check() returns and leaves the model untouched.".into();
    run
}

pub fn replay(v: &Value) -> Result<String, String> {
    let text = v["text"].as_str().ok_or("no text")?;
    if let Some(ed) = v.get("edit") {
        let list = ed["list"].as_str().ok_or("no list")?;
        let ops: Vec<EditOp> = ed["ops"].as_array().ok_or("no ops")?.iter().filter_map(|o| o.as_str().and_then(EditOp::from_str)).collect();
        return run_edit_case(text, list, &ops).map(|(n, _)| format!("{n} entries, equal to the reloaded model's"));
    }
    if v["totality"].as_bool().unwrap_or(false) {
        return match load(text, None, false) {
            Loaded::Ok(mut f, _) => {
                if let Some(m) = v.get("edited_mode").and_then(|m| m.as_u64()) {
                    crate::gen_builders::set_mode(m as u8);
                    let mut k = 8000u32;
                    crate::gen_builders::mutate_Project(&mut f.project, &mut k);
                    crate::gen_builders::set_mode(0);
                }
                guard(|| f.check()).map(|r| format!("{} entries", r.len()))
            }
            _ => Ok("not loadable".into()),
        };
    }
    let rep = run_check(text)?;
    let (targets, _) = xref_targets(&rep);
    let want: BTreeSet<String> = v["expect"].as_str().iter().flat_map(|s| s.split('+').map(|x| x.to_string())).collect();
    if targets == want {
        Ok(format!("report names {targets:?}"))
    } else {
        Err(format!("report names {targets:?}, expected {want:?}"))
    }
}
