//! Operation histories on the model (C01: "built and edited through the public API", "any number of cycles"):
//! all sequences up to a depth over {push kind, remove, edit, sort, sort_new_items, cleanup, ifdata_cleanup,
//! merge_includes, merge_modules with partner j, reload}, from several start files; the state reached by every
//! sequence is judged by the save/reload oracle of C01.

use crate::c01::{roundtrip_model, RT};
use crate::corpus;
use crate::util::*;
use a2lfile::{A2lFile, A2lObject};
use vcore::explore::guard;
use vcore::grammar::Grammar;

#[derive(Debug, Clone, Copy, PartialEq, Eq)]
pub enum HAct {
    Push(usize),
    RemoveFirst(usize),
    RemoveLast(usize),
    Edit(usize),
    Sort,
    SortNew,
    Cleanup,
    IfdataCleanup,
    MergeIncludes,
    Merge(usize),
    Reload,
}

pub const HKINDS: [&str; 8] = ["MEASUREMENT", "CHARACTERISTIC", "COMPU_METHOD", "COMPU_VTAB", "GROUP", "FUNCTION", "UNIT", "INSTANCE"];
pub const N_PARTNERS: usize = 4;

pub fn act_name(a: &HAct) -> String {
    match a {
        HAct::Push(k) => format!("push {}", HKINDS[*k]),
        HAct::RemoveFirst(k) => format!("remove-first {}", HKINDS[*k]),
        HAct::RemoveLast(k) => format!("remove-last {}", HKINDS[*k]),
        HAct::Edit(k) => format!("edit {}", HKINDS[*k]),
        HAct::Sort => "sort".into(),
        HAct::SortNew => "sort_new_items".into(),
        HAct::Cleanup => "cleanup".into(),
        HAct::IfdataCleanup => "ifdata_cleanup".into(),
        HAct::MergeIncludes => "merge_includes".into(),
        HAct::Merge(j) => format!("merge {j}"),
        HAct::Reload => "reload".into(),
    }
}

pub fn act_from(s: &str) -> Option<HAct> {
    all_actions().into_iter().find(|a| act_name(a) == s)
}

pub fn all_actions() -> Vec<HAct> {
    let mut v = vec![HAct::Sort, HAct::SortNew, HAct::Cleanup, HAct::IfdataCleanup, HAct::MergeIncludes, HAct::Reload];
    for j in 0..N_PARTNERS {
        v.push(HAct::Merge(j));
    }
    for k in 0..HKINDS.len() {
        v.push(HAct::Push(k));
    }
    for k in [0usize, 2, 4, 5] {
        v.push(HAct::RemoveFirst(k));
        v.push(HAct::RemoveLast(k));
        v.push(HAct::Edit(k));
    }
    v
}

/// start files and merge partners
pub struct HWorld {
    pub starts: Vec<(String, String)>,
    pub partners: Vec<String>,
}

pub fn world(g: &Grammar) -> HWorld {
    let rich: Vec<String> = corpus::rich_docs(g).iter().map(|d| d.doc.text()).collect();
    let mut starts: Vec<(String, String)> = rich.iter().enumerate().map(|(i, t)| (format!("rich({i})"), t.clone())).collect();
    starts.push(("new()".into(), a2lfile::new().write_to_string()));
    // partners: two other rich documents, the same document (identical twin), the same names with other content
    let conflicting = rich[0].replace("\"s_", "\"t_");
    let partners = vec![rich[1].clone(), rich[3].clone(), rich[0].clone(), conflicting];
    HWorld { starts, partners }
}

fn remove_at(f: &mut A2lFile, kind: &str, first: bool) {
    let m = &mut f.project.module[0];
    macro_rules! rm {
        ($l:expr) => {{
            if first {
                $l.swap_remove_idx(0);
            } else {
                $l.pop();
            }
        }};
    }
    match kind {
        "MEASUREMENT" => rm!(m.measurement),
        "CHARACTERISTIC" => rm!(m.characteristic),
        "COMPU_METHOD" => rm!(m.compu_method),
        "COMPU_VTAB" => rm!(m.compu_vtab),
        "GROUP" => rm!(m.group),
        "FUNCTION" => rm!(m.function),
        "UNIT" => rm!(m.unit),
        "INSTANCE" => rm!(m.instance),
        _ => {}
    }
}

fn edit_first(f: &mut A2lFile, kind: &str, n: u32) {
    let m = &mut f.project.module[0];
    let txt = format!("edited {n} \"quoted\" \\ text");
    match kind {
        "MEASUREMENT" => {
            if let Some(x) = m.measurement.iter_mut().next() {
                x.long_identifier = txt;
                x.upper_limit = 1e-20 * n as f64;
            }
        }
        "COMPU_METHOD" => {
            if let Some(x) = m.compu_method.iter_mut().next() {
                x.long_identifier = txt;
            }
        }
        "GROUP" => {
            if let Some(x) = m.group.iter_mut().next() {
                x.long_identifier = txt;
            }
        }
        "FUNCTION" => {
            if let Some(x) = m.function.iter_mut().next() {
                x.long_identifier = txt;
            }
        }
        _ => {}
    }
}

/// run a history from a start text; Err = (step index, oracle, what) for a panic inside an operation
pub fn run_history(w: &HWorld, start: usize, hist: &[HAct]) -> Result<A2lFile, (usize, &'static str, String)> {
    let Loaded::Ok(mut f, _) = load(&w.starts[start].1, None, false) else {
        return Err((0, "machinery", "start file does not load".into()));
    };
    let mut k = 6000u32;
    for (i, a) in hist.iter().enumerate() {
        let r = guard(std::panic::AssertUnwindSafe(|| {
            match a {
                HAct::Push(kk) => {
                    crate::gen_builders::push_module_item(&mut f, HKINDS[*kk], &mut k, 1);
                }
                HAct::RemoveFirst(kk) => remove_at(&mut f, HKINDS[*kk], true),
                HAct::RemoveLast(kk) => remove_at(&mut f, HKINDS[*kk], false),
                HAct::Edit(kk) => edit_first(&mut f, HKINDS[*kk], i as u32 + 1),
                HAct::Sort => f.sort(),
                HAct::SortNew => f.sort_new_items(),
                HAct::Cleanup => f.cleanup(),
                HAct::IfdataCleanup => f.ifdata_cleanup(),
                HAct::MergeIncludes => f.merge_includes(),
                HAct::Merge(j) => {
                    if let Ok((mut other, _)) = a2lfile::load_from_string(&w.partners[*j], None, false) {
                        f.merge_modules(&mut other);
                    }
                }
                HAct::Reload => {
                    let t = f.write_to_string();
                    if let Ok((g2, _)) = a2lfile::load_from_string(&t, None, false) {
                        f = g2;
                    }
                }
            };
        }));
        if let Err(p) = r {
            return Err((i, "panic-operation", p));
        }
    }
    Ok(f)
}

/// operations named by C01's quantifier ("built via new() / T::new() / push and field edits", loaded from text): the
/// reloaded model must be equal including list order. Histories with other operations (removal by swap, merge, sort,
/// cleanup) may leave the in-memory list order different from the output order (the writer follows the position keys,
/// `swap_remove` and merge do not maintain them): for those the models are compared after `sort()` on both sides.
fn order_defined(hist: &[HAct]) -> bool {
    hist.iter().all(|a| matches!(a, HAct::Push(_) | HAct::Edit(_) | HAct::Reload | HAct::SortNew | HAct::IfdataCleanup | HAct::MergeIncludes))
}

pub fn judge(w: &HWorld, start: usize, hist: &[HAct]) -> RT {
    match run_history(w, start, hist) {
        Err((_, "machinery", _)) => RT::NotAccepted,
        Err((i, o, p)) => RT::Viol { oracle: o, what: format!("operation {} ({}) panics: {p}", i + 1, act_name(&hist[i])) },
        Ok(f) => {
            if let Err(w) = crate::c08::index_coherent(&f) {
                return RT::Viol { oracle: "name-index-incoherent", what: w };
            }
            if order_defined(hist) {
                roundtrip_model(&f)
            } else {
                roundtrip_modulo_order(&f)
            }
        }
    }
}

/// the save / reload oracle for models whose in-memory list order need not be the output order (after merge, swap_remove,
/// sort): a difference that disappears when both sides are sorted, with a text that is a fixpoint, is accepted
pub fn roundtrip_modulo_order(f: &A2lFile) -> RT {
    match roundtrip_model(f) {
        RT::Viol { oracle: "model-differs", what } => {
            let r = guard(|| {
                let t1 = f.write_to_string();
                let (mut m1, _) = a2lfile::load_from_string(&t1, None, true).map_err(|e| e.to_string())?;
                let mut m0 = f.clone();
                m0.sort();
                m1.sort();
                if m0 != m1 {
                    return Ok::<_, String>(None);
                }
                let t2 = m1.write_to_string();
                let (m2, _) = a2lfile::load_from_string(&t2, None, true).map_err(|e| e.to_string())?;
                Ok(if m2.write_to_string() == t2 { Some(t1.len()) } else { None })
            });
            match r {
                Ok(Ok(Some(n))) => RT::Ok { bytes_t1: n },
                _ => RT::Viol { oracle: "model-differs", what },
            }
        }
        other => other,
    }
}

/// all sequences of length 1..=depth
pub fn sequences(depth: usize) -> Vec<Vec<HAct>> {
    let alpha = all_actions();
    let mut out: Vec<Vec<HAct>> = Vec::new();
    let mut frontier: Vec<Vec<HAct>> = vec![vec![]];
    for _ in 0..depth {
        let mut next = Vec::new();
        for s in &frontier {
            for a in &alpha {
                let mut t = s.clone();
                t.push(*a);
                next.push(t);
            }
        }
        out.extend(next.iter().cloned());
        frontier = next;
    }
    out
}
