//! helpers shared by the vmain checks

use a2lfile::{A2lError, A2lFile};
use vcore::explore::guard;

pub type LoadOk = (A2lFile, Vec<A2lError>);

/// load a string under catch_unwind. Err(Err(panic)) / Err(Ok(load error text))
pub enum Loaded {
    Ok(A2lFile, Vec<A2lError>),
    Err(A2lError),
    Panic(String),
}

pub fn load(text: &str, spec: Option<&str>, strict: bool) -> Loaded {
    match guard(|| a2lfile::load_from_string(text, spec.map(|s| s.to_string()), strict)) {
        Ok(Ok((f, log))) => Loaded::Ok(f, log),
        Ok(Err(e)) => Loaded::Err(e),
        Err(p) => Loaded::Panic(p),
    }
}

pub fn write(f: &A2lFile) -> Result<String, String> {
    guard(|| f.write_to_string())
}

/// float literal that parses back to exactly `v`
pub fn flt(v: f64) -> String {
    if v == 0.0 {
        "0".to_string()
    } else {
        format!("{v:e}")
    }
}

/// name of the variant of an A2lError / ParserError, from its Debug form
pub fn variant_of(e: &A2lError) -> String {
    let d = format!("{e:?}");
    // "ParserError { parser_error: UnknownSubBlock { .." -> "ParserError/UnknownSubBlock"
    let outer = d.split(|c: char| !c.is_alphanumeric() && c != '_').next().unwrap_or("").to_string();
    if outer == "ParserError" || outer == "TokenizerError" {
        if let Some(pos) = d.find("_error: ") {
            let inner = &d[pos + 8..];
            let iv: String = inner.chars().take_while(|c| c.is_alphanumeric() || *c == '_').collect();
            return format!("{outer}/{iv}");
        }
    }
    outer
}

pub fn short(s: &str, n: usize) -> String {
    if s.chars().count() <= n {
        s.to_string()
    } else {
        let t: String = s.chars().take(n).collect();
        format!("{t}…")
    }
}

/// the checks whose widest enumeration takes seconds run it in both tiers; `deep` marks what only the thorough tier adds
pub fn wide(_tier: &str) -> bool {
    true
}

pub fn deep(tier: &str) -> bool {
    tier == "thorough"
}
