//! relational oracle for merge (C08 conservation, C09 reference structure) on module snapshots

use std::collections::{BTreeMap, BTreeSet};
use vcore::dbgtree::DVal;
use vcore::refsites::*;

#[derive(Debug, Clone)]
pub struct MV {
    /// "conservation" (C08) or "reference" (C09)
    pub category: &'static str,
    pub oracle: &'static str,
    /// site or namespace/kind detail for the key
    pub detail: String,
    pub what: String,
}

fn is_merge_name(base: &str, cand: &str) -> bool {
    if let Some(rest) = cand.strip_prefix(base) {
        if let Some(num) = rest.strip_prefix(".MERGE") {
            return num.is_empty() || num.chars().all(|c| c.is_ascii_digit());
        }
    }
    false
}

/// rewrite reference targets in a tree
pub fn map_refs(top: &str, d: &DVal, f: &dyn Fn(Ns, &str) -> String) -> DVal {
    match d {
        DVal::Struct { name, fields } => DVal::Struct {
            name: name.clone(),
            fields: fields
                .iter()
                .map(|(k, v)| {
                    if let Some((_, _, ns)) = REF_SITES.iter().find(|s| s.0 == name && s.1 == k) {
                        let nv = match v {
                            DVal::Str(t) => DVal::Str(f(*ns, t)),
                            DVal::List(items) => DVal::List(items.iter().map(|it| if let DVal::Str(t) = it { DVal::Str(f(*ns, t)) } else { it.clone() }).collect()),
                            other => other.clone(),
                        };
                        (k.clone(), nv)
                    } else {
                        (k.clone(), map_refs(top, v, f))
                    }
                })
                .collect(),
        },
        DVal::Tuple { name, items } => DVal::Tuple { name: name.clone(), items: items.iter().map(|i| map_refs(top, i, f)).collect() },
        DVal::List(items) => DVal::List(items.iter().map(|i| map_refs(top, i, f)).collect()),
        other => other.clone(),
    }
}

fn blank(d: &DVal) -> DVal {
    match d {
        DVal::Struct { name, fields } => DVal::Struct {
            name: name.clone(),
            fields: fields.iter().enumerate().map(|(i, (k, v))| if i == 0 && k == "name" { (k.clone(), DVal::Str("_".into())) } else { (k.clone(), v.clone()) }).collect(),
        },
        o => o.clone(),
    }
}

const UNION_FIELDS_GROUP: [&str; 4] = ["sub_group", "function_list", "ref_characteristic", "ref_measurement"];
const UNION_FIELDS_FUNCTION: [&str; 6] = ["sub_function", "in_measurement", "loc_measurement", "out_measurement", "def_characteristic", "ref_characteristic"];

fn member_list(d: &DVal, field: &str) -> Vec<String> {
    d.field(field)
        .and_then(|v| v.opt())
        .and_then(|inner| match inner {
            DVal::Struct { fields, .. } => fields.first().and_then(|f| f.1.list().cloned()),
            _ => None,
        })
        .map(|items| items.iter().filter_map(|i| i.as_str().map(|s| s.to_string())).collect())
        .unwrap_or_default()
}

fn without_fields(d: &DVal, drop: &[&str]) -> DVal {
    match d {
        DVal::Struct { name, fields } => DVal::Struct { name: name.clone(), fields: fields.iter().filter(|(k, _)| !drop.contains(&k.as_str())).cloned().collect() },
        o => o.clone(),
    }
}

pub fn check_merge(sa: &Snapshot, sb: &Snapshot, sr: &Snapshot) -> Vec<MV> {
    let mut out = Vec::new();
    let named_ns = [Ns::Obj, Ns::Tab, Ns::Typedef, Ns::CompuMethod, Ns::Unit, Ns::RecordLayout, Ns::Frame, Ns::Transformer, Ns::MemSeg, Ns::Group, Ns::Function];
    // (c) names unique within each namespace
    let mut dup_names: BTreeSet<(Ns, String)> = BTreeSet::new();
    for ns in named_ns {
        let mut seen = BTreeSet::new();
        for e in sr.elems.iter().filter(|e| e.ns == Some(ns)) {
            if !seen.insert(e.name.clone()) {
                dup_names.insert((ns, e.name.clone()));
                out.push(MV { category: "conservation", oracle: "duplicate-name", detail: format!("{ns:?}"), what: format!("name {} occurs twice in namespace {ns:?} of the result", e.name) });
            }
        }
    }
    // observed renaming
    let mut rho: BTreeMap<(Ns, String), String> = BTreeMap::new();
    for ns in named_ns {
        let a_names = sa.names(ns);
        let b_names = sb.names(ns);
        let r_names = sr.names(ns);
        for n in &b_names {
            if !a_names.contains(n) || ns == Ns::Group || ns == Ns::Function {
                rho.insert((ns, n.clone()), n.clone());
                continue;
            }
            let fresh: Vec<&String> = r_names.iter().filter(|c| is_merge_name(n, c) && !a_names.contains(*c) && !b_names.contains(*c)).collect();
            match fresh.len() {
                0 => {
                    rho.insert((ns, n.clone()), n.clone());
                }
                1 => {
                    rho.insert((ns, n.clone()), fresh[0].clone());
                }
                _ => {
                    out.push(MV { category: "conservation", oracle: "ambiguous-rename", detail: format!("{ns:?}"), what: format!("several fresh names for {n}: {fresh:?}") });
                    rho.insert((ns, n.clone()), fresh[0].clone());
                }
            }
        }
    }
    let map = |ns: Ns, t: &str| -> String { rho.get(&(ns, t.to_string())).cloned().unwrap_or_else(|| t.to_string()) };
    // (a) every element of A is unchanged
    for e in sa.elems.iter().filter(|e| e.ns.is_some() && e.ns != Some(Ns::UserRights)) {
        let ns = e.ns.unwrap();
        let rs = sr.get(ns, &e.name);
        let Some(r) = rs.iter().find(|r| r.kind == e.kind) else {
            out.push(MV { category: "conservation", oracle: "A-element-lost", detail: format!("{}", e.kind), what: format!("{} {} of A is missing in the result", e.kind, e.name) });
            continue;
        };
        if ns == Ns::Group || ns == Ns::Function {
            let uf: &[&str] = if ns == Ns::Group { &UNION_FIELDS_GROUP } else { &UNION_FIELDS_FUNCTION };
            if without_fields(&r.dv, uf).canon() != without_fields(&e.dv, uf).canon() {
                out.push(MV { category: "conservation", oracle: "A-element-changed", detail: e.kind.clone(), what: format!("{} {} of A was altered beyond gaining members", e.kind, e.name) });
            }
            for f in uf {
                let (am, rm) = (member_list(&e.dv, f), member_list(&r.dv, f));
                if !am.iter().all(|m| rm.contains(m)) || rm[..am.len().min(rm.len())] != am[..] {
                    out.push(MV { category: "conservation", oracle: "A-members-lost", detail: format!("{}.{f}", e.kind), what: format!("{} {}: {f} {am:?} became {rm:?}", e.kind, e.name) });
                }
            }
        } else if r.dv.canon() != e.dv.canon() {
            out.push(MV { category: "conservation", oracle: "A-element-changed", detail: e.kind.clone(), what: format!("{} {} of A was altered: {} -> {}", e.kind, e.name, short(&e.dv.canon()), short(&r.dv.canon())) });
        }
    }
    // (b) every named element of B is represented
    for e in sb.elems.iter().filter(|e| e.ns.is_some() && e.ns != Some(Ns::UserRights)) {
        let ns = e.ns.unwrap();
        // a reference whose target name occurs twice in the result designates whichever element comes first
        for ed in &e.edges {
            let tn = map(ed.ns, &ed.target);
            if dup_names.contains(&(ed.ns, tn.clone())) {
                out.push(MV { category: "reference", oracle: "reference-to-duplicated-name", detail: ed.site.clone(), what: format!("{} {} of B refers to {tn} at {}, and the result holds two elements of that name in namespace {:?}", e.kind, e.name, ed.site, ed.ns) });
            }
        }
        let target_name = map(ns, &e.name);
        let renamed = target_name != e.name;
        let in_a = sa.get(ns, &e.name);
        let expected = map_refs(&e.kind, &e.dv, &map);
        let any_target_renamed = e.edges.iter().any(|ed| map(ed.ns, &ed.target) != ed.target);
        if ns == Ns::Group || ns == Ns::Function {
            let Some(r) = sr.get(ns, &e.name).into_iter().next() else {
                out.push(MV { category: "conservation", oracle: "B-element-lost", detail: e.kind.clone(), what: format!("{} {} of B is not represented", e.kind, e.name) });
                continue;
            };
            let uf: &[&str] = if ns == Ns::Group { &UNION_FIELDS_GROUP } else { &UNION_FIELDS_FUNCTION };
            for f in uf {
                let em = member_list(&expected, f);
                let rm = member_list(&r.dv, f);
                for m in &em {
                    if !rm.contains(m) {
                        // a member that is a reference: reference category when only the name differs through renaming
                        let orig = member_list(&e.dv, f);
                        let cat = if orig.iter().any(|o| rm.contains(o)) && !rm.contains(m) { "reference" } else { "conservation" };
                        out.push(MV { category: cat, oracle: "B-member-lost", detail: format!("{}/{}.{f}", e.kind, e.kind), what: format!("{} {} of B: member {m} of {f} is missing in the result ({rm:?})", e.kind, e.name) });
                    }
                }
            }
            if in_a.is_empty() {
                // a new group/function: equal content under the renaming
                if blank(&r.dv).canon() != blank(&expected).canon() {
                    report_diff(&mut out, e, &expected, r);
                }
            }
            continue;
        }
        if !renamed && !in_a.is_empty() {
            // shared: A's element must be what B's element is after the renaming of its references (two elements with the same
            // text are different elements when a reference of B's designates a renamed target)
            let a = in_a[0];
            if a.kind != e.kind || a.dv.canon() != e.dv.canon() {
                // not identical and not renamed: B's element is lost
                out.push(MV { category: "conservation", oracle: "B-element-lost", detail: e.kind.clone(), what: format!("{} {} of B differs from A's element of the same name but was not added under a fresh name", e.kind, e.name) });
            } else if a.dv.canon() != expected.canon() {
                let site = e.edges.iter().find(|ed| map(ed.ns, &ed.target) != ed.target).map(|ed| ed.site.clone()).unwrap_or_default();
                out.push(MV { category: "reference", oracle: "twin-shared-despite-renamed-target", detail: format!("{}/{site}", e.kind), what: format!("{} {} of B has the same text as A's, but its reference at {site} designates an element that was renamed by the merge: it is represented by A's element, whose reference designates A's own target", e.kind, e.name) });
            }
            continue;
        }
        if renamed {
            let a = in_a[0];
            if a.kind == e.kind && a.dv.canon() == e.dv.canon() && !any_target_renamed {
                out.push(MV { category: "conservation", oracle: "identical-not-shared", detail: e.kind.clone(), what: format!("{} {} is identical in A and B but was added again as {target_name}", e.kind, e.name) });
            }
        }
        let rs = sr.get(ns, &target_name);
        let Some(r) = rs.iter().find(|r| r.kind == e.kind) else {
            out.push(MV { category: "conservation", oracle: "B-element-lost", detail: e.kind.clone(), what: format!("{} {} of B is not represented in the result (expected under the name {target_name})", e.kind, e.name) });
            continue;
        };
        if blank(&r.dv).canon() != blank(&expected).canon() {
            report_diff(&mut out, e, &expected, r);
        }
    }
    // nothing invented
    for r in sr.elems.iter().filter(|e| e.ns.is_some() && e.ns != Some(Ns::UserRights)) {
        let ns = r.ns.unwrap();
        let from_a = !sa.get(ns, &r.name).is_empty();
        let from_b = sb.elems.iter().any(|e| e.ns == Some(ns) && map(ns, &e.name) == r.name);
        if !from_a && !from_b {
            out.push(MV { category: "conservation", oracle: "invented-element", detail: r.kind.clone(), what: format!("{} {} of the result comes from neither input", r.kind, r.name) });
        }
    }
    // singletons: A's stay; B's are taken when A has none (all or nothing)
    for list in ["a2ml", "mod_common", "variant_coding", "mod_par"] {
        let a = sa.elems.iter().find(|e| e.list == list);
        let b = sb.elems.iter().find(|e| e.list == list);
        let r = sr.elems.iter().find(|e| e.list == list);
        match (a, b, r) {
            (Some(a), _, Some(r)) => {
                if list != "mod_par" && a.dv.canon() != r.dv.canon() {
                    out.push(MV { category: "conservation", oracle: "A-singleton-changed", detail: list.to_string(), what: format!("{list} of A was altered") });
                }
            }
            (Some(_), _, None) => out.push(MV { category: "conservation", oracle: "A-singleton-lost", detail: list.to_string(), what: format!("{list} of A is missing") }),
            (None, Some(b), Some(r)) => {
                let expected = map_refs(&b.kind, &b.dv, &map);
                if expected.canon() != r.dv.canon() {
                    // which edge?
                    let mut exp_edges = Vec::new();
                    collect(&b.kind, &expected, &mut exp_edges);
                    let mut site = None;
                    for (x, y) in exp_edges.iter().zip(r.edges.iter()) {
                        if x.target != y.target {
                            site = Some(x.site.clone());
                            break;
                        }
                    }
                    match site {
                        Some(s) => out.push(MV { category: "reference", oracle: "reference-not-renamed", detail: s.clone(), what: format!("{list} taken from B: reference at {s} does not designate the renamed target") }),
                        None => out.push(MV { category: "conservation", oracle: "B-singleton-changed", detail: list.to_string(), what: format!("{list} taken from B was altered: {} vs {}", short(&expected.canon()), short(&r.dv.canon())) }),
                    }
                }
            }
            (None, Some(_), None) => out.push(MV { category: "conservation", oracle: "B-singleton-lost", detail: list.to_string(), what: format!("{list} of B was not taken although A has none") }),
            _ => {}
        }
    }
    // no reference of an element that came from B dangles or changes its identity
    out
}

fn collect(top: &str, d: &DVal, out: &mut Vec<Edge>) {
    // same walk as refsites::collect_edges (kept private there)
    match d {
        DVal::Struct { name, fields } => {
            for (k, v) in fields {
                if let Some((_, _, ns)) = REF_SITES.iter().find(|s| s.0 == name && s.1 == k) {
                    let site = format!("{top}/{name}.{k}");
                    match v {
                        DVal::Str(t) => out.push(Edge { site, ns: *ns, target: t.clone(), idx: 0 }),
                        DVal::List(items) => {
                            for (i, it) in items.iter().enumerate() {
                                if let DVal::Str(t) = it {
                                    out.push(Edge { site: site.clone(), ns: *ns, target: t.clone(), idx: i });
                                }
                            }
                        }
                        _ => {}
                    }
                } else {
                    collect(top, v, out);
                }
            }
        }
        DVal::Tuple { items, .. } | DVal::List(items) => {
            for it in items {
                collect(top, it, out);
            }
        }
        _ => {}
    }
}

fn report_diff(out: &mut Vec<MV>, e: &Elem, expected: &DVal, r: &Elem) {
    let mut exp_edges = Vec::new();
    collect(&e.kind, expected, &mut exp_edges);
    if exp_edges.len() == r.edges.len() {
        for (x, y) in exp_edges.iter().zip(r.edges.iter()) {
            if x.target != y.target {
                out.push(MV {
                    category: "reference",
                    oracle: "reference-not-renamed",
                    detail: x.site.clone(),
                    what: format!("{} {} (from B, now {}): reference {} should designate {} but designates {}", e.kind, e.name, r.name, x.site, x.target, y.target),
                });
                return;
            }
        }
    }
    // a non-reference identifier changed?
    out.push(MV {
        category: "conservation",
        oracle: "B-element-changed",
        detail: e.kind.clone(),
        what: format!("{} {} of B was altered on the way into the result: expected {} got {}", e.kind, e.name, short(&expected.canon()), short(&r.dv.canon())),
    });
}

fn short(s: &str) -> String {
    if s.len() > 300 {
        let mut i = 300;
        while !s.is_char_boundary(i) {
            i -= 1;
        }
        format!("{}…", &s[..i])
    } else {
        s.to_string()
    }
}
