//! C10 — cleanup removes only unreferenced helper elements, never creates a dangling reference,
//! leaves objects and typedefs alone and is idempotent.

use crate::c09::{kinds_of, referrers};
use crate::mergecheck::map_refs;
use crate::modgen::*;
use crate::util::*;
use serde_json::{json, Value};
use std::collections::BTreeSet;
use vcore::dbgtree::DVal;
use vcore::explore::{fnv1a, par_map};
use vcore::grammar::Grammar;
use vcore::refsites::*;
use vcore::report::Run;

pub struct Case10 {
    pub label: String,
    pub family: String,
    pub text: String,
}

fn helper_ns(ns: Ns) -> bool {
    matches!(ns, Ns::Group | Ns::Function | Ns::CompuMethod | Ns::Tab | Ns::Unit | Ns::RecordLayout)
}

/// drop list entries equal to the marker
fn drop_marked(d: &DVal) -> DVal {
    match d {
        DVal::Struct { name, fields } => DVal::Struct { name: name.clone(), fields: fields.iter().map(|(k, v)| (k.clone(), drop_marked(v))).collect() },
        DVal::Tuple { name, items } => DVal::Tuple { name: name.clone(), items: items.iter().map(drop_marked).collect() },
        DVal::List(items) => DVal::List(items.iter().filter(|i| !matches!(i, DVal::Str(s) if s == "\u{1}DROP")).map(drop_marked).collect()),
        o => o.clone(),
    }
}

pub struct CV {
    pub oracle: &'static str,
    pub detail: String,
    pub what: String,
}

pub fn check_cleanup(text: &str) -> Result<Vec<CV>, String> {
    let mut f = match load(text, None, false) {
        Loaded::Ok(f, _) => f,
        Loaded::Err(e) => return Err(format!("machinery: generated module does not load: {e}\n{text}")),
        Loaded::Panic(p) => return Err(format!("panic: {p}")),
    };
    let second_before = f.project.module.iter().nth(1).map(|m| format!("{m:?}"));
    let before = module_snapshot(&f)?;
    let dangling_before: BTreeSet<(Ns, String)> = before.dangling().into_iter().map(|(_, e)| (e.ns, e.target)).collect();
    let check_before = f.check().len();
    vcore::explore::guard(|| f.cleanup()).map_err(|p| format!("panic: {p}"))?;
    let after = module_snapshot(&f)?;
    let text1 = f.write_to_string();
    let mut out = Vec::new();
    if let Some(sb) = &second_before {
        if f.project.module.iter().nth(1).map(|m| format!("{m:?}")).as_ref() != Some(sb) {
            out.push(CV { oracle: "second-module-changed", detail: "module".into(), what: "cleanup changed the second module, in which every helper is in use".into() });
        }
    }
    // the name indexes of the lists cleanup has edited still answer for the remaining elements
    if let Err(w) = crate::c08::index_coherent(&f) {
        out.push(CV { oracle: "name-index-incoherent-after-cleanup", detail: w.split(':').next().unwrap_or("").to_string(), what: w });
    }
    // (1) removed elements are helpers; objects and typedefs unaltered modulo previously dangling references
    for e in before.elems.iter().filter(|e| e.ns.is_some()) {
        let ns = e.ns.unwrap();
        let still = after.get(ns, &e.name).into_iter().find(|x| x.kind == e.kind);
        match still {
            None => {
                if !helper_ns(ns) {
                    out.push(CV { oracle: "non-helper-removed", detail: e.kind.clone(), what: format!("{} {} was removed", e.kind, e.name) });
                }
            }
            Some(a) => {
                if matches!(ns, Ns::Obj | Ns::Typedef) {
                    let norm = |d: &DVal, kind: &str| {
                        drop_marked(&map_refs(kind, d, &|n, t| {
                            if dangling_before.contains(&(n, t.to_string())) {
                                if n == Ns::CompuMethod {
                                    "NO_COMPU_METHOD".to_string()
                                } else {
                                    "\u{1}DROP".to_string()
                                }
                            } else {
                                t.to_string()
                            }
                        }))
                    };
                    if norm(&e.dv, &e.kind).canon() != norm(&a.dv, &a.kind).canon() {
                        out.push(CV { oracle: "object-altered", detail: e.kind.clone(), what: format!("{} {} was altered: {} -> {}", e.kind, e.name, short(&e.dv.canon(), 300), short(&a.dv.canon(), 300)) });
                    }
                }
            }
        }
    }
    // (1b) all of them: a COMPU_METHOD, conversion table, UNIT or RECORD_LAYOUT that remains is referred to by something that
    // remains (for GROUPs and FUNCTIONs what counts as unreferenced also depends on their content: covered by idempotence)
    for a in after.elems.iter().filter(|e| matches!(e.ns, Some(Ns::CompuMethod) | Some(Ns::Tab) | Some(Ns::Unit) | Some(Ns::RecordLayout))) {
        let ns = a.ns.unwrap();
        let referred = after.elems.iter().any(|o| !(o.ns == Some(ns) && o.name == a.name && o.kind == a.kind) && o.edges.iter().any(|ed| ed.ns == ns && ed.target == a.name));
        if !referred {
            out.push(CV { oracle: "unreferenced-helper-kept", detail: a.kind.clone(), what: format!("{} {} remains although nothing that remains refers to it", a.kind, a.name) });
        }
    }
    for a in after.elems.iter().filter(|e| e.ns.is_some()) {
        if before.get(a.ns.unwrap(), &a.name).is_empty() {
            out.push(CV { oracle: "element-invented", detail: a.kind.clone(), what: format!("{} {} appears after cleanup", a.kind, a.name) });
        }
    }
    // (2) nothing that remains refers to a removed element
    for (owner, ed) in after.dangling() {
        let existed = before.elems.iter().any(|t| t.ns == Some(ed.ns) && t.name == ed.target);
        if existed {
            out.push(CV { oracle: "removed-while-referenced", detail: ed.site.clone(), what: format!("{owner} still refers to {:?} {} at {}, which cleanup removed", ed.ns, ed.target, ed.site) });
        }
    }
    // (2b) .. also when the reference has been deleted together with its target: a COMPU_METHOD, conversion table, UNIT or
    // RECORD_LAYOUT that was removed was not referred to, before the run, by anything that remains
    for e in before.elems.iter().filter(|e| matches!(e.ns, Some(Ns::CompuMethod) | Some(Ns::Tab) | Some(Ns::Unit) | Some(Ns::RecordLayout))) {
        let ns = e.ns.unwrap();
        if after.get(ns, &e.name).into_iter().any(|x| x.kind == e.kind) {
            continue;
        }
        for o in before.elems.iter().filter(|o| o.ns.is_some() && !(o.ns == e.ns && o.name == e.name)) {
            let remains = after.get(o.ns.unwrap(), &o.name).into_iter().any(|x| x.kind == o.kind);
            if remains {
                if let Some(ed) = o.edges.iter().find(|ed| ed.ns == ns && ed.target == e.name) {
                    out.push(CV { oracle: "removed-while-referenced", detail: ed.site.clone(), what: format!("{} {} was removed although {} {}, which remains, referred to it at {} (the reference is gone as well)", e.kind, e.name, o.kind, o.name, ed.site) });
                }
            }
        }
    }
    // (3) check(): a file without cross-reference problems has none afterwards
    if check_before == 0 {
        let after_check = f.check();
        if let Some(e) = after_check.first() {
            out.push(CV { oracle: "check-clean-file-broken", detail: variant_of(e), what: format!("check() was clean before cleanup and reports afterwards: {e}") });
        }
    }
    // (4) idempotent
    vcore::explore::guard(|| f.cleanup()).map_err(|p| format!("panic: {p}"))?;
    let after2 = module_snapshot(&f)?;
    let text2 = f.write_to_string();
    if text2 != text1 {
        let gone: Vec<String> = after.elems.iter().filter(|e| e.ns.is_some() && after2.get(e.ns.unwrap(), &e.name).is_empty()).map(|e| format!("{} {}", e.kind, e.name)).collect();
        let kind = gone.first().map(|g| g.split(' ').next().unwrap_or("").to_string()).unwrap_or_else(|| "content".into());
        out.push(CV { oracle: "not-idempotent", detail: kind, what: format!("a second cleanup changes the file again (removed in 2nd run: {gone:?})") });
    }
    // the cleaned file is a stable, loadable file
    if let crate::c01::RT::Viol { oracle, what } = crate::c01::roundtrip_model(&f) {
        out.push(CV { oracle: "cleaned-file-not-stable", detail: oracle.to_string(), what });
    }
    Ok(out)
}

pub fn build(g: &Grammar, thorough: bool) -> Vec<Case10> {
    let mut out = Vec::new();
    // ---- A: group graphs
    let gnames = ["G0", "G1", "G2"];
    let pairs: Vec<(usize, usize)> = (0..3).flat_map(|i| (0..3).map(move |j| (i, j))).filter(|(i, j)| thorough || i != j).collect();
    let contents: usize = if thorough { 4 } else { 3 };
    let ur_sets: Vec<Vec<usize>> = if thorough { (0..8).map(|m| (0..3).filter(|b| m >> b & 1 == 1).collect()).collect() } else { vec![vec![], vec![0], vec![2], vec![1, 2]] };
    for rel in 0..(1u32 << pairs.len()) {
        for cmask in 0..contents.pow(3) {
            for root in 0..2 {
                for ur in &ur_sets {
                    let mut elems = vec![e("MEASUREMENT", "M", "c1"), e("RECORD_LAYOUT", "RL", "c1"), e("AXIS_PTS", "AX", "c1").set("deposit_record", "RL")];
                    for gi in 0..3 {
                        let mut ge = e("GROUP", gnames[gi], "c1");
                        let subs: Vec<&str> = pairs.iter().enumerate().filter(|(b, (i, _))| *i == gi && rel >> b & 1 == 1).map(|(_, (_, j))| gnames[*j]).collect();
                        if !subs.is_empty() {
                            ge = ge.kid(kl("SUB_GROUP", &subs));
                        }
                        match (cmask / contents.pow(gi as u32)) % contents {
                            1 => ge = ge.kid(kl("REF_MEASUREMENT", &["M"])),
                            2 => ge = ge.kid(kl("REF_MEASUREMENT", &["NOPE"])),
                            3 => ge = ge.kid(kl("REF_CHARACTERISTIC", &["AX"])),
                            _ => {}
                        }
                        if gi == 0 && root == 1 {
                            ge = ge.kid(k("ROOT"));
                        }
                        elems.push(ge);
                    }
                    if !ur.is_empty() {
                        let l: Vec<&str> = ur.iter().map(|i| gnames[*i]).collect();
                        elems.push(e("USER_RIGHTS", "U", "c1").kid(kl("REF_GROUP", &l)));
                    }
                    out.push(Case10 { label: format!("groups rel={rel:b} content={cmask} root={root} user_rights={ur:?}"), family: "group-graph".into(), text: file_text(g, "m", &elems) });
                }
            }
        }
    }
    // ---- B: function graphs
    let fnames = ["F0", "F1", "F2"];
    let fpairs: Vec<(usize, usize)> = (0..3).flat_map(|i| (0..3).map(move |j| (i, j))).filter(|(i, j)| i != j).collect();
    for rel in 0..(1u32 << fpairs.len()) {
        for cmask in 0..27 {
            for users in 0..4 {
                let mut m = e("MEASUREMENT", "M", "c1");
                let mut grp = e("GROUP", "G", "c1").kid(kl("REF_MEASUREMENT", &["M"])).kid(k("ROOT"));
                match users {
                    1 => m = m.kid(kl("FUNCTION_LIST", &["F0"])),
                    2 => grp = grp.kid(kl("FUNCTION_LIST", &["F1"])),
                    3 => {
                        m = m.kid(kl("FUNCTION_LIST", &["F2", "NOFUNC"]));
                        grp = grp.kid(kl("FUNCTION_LIST", &["F0"]));
                    }
                    _ => {}
                }
                let mut elems = vec![m, grp];
                for fi in 0..3 {
                    let mut fe = e("FUNCTION", fnames[fi], "c1");
                    let subs: Vec<&str> = fpairs.iter().enumerate().filter(|(b, (i, _))| *i == fi && rel >> b & 1 == 1).map(|(_, (_, j))| fnames[*j]).collect();
                    if !subs.is_empty() {
                        fe = fe.kid(kl("SUB_FUNCTION", &subs));
                    }
                    match (cmask / 3usize.pow(fi as u32)) % 3 {
                        1 => fe = fe.kid(kl("IN_MEASUREMENT", &["M"])),
                        2 => fe = fe.kid(kl("DEF_CHARACTERISTIC", &["NOPE"])),
                        _ => {}
                    }
                    elems.push(fe);
                }
                out.push(Case10 { label: format!("functions rel={rel:b} content={cmask} users={users}"), family: "function-graph".into(), text: file_text(g, "m", &elems) });
            }
        }
    }
    // ---- B2: a function whose only user is the FUNCTION_LIST of a group, x what keeps that group (nothing, ROOT, USER_RIGHTS, being
    // the sub-group of a kept group) x the content of group and function: the decisions about groups and about functions meet here
    for gcontent in 0..3 {
        for keep in 0..5 {
            for fcontent in 0..5 {
                for other_user in 0..2 {
                    let mut m = e("MEASUREMENT", "M", "c1");
                    if other_user == 1 {
                        m = m.kid(kl("FUNCTION_LIST", &["F0"]));
                    }
                    let mut g0 = e("GROUP", "G0", "c1").kid(kl("FUNCTION_LIST", &["F0"]));
                    match gcontent {
                        1 => g0 = g0.kid(kl("REF_MEASUREMENT", &["M"])),
                        2 => g0 = g0.kid(kl("REF_MEASUREMENT", &["NOPE"])),
                        _ => {}
                    }
                    let mut elems = vec![m];
                    match keep {
                        1 => g0 = g0.kid(k("ROOT")),
                        2 => elems.push(e("USER_RIGHTS", "U", "c1").kid(kl("REF_GROUP", &["G0"]))),
                        3 => elems.push(e("GROUP", "GP", "c1").kid(k("ROOT")).kid(kl("REF_MEASUREMENT", &["M"])).kid(kl("SUB_GROUP", &["G0"]))),
                        4 => elems.push(e("GROUP", "GP", "c1").kid(kl("SUB_GROUP", &["G0"]))),
                        _ => {}
                    }
                    elems.push(g0);
                    let mut f0 = e("FUNCTION", "F0", "c1");
                    match fcontent {
                        1 => f0 = f0.kid(kl("IN_MEASUREMENT", &["M"])),
                        2 => f0 = f0.kid(kl("DEF_CHARACTERISTIC", &["NOPE"])),
                        3 => {
                            f0 = f0.kid(kl("SUB_FUNCTION", &["F1"]));
                            elems.push(e("FUNCTION", "F1", "c1").kid(kl("IN_MEASUREMENT", &["M"])));
                        }
                        4 => {
                            f0 = f0.kid(kl("SUB_FUNCTION", &["F1"]));
                            elems.push(e("FUNCTION", "F1", "c1"));
                        }
                        _ => {}
                    }
                    elems.push(f0);
                    out.push(Case10 { label: format!("group G0 (content {gcontent}, kept by {keep}) lists function F0 (content {fcontent}), other user {other_user}"), family: "group-function".into(), text: file_text(g, "m", &elems) });
                }
            }
        }
    }
    // ---- C: unit chains
    let unames = ["U0", "U1", "U2"];
    for refs in 0..64usize {
        for used in 0..8usize {
            let mut elems = Vec::new();
            for ui in 0..3 {
                let mut ue = e("UNIT", unames[ui], "c1");
                let r = (refs >> (2 * ui)) & 3;
                if r > 0 {
                    ue = ue.kid(ks("REF_UNIT", &[("unit", unames[r - 1])]));
                }
                elems.push(ue);
                if used >> ui & 1 == 1 {
                    elems.push(e("COMPU_METHOD", &format!("CM{ui}"), "c1").kid(ks("REF_UNIT", &[("unit", unames[ui])])));
                    elems.push(e("MEASUREMENT", &format!("M{ui}"), "c1").set("conversion", &format!("CM{ui}")));
                }
            }
            out.push(Case10 { label: format!("units refs={refs:06b} used={used:03b}"), family: "unit-chain".into(), text: file_text(g, "m", &elems) });
        }
    }
    // ---- D: every usage position as the only user of a helper
    for (label, ns, referrer) in referrers("X") {
        if !helper_ns(ns) {
            continue;
        }
        // the referrer as it is, and (mode "used") with every item of every enumeration parameter of the referrer and of its
        // sub-elements (conversion types, axis kinds ..): whether a reference counts as a use must not depend on them
        let mut variants: Vec<(String, ESpec)> = vec![(String::new(), referrer.clone())];
        {
            let enum_params = |tag: &str| -> Vec<(String, Vec<String>)> {
                let Some(el) = g.get_elem(tag) else { return vec![] };
                el.items
                    .iter()
                    .filter_map(|it| match it {
                        vcore::grammar::Item::Single { ty: vcore::grammar::PType::Enum(en), name } => Some((vcore::grammar::make_varname(name), g.enumdef(en).items.iter().filter(|i| i.in_version(5)).map(|i| i.name.clone()).collect())),
                        _ => None,
                    })
                    .collect()
            };
            for (field, items) in enum_params(&referrer.tag) {
                for it in items {
                    let mut r = referrer.clone();
                    r.set.retain(|(f, _)| f != &field);
                    r.set.push((field.clone(), it.clone()));
                    variants.push((format!(", {field}={it}"), r));
                }
            }
            for (ki, kid) in referrer.kids.iter().enumerate() {
                for (field, items) in enum_params(&kid.tag) {
                    for it in items {
                        let mut r = referrer.clone();
                        r.kids[ki].set.retain(|(f, _)| f != &field);
                        r.kids[ki].set.push((field.clone(), it.clone()));
                        variants.push((format!(", {}.{field}={it}", kid.tag), r));
                    }
                }
            }
        }
        for tk in kinds_of(ns) {
            for (vn, referrer) in &variants {
            for mode in ["used", "unused", "dangling", "used-by-removable"] {
                if !vn.is_empty() && mode != "used" {
                    continue;
                }
                // "used-by-removable": the only user is itself a helper that nothing keeps alive, so both have to go in one run
                if mode == "used-by-removable" && !matches!(referrer.tag.as_str(), "COMPU_METHOD" | "UNIT" | "GROUP" | "FUNCTION" | "COMPU_TAB" | "COMPU_VTAB" | "COMPU_VTAB_RANGE" | "RECORD_LAYOUT") {
                    continue;
                }
                let mut elems: Vec<ESpec> = Vec::new();
                if mode != "dangling" {
                    let mut t = e(tk, "X", "c1");
                    // the target itself must not be removable for another reason
                    if tk == "GROUP" && mode != "used-by-removable" {
                        t = t.kid(kl("REF_MEASUREMENT", &["M"])).kid(k("ROOT"));
                    }
                    if tk == "FUNCTION" && mode != "used-by-removable" {
                        t = t.kid(kl("IN_MEASUREMENT", &["M"]));
                    }
                    elems.push(t);
                }
                elems.push(e("MEASUREMENT", "M", "c1"));
                if mode != "unused" {
                    let mut r = referrer.clone();
                    // keep the referrer itself alive
                    match if mode == "used-by-removable" { "" } else { r.tag.as_str() } {
                        "COMPU_METHOD" => elems.push(e("MEASUREMENT", "MM", "c1").set("conversion", "R")),
                        "UNIT" => {
                            elems.push(e("COMPU_METHOD", "CMU", "c1").kid(ks("REF_UNIT", &[("unit", "R")])));
                            elems.push(e("MEASUREMENT", "MM", "c1").set("conversion", "CMU"));
                        }
                        "GROUP" => {
                            if !r.kids.iter().any(|k| k.tag == "REF_MEASUREMENT") {
                                r = r.kid(kl("REF_MEASUREMENT", &["M"]));
                            }
                            r = r.kid(k("ROOT"));
                        }
                        "FUNCTION" => {
                            if !r.kids.iter().any(|k| k.tag == "IN_MEASUREMENT") {
                                r = r.kid(kl("IN_MEASUREMENT", &["M"]));
                            }
                        }
                        _ => {}
                    }
                    elems.push(r);
                }
                out.push(Case10 { label: format!("usage {label} -> {tk} X [{mode}]{vn}"), family: "usage-position".into(), text: file_text(g, "m", &elems) });
            }
            }
        }
    }
    // ---- E: two usage positions on one referrer, each naming another helper: both helpers have to stay
    // (a COMPU_METHOD with COMPU_TAB_REF and STATUS_STRING_REF and REF_UNIT; a GROUP / FUNCTION with all its lists; a
    // CHARACTERISTIC with conversion, record layout, AXIS_DESCR conversion and FUNCTION_LIST)
    {
        let tabs = ["COMPU_TAB", "COMPU_VTAB", "COMPU_VTAB_RANGE"];
        for t1 in tabs {
            for t2 in tabs {
                for used in [true, false] {
                    let mut elems = vec![e(t1, "T1", "c1")];
                    elems.push(e(t2, "T2", "c1"));
                    elems.push(e("UNIT", "U1", "c1"));
                    elems.push(e("COMPU_METHOD", "R", "c1").set("conversion_type", "TAB_INTP").kid(ks("COMPU_TAB_REF", &[("conversion_table", "T1")])).kid(ks("STATUS_STRING_REF", &[("conversion_table", "T2")])).kid(ks("REF_UNIT", &[("unit", "U1")])));
                    if used {
                        elems.push(e("MEASUREMENT", "MM", "c1").set("conversion", "R"));
                    }
                    out.push(Case10 { label: format!("COMPU_METHOD with COMPU_TAB_REF -> {t1} T1, STATUS_STRING_REF -> {t2} T2, REF_UNIT -> U1 [{}]", if used { "used" } else { "unused" }), family: "usage-pairs".into(), text: file_text(g, "m", &elems) });
                }
            }
        }
        let elems = vec![
            e("MEASUREMENT", "M", "c1"),
            e("COMPU_METHOD", "CM1", "c1"),
            e("COMPU_METHOD", "CM2", "c1"),
            e("RECORD_LAYOUT", "RL1", "c1"),
            e("FUNCTION", "F1", "c1").kid(kl("IN_MEASUREMENT", &["M"])),
            e("FUNCTION", "F2", "c1").kid(kl("SUB_FUNCTION", &["F1"])),
            e("GROUP", "G1", "c1").kid(kl("REF_MEASUREMENT", &["M"])),
            e("GROUP", "G0", "c1").kid(k("ROOT")).kid(kl("SUB_GROUP", &["G1"])).kid(kl("FUNCTION_LIST", &["F2"])).kid(kl("REF_CHARACTERISTIC", &["C"])),
            e("CHARACTERISTIC", "C", "c1").set("conversion", "CM1").set("deposit", "RL1").kid(ks("AXIS_DESCR", &[("conversion", "CM2")])).kid(kl("FUNCTION_LIST", &["F1"])),
        ];
        out.push(Case10 { label: "one referrer per kind with every usage position populated by a different helper".into(), family: "usage-pairs".into(), text: file_text(g, "m", &elems) });
    }
    // ---- E2: an INSTANCE with one OVERWRITE per axis, each with its own CONVERSION; counts of used / unused helpers and of
    // dangling references in every combination 0..2 (coincidences between such counts must not matter)
    {
        let inst = e("INSTANCE", "I", "c1")
            .set("type_ref", "TS")
            .kid(ks("OVERWRITE", &[("name", "ov"), ("axis_number", "0")]).with(ks("CONVERSION", &[("name", "CMA")])))
            .kid(ks("OVERWRITE", &[("name", "ov"), ("axis_number", "1")]).with(ks("CONVERSION", &[("name", "CMB")])))
            .kid(ks("OVERWRITE", &[("name", "ov2"), ("axis_number", "1")]).with(ks("CONVERSION", &[("name", "CMC")])));
        let elems = vec![e("COMPU_METHOD", "CMA", "c1"), e("COMPU_METHOD", "CMB", "c1").kid(ks("REF_UNIT", &[("unit", "UB")])), e("COMPU_METHOD", "CMC", "c1"), e("UNIT", "UB", "c1"), e("TYPEDEF_STRUCTURE", "TS", "c1"), inst];
        out.push(Case10 { label: "INSTANCE with three OVERWRITE blocks, each naming its own COMPU_METHOD".into(), family: "usage-pairs".into(), text: file_text(g, "m", &elems) });
        for kind in ["RECORD_LAYOUT", "COMPU_METHOD", "COMPU_VTAB", "UNIT", "FUNCTION"] {
            for used in 0..3usize {
                for unused in 0..3usize {
                    for dangling in 0..3usize {
                        let mut elems: Vec<ESpec> = vec![e("MEASUREMENT", "M", "c1")];
                        let helper = |name: &str| {
                            let h = e(kind, name, "c1");
                            if kind == "FUNCTION" {
                                h.kid(kl("IN_MEASUREMENT", &["M"]))
                            } else {
                                h
                            }
                        };
                        // a user of helper `target` (its own helpers are in use)
                        let user = |i: usize, target: &str, elems: &mut Vec<ESpec>| match kind {
                            "RECORD_LAYOUT" => elems.push(e("CHARACTERISTIC", &format!("C{i}_{target}"), "c1").set("deposit", target)),
                            "COMPU_METHOD" => elems.push(e("MEASUREMENT", &format!("M{i}_{target}"), "c1").set("conversion", target)),
                            "COMPU_VTAB" => {
                                elems.push(e("COMPU_METHOD", &format!("CM{i}_{target}"), "c1").kid(ks("COMPU_TAB_REF", &[("conversion_table", target)])));
                                elems.push(e("MEASUREMENT", &format!("M{i}_{target}"), "c1").set("conversion", &format!("CM{i}_{target}")));
                            }
                            "UNIT" => {
                                elems.push(e("COMPU_METHOD", &format!("CM{i}_{target}"), "c1").kid(ks("REF_UNIT", &[("unit", target)])));
                                elems.push(e("MEASUREMENT", &format!("M{i}_{target}"), "c1").set("conversion", &format!("CM{i}_{target}")));
                            }
                            _ => elems.push(e("MEASUREMENT", &format!("M{i}_{target}"), "c1").kid(kl("FUNCTION_LIST", &[target]))),
                        };
                        for i in 0..used {
                            elems.push(helper(&format!("USED{i}")));
                            user(i, &format!("USED{i}"), &mut elems);
                        }
                        for i in 0..unused {
                            elems.push(helper(&format!("UNUSED{i}")));
                        }
                        for i in 0..dangling {
                            user(10 + i, &format!("NOPE{i}"), &mut elems);
                        }
                        out.push(Case10 { label: format!("{kind}: {used} used, {unused} unused, {dangling} dangling references"), family: "helper-counts".into(), text: file_text(g, "m", &elems) });
                    }
                }
            }
        }
    }
    // ---- F: a second module behind the module under test. It uses the same names, every helper in it is in use, and one name
    // that is unused in many first modules (X) is used there: nothing computed for one module may decide about another, and the
    // second module has to come out unchanged
    {
        let other_elems = vec![
            e("MEASUREMENT", "M", "c1").set("conversion", "X"),
            e("COMPU_METHOD", "X", "c1").kid(ks("REF_UNIT", &[("unit", "U0")])),
            e("UNIT", "U0", "c1"),
            e("GROUP", "G0", "c1").kid(k("ROOT")).kid(kl("REF_MEASUREMENT", &["M"])).kid(kl("FUNCTION_LIST", &["F0"])),
            e("FUNCTION", "F0", "c1").kid(kl("IN_MEASUREMENT", &["M"])),
            e("RECORD_LAYOUT", "RL", "c1"),
            e("AXIS_PTS", "AX", "c1").set("deposit_record", "RL"),
        ];
        let other_text = file_text(g, "other", &other_elems);
        let a = other_text.find("/begin MODULE").unwrap_or(0);
        let b = other_text.rfind("/end MODULE").map(|x| x + "/end MODULE".len()).unwrap_or(other_text.len());
        let other = other_text[a..b].to_string();
        let n0 = out.len();
        let step = if thorough { 1 } else { 3 };
        for i in (0..n0).step_by(step) {
            let t = &out[i].text;
            let Some(pos) = t.rfind("/end MODULE") else { continue };
            let pos = pos + "/end MODULE".len();
            let text = format!("{}\n  {}{}", &t[..pos], other, &t[pos..]);
            out.push(Case10 { label: format!("{} [second module behind]", out[i].label), family: format!("{}+second-module", out[i].family), text });
        }
    }
    out
}

pub fn run(tier: &str) -> Run {
    let mut run = Run::new("C10", tier);
    let g = crate::corpus::grammar();
    let cases = build(&g, tier == "thorough");
    let res = par_map(cases.len(), &|i| check_cleanup(&cases[i].text), &|i| {
        println!("MACHINERY-ERROR: C10 case hangs: {}", cases[i].label);
        std::process::exit(2);
    });
    for (i, r) in res.into_iter().enumerate() {
        run.evaluations += 1;
        run.transitions += 4;
        let h = fnv1a(cases[i].text.as_bytes());
        if run.states.insert(h) {
            run.nontrivial.insert(h);
        }
        match r {
            Err(m) if m.starts_with("machinery") => run.machinery(format!("{}: {m}", cases[i].label)),
            Err(p) => run.violation(format!("C10/panic {}", vcore::explore::panic_key(&p)), format!("{}: {p}", cases[i].label), json!({"text": cases[i].text})),
            Ok(vs) => {
                if vs.is_empty() {
                    run.outcome(&format!("{}: ok", cases[i].family));
                }
                for v in vs {
                    run.outcome(&format!("{}: violation", cases[i].family));
                    run.violation(format!("C10/{}/{}", v.oracle, v.detail), format!("{}: {}", cases[i].label, v.what), json!({"text": cases[i].text}));
                }
            }
        }
        if i % 4001 == 7 {
            run.sample(json!({"label": cases[i].label, "text": short(&cases[i].text, 600)}));
        }
    }
    run.require("group-graph: ok", 1000);
    run.require("function-graph: ok", 1000);
    run.require("unit-chain: ok", 100);
    run.require("usage-position: ok", 50);
    run.rule = "all 3-node GROUP graphs (every SUB_GROUP relation) x per-group content {empty, valid, dangling, AXIS_PTS} x ROOT x USER_RIGHTS subsets; all 3-node FUNCTION graphs x content x users through FUNCTION_LIST; all REF_UNIT functions on 3 UNITs x which units are used; every usage position of a helper kind as the only user x {used, unused, dangling, used only by a helper that is itself removable} x target kind. Oracle: removed elements are helpers, every remaining COMPU_METHOD / conversion table / UNIT / RECORD_LAYOUT is referred to by something that remains, objects/typedefs equal modulo previously dangling references, nothing that remains refers to a removed element, a check()-clean file stays clean, cleanup twice == once (text), cleaned file reloads equal.".into();
    run
}

pub fn replay(v: &Value) -> Result<String, String> {
    let vs = check_cleanup(v["text"].as_str().ok_or("no text")?)?;
    if vs.is_empty() {
        Ok("ok".into())
    } else {
        Err(vs.iter().map(|v| format!("{}: {}", v.oracle, v.what)).collect::<Vec<_>>().join(" || "))
    }
}
