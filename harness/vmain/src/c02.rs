//! C02 — content preservation of the first load+write: the output holds the same significant
//! tokens as the input (modulo notation), out-of-range literals are diagnosed, uninterpreted
//! IF_DATA passes through.

use crate::c01::{self, Case};
use crate::corpus;
use crate::util::*;
use serde_json::{json, Value};
use vcore::docgen::*;
use vcore::explore::{fnv1a, par_map};
use vcore::grammar::*;
use vcore::interp::{self, INode};
use vcore::reftok::{self, Kind, NumVal, Tok};
use vcore::report::Run;

/// normalised value of one token given the type that governs it
fn norm_scalar(ty: Option<&PType>, t: &Tok) -> String {
    match t.kind {
        Kind::Str => format!("S:{}", reftok::unescape(&t.text)),
        Kind::Num => match ty {
            Some(PType::Float) => {
                let v = if t.text.starts_with("0x") || t.text.starts_with("0X") {
                    u64::from_str_radix(&t.text[2..], 16).map(|v| v as f64).unwrap_or(f64::NAN)
                } else {
                    t.text.parse::<f64>().unwrap_or(f64::NAN)
                };
                format!("F:{:?}", if v == 0.0 { 0.0 } else { v })
            }
            Some(ity) if ity.is_int() => {
                // integers as integers; hex as unsigned bit pattern of the field width
                let (bits, _) = ity.int_shape().unwrap();
                match interp::int_literal_value(&t.text) {
                    Some((v, hex)) => {
                        let mask: u128 = if bits == 64 { u64::MAX as u128 } else { (1u128 << bits) - 1 };
                        if hex {
                            format!("X:{:x}", (v as u128) & mask)
                        } else {
                            format!("I:{v}")
                        }
                    }
                    None => format!("?:{}", t.text),
                }
            }
            _ => match reftok::numval(&t.text) {
                // uninterpreted: integers as integers (hex notation kept apart); a float literal
                // with an integral value may be written as an integer; fractions at f32 precision
                NumVal::Int(v) => {
                    if t.text.starts_with("0x") || t.text.starts_with("0X") {
                        format!("X:{v:x}")
                    } else {
                        format!("I:{v}")
                    }
                }
                NumVal::Float(v) => {
                    let f = v as f32;
                    if f.is_finite() && f.fract() == 0.0 && f.abs() < 1e15 {
                        format!("I:{}", f as i128)
                    } else {
                        format!("f:{f:?}")
                    }
                }
                NumVal::Bad => format!("?:{}", t.text),
            },
        },
        _ => format!("T:{}", t.text),
    }
}

fn item_types(e: &Element) -> Vec<Vec<PType>> {
    e.items
        .iter()
        .map(|it| match it {
            Item::Single { ty, .. } | Item::Array { ty, .. } => vec![ty.clone()],
            Item::Seq { fields, .. } => fields.iter().map(|f| f.0.clone()).collect(),
        })
        .collect()
}

/// canonical token list of an interpreter tree (position-restricted children in documented order)
fn canon(g: &Grammar, n: &INode, t: &[Tok], out: &mut Vec<String>) {
    let e = g.elem(&n.tag);
    out.push(format!("{}{}", if n.block { "/begin " } else { "" }, n.tag));
    let types = item_types(e);
    let mut counters = vec![0usize; types.len()];
    for (ti, item) in &n.params {
        let tys = &types[*item];
        let ty = &tys[counters[*item] % tys.len()];
        counters[*item] += 1;
        out.push(norm_scalar(Some(ty), &t[*ti]));
    }
    if let Some((a, b)) = n.payload {
        if n.tag == "A2ML" {
            out.push(format!("RAW:{}", t[a].text.replace("\r\n", "\n").trim()));
        } else {
            for k in a..=b {
                out.push(norm_scalar(None, &t[k]));
            }
        }
    }
    let mut kids: Vec<&INode> = n.children.iter().collect();
    let restricted = |k: &INode| -> Option<i128> {
        if n.tag == "A2L_FILE" {
            return Some(match k.tag.as_str() {
                "ASAP2_VERSION" => 1,
                "A2ML_VERSION" => 2,
                _ => 3,
            });
        }
        if n.tag == "RECORD_LAYOUT" {
            let ke = g.elem(&k.tag);
            if matches!(ke.items.first(), Some(Item::Single { name, .. }) if name == "position") {
                return k.params.first().and_then(|p| interp::int_literal_value(&t[p.0].text)).map(|v| v.0);
            }
        }
        None
    };
    // restricted children are sorted among the slots they occupy (the documented reordering)
    let slots: Vec<usize> = kids.iter().enumerate().filter(|(_, k)| restricted(k).is_some()).map(|(i, _)| i).collect();
    if slots.len() > 1 {
        let mut r: Vec<&INode> = slots.iter().map(|i| kids[*i]).collect();
        r.sort_by_key(|k| restricted(k));
        for (s, k) in slots.iter().zip(r) {
            kids[*s] = k;
        }
    }
    for k in kids {
        canon(g, k, t, out);
    }
    if n.block {
        out.push(format!("/end {}", n.tag));
    }
}

pub enum Verdict {
    NotValid,
    Ok,
    Viol(&'static str, String),
}

/// C02 oracle on one valid document
pub fn preserved(g: &Grammar, text: &str, spec: Option<&str>, must_keep_comments: &[String]) -> Verdict {
    let Ok(lex0) = reftok::lex(text) else { return Verdict::NotValid };
    let Ok(acc0) = interp::recognise(g, &lex0) else { return Verdict::NotValid };
    let (m0, log) = match load(text, spec, false) {
        Loaded::Ok(f, l) => (f, l),
        Loaded::Err(e) => return Verdict::Viol("valid-doc-rejected", format!("valid document rejected: {e}")),
        Loaded::Panic(p) => return Verdict::Viol("panic", p),
    };
    let _ = log;
    let t1 = match write(&m0) {
        Ok(t) => t,
        Err(p) => return Verdict::Viol("panic", p),
    };
    let lex1 = match reftok::lex(&t1) {
        Ok(l) => l,
        Err(e) => return Verdict::Viol("output-not-lexable", format!("written text is lexically malformed: {e}")),
    };
    let acc1 = match interp::recognise(g, &lex1) {
        Ok(a) => a,
        Err(r) => return Verdict::Viol("output-outside-grammar", format!("written text is outside the grammar: {:?} {}\n{}", r.class, r.detail, short(&t1, 500))),
    };
    let (mut c0, mut c1) = (Vec::new(), Vec::new());
    canon(g, &acc0.root, &lex0.tokens, &mut c0);
    canon(g, &acc1.root, &lex1.tokens, &mut c1);
    if c0 != c1 {
        let pos = c0.iter().zip(c1.iter()).position(|(a, b)| a != b).unwrap_or(c0.len().min(c1.len()));
        let ctx = |c: &Vec<String>| c[pos.saturating_sub(3)..(pos + 2).min(c.len())].join(" | ");
        let kind = if c0.len() > c1.len() {
            "token-lost"
        } else if c0.len() < c1.len() {
            "token-invented"
        } else {
            "token-altered"
        };
        return Verdict::Viol(kind, format!("{kind} at significant token {pos}: input [{}] output [{}]", ctx(&c0), ctx(&c1)));
    }
    for c in must_keep_comments {
        if !lex1.comments.iter().any(|x| x.text.trim() == c.trim()) {
            return Verdict::Viol("comment-lost", format!("comment {c:?} between sub-elements is missing in the output"));
        }
    }
    Verdict::Ok
}

/// literals at and beyond the limits of an integer type
fn limit_literals(ty: &PType) -> Vec<(String, String, bool)> {
    // (name, literal, fits)
    let (lo, hi) = ty.int_min_max().unwrap();
    let (bits, signed) = ty.int_shape().unwrap();
    let mut v = vec![
        ("max".to_string(), hi.to_string(), true),
        ("max+1".into(), (hi + 1).to_string(), false),
        ("min".into(), lo.to_string(), true),
        ("min-1".into(), (lo - 1).to_string(), false),
        ("hex-all-ones".into(), format!("0x{:X}", (1u128 << bits) - 1), true),
        ("u64-max-dec".into(), u64::MAX.to_string(), bits == 64 && !signed),
        ("2^64-dec".into(), "18446744073709551616".into(), false),
        ("hex-2^64".into(), "0x10000000000000000".into(), false),
        ("u64-max-hex".into(), "0xFFFFFFFFFFFFFFFF".into(), bits == 64),
    ];
    if bits < 64 {
        v.push(("hex-2^bits".into(), format!("0x{:X}", 1u128 << bits), false));
        v.push(("hex-wider".into(), format!("0x1{:X}", (1u128 << bits) - 1 - 0xA), false));
        v.push(("hex-leading-zeros-wide".into(), format!("0x0000000000000000{:X}", (1u128 << bits) - 1), true));
    }
    v
}

pub const IFDATA_ALPHABET: [&str; 15] = [
    "1",
    "-1",
    "255",
    "65536",
    "2147483647",
    "2147483648",
    "4294967297",
    "18446744073709551615",
    "0x1FFFFFFFF",
    "0xFFFFFFFFFFFFFFFF",
    "1.5",
    "1e3",
    "\"s\"",
    "id",
    "/begin B 7 /end B",
];

struct C2Case {
    case: Case,
    keep: Vec<String>,
    /// Some(fits) for a limit literal case
    limit: Option<(bool, String)>,
}

fn build(g: &Grammar, thorough: bool, deep: bool) -> Vec<C2Case> {
    let mut out: Vec<C2Case> = Vec::new();
    let carriers = corpus::carriers(g);
    let mut plain = carriers.clone();
    plain.extend(corpus::opt_docs(g, 1));
    plain.extend(corpus::opt_docs(g, 2));
    plain.extend(corpus::enum_docs(g));
    plain.extend(corpus::same_name_docs(g));
    plain.extend(corpus::seq_len_docs(g));
    plain.extend(corpus::rich_docs(g));
    if thorough {
        plain.extend(corpus::opt_pair_docs(g, None));
    }
    for d in &plain {
        out.push(C2Case { case: Case { label: d.label.clone(), class: "grammar".into(), text: d.doc.text(), spec: None, parts: vec![] }, keep: vec![], limit: None });
    }
    // value classes (notation may change, value may not)
    let mut vc = Vec::new();
    for d in &carriers {
        c01::value_cases(d, if thorough { 2 } else { 1 }, &mut vc);
    }
    for t in ["ANNOTATION_TEXT", "SYSTEM_CONSTANT"] {
        if let Some(d) = carriers.iter().find(|c| c.label == format!("carrier({t})")) {
            c01::value_cases(d, if thorough { 3 } else { 2 }, &mut vc);
        }
    }
    for c in vc {
        out.push(C2Case { case: c, keep: vec![], limit: None });
    }
    // comments between sub-elements of blocks must survive; others may be dropped, tokens never
    let mut docs_for_cm = carriers.clone();
    docs_for_cm.extend(corpus::rich_docs(g));
    for d in &docs_for_cm {
        let toks = d.doc.tokens();
        for gap in 0..=toks.len() {
            let role = c01::gap_role(&toks, gap);
            for (n, c) in c01::CM {
                let mut gm = std::collections::HashMap::new();
                gm.insert(gap, c.to_string());
                let text = render(&toks, &gm);
                // must survive: the comment stands where a sub-element of a block could stand
                let block_level = gap > 0
                    && gap < toks.len()
                    && toks[gap].depth > 0
                    && ((role == "before-sub-element") || (role == "before-end" && block_has_refs(g, &toks, gap)))
                    && !inside_special(&toks, gap);
                let keep = if block_level { comment_texts(c) } else { vec![] };
                out.push(C2Case { case: Case { label: format!("{} + cm(gap {gap},{n})", d.label), class: format!("cm:{n}@{role}"), text, spec: None, parts: vec![] }, keep, limit: None });
            }
        }
    }
    // reordering of position restricted items: RECORD_LAYOUT children in reverse position order
    {
        let mut gen = Gen::new(g);
        let (mut doc, path) = gen.carrier_v("RECORD_LAYOUT", 5, 1);
        for t in ["FNC_VALUES", "AXIS_PTS_X", "NO_AXIS_PTS_X", "RESERVED", "ALIGNMENT_BYTE", "AXIS_PTS_Y"] {
            let c = gen.min_node(t, 5, 1);
            doc.root.at_mut(&path).children.push(c);
        }
        let rl = doc.root.at_mut(&path);
        let mut pos = 50;
        for c in rl.children.iter_mut() {
            if c.tag != "ALIGNMENT_BYTE" {
                c.params[0].text = pos.to_string();
                pos -= 7;
            }
        }
        out.push(C2Case { case: Case { label: "record-layout-reverse-positions".into(), class: "reorder".into(), text: doc.text(), spec: None, parts: vec![] }, keep: vec![], limit: None });
        for (label, text) in position_docs(g).into_iter().chain(position_mixed_docs(g)) {
            out.push(C2Case { case: Case { label, class: "reorder".into(), text, spec: None, parts: vec![] }, keep: vec![], limit: None });
        }
        // file level: PROJECT before ASAP2_VERSION is not valid per I (version first), so only the RECORD_LAYOUT case
    }
    // literals at and beyond the limits of every integer parameter
    for d in &carriers {
        if d.path.is_empty() {
            continue;
        }
        let node = d.doc.root.at(&d.path).clone();
        if node.raw.is_some() {
            continue;
        }
        for (pi, p) in node.params.iter().enumerate() {
            if !p.ty.is_int() {
                continue;
            }
            for (n, lit, fits) in limit_literals(&p.ty) {
                let mut doc = d.doc.clone();
                doc.root.at_mut(&d.path).params[pi].text = lit.clone();
                out.push(C2Case {
                    case: Case { label: format!("{} + limit({},{n})", d.label, p.field), class: format!("limit:{:?}:{n}", p.ty).to_lowercase(), text: doc.text(), spec: None, parts: vec![] },
                    keep: vec![],
                    limit: Some((fits, lit)),
                });
            }
        }
    }
    // IF_DATA under generated A2ML definitions: conforming instances and every single-token deletion / duplication of them
    // (whether the result still conforms or falls back to uninterpreted data, every token has to pass through)
    {
        use vcore::a2mlref::{balanced, definitions, extra_definitions, instances, print_definition, render_payload};
        let mut defs = definitions(1, true);
        defs.extend(extra_definitions());
        if thorough {
            defs.extend(definitions(2, false));
        }
        let mut seen = std::collections::HashSet::new();
        for d in &defs {
            let dt = print_definition(d, false);
            if !seen.insert(dt.clone()) {
                continue;
            }
            for inst in instances(d, 4).into_iter().filter(|i| !i.is_empty()).take(3) {
                let mut variants: Vec<(String, Vec<vcore::a2mlref::PTok>)> = vec![("instance".into(), inst.clone())];
                for i in 0..inst.len() {
                    let mut del = inst.clone();
                    del.remove(i);
                    variants.push(("delete".into(), del));
                    let mut dup = inst.clone();
                    dup.insert(i, inst[i].clone());
                    variants.push(("duplicate".into(), dup));
                }
                for (kind, v) in variants {
                    if v.is_empty() || !balanced(&v) {
                        continue;
                    }
                    // an identifier that the lenient reading takes for a char[n] value is written back as a string
                    // (documented leniency, don't care as in C18 / C19)
                    if !vcore::a2mlref::unambiguous(d, &v) {
                        continue;
                    }
                    let text = vcore::ifdoc::doc_text(Some(&dt), &[render_payload(&v)]);
                    out.push(C2Case { case: Case { label: format!("A2ML [{}] with IF_DATA [{}] ({kind})", dt.replace('\n', " "), render_payload(&v)), class: format!("ifdata-generated-a2ml:{kind}"), text, spec: None, parts: vec![] }, keep: vec![], limit: None });
                }
            }
        }
    }
    // uninterpreted IF_DATA payloads: all token sequences up to length k
    let k = if deep { 5 } else if thorough { 4 } else { 3 };
    let mut gen = Gen::new(g);
    let (base, path) = gen.carrier_v("MODULE", 5, 1);
    let mut seqs: Vec<Vec<usize>> = vec![vec![]];
    let mut frontier: Vec<Vec<usize>> = vec![vec![]];
    for _ in 0..k {
        let mut next = Vec::new();
        for s in &frontier {
            for a in 0..IFDATA_ALPHABET.len() {
                let mut s2 = s.clone();
                s2.push(a);
                next.push(s2);
            }
        }
        seqs.extend(next.iter().cloned());
        frontier = next;
    }
    for s in seqs {
        let payload: Vec<&str> = s.iter().map(|i| IFDATA_ALPHABET[*i]).collect();
        // with a leading tag (the conventional form) and without
        for lead in ["ZZZ ", ""] {
            let mut doc = base.clone();
            let mut ifd = gen.min_node("IF_DATA", 5, 1);
            let pl = format!("{lead}{}", payload.join(" "));
            ifd.raw = if pl.trim().is_empty() { None } else { Some(pl) };
            doc.root.at_mut(&path).children.push(ifd);
            let shape: Vec<&str> = s
                .iter()
                .map(|i| match *i {
                    0..=4 => "int32",
                    5..=7 => "int>32bit",
                    8 | 9 => "hex>32bit",
                    10 | 11 => "float",
                    12 => "str",
                    13 => "ident",
                    _ => "block",
                })
                .collect();
            let mut sh: Vec<&str> = shape.clone();
            sh.sort();
            sh.dedup();
            out.push(C2Case {
                case: Case { label: format!("ifdata-uninterpreted({lead}{})", payload.join(" ")), class: format!("ifdata-raw:{}", sh.join("+")), text: doc.text(), spec: None, parts: vec![] },
                keep: vec![],
                limit: None,
            });
        }
    }
    // IF_DATA described by the file's A2ML
    let mut ic = Vec::new();
    c01::ifdata_cases(g, &mut ic);
    // comments at every gap inside IF_DATA payloads (they may be dropped, the tokens may not)
    c01::ifdata_gap_cases(false, true, &mut ic);
    for c in ic {
        out.push(C2Case { case: c, keep: vec![], limit: None });
    }
    out
}

fn comment_texts(c: &str) -> Vec<String> {
    reftok::lex(c).map(|l| l.comments.iter().map(|x| x.text.clone()).collect()).unwrap_or_default()
}

fn block_has_refs(g: &Grammar, toks: &[RTok], gap: usize) -> bool {
    // the /end at `gap` closes the block whose tag follows
    toks.get(gap + 1).and_then(|t| g.get_elem(&t.text)).map_or(false, |e| !e.refs.is_empty())
}

fn inside_special(toks: &[RTok], gap: usize) -> bool {
    // gaps that touch IF_DATA / A2ML content
    let near = |i: usize| toks.get(i).map_or(false, |t| matches!(t.kind, TKind::Other | TKind::Raw));
    near(gap) || (gap > 0 && near(gap - 1)) || toks.get(gap + 1).map_or(false, |t| t.text == "IF_DATA" || t.text == "A2ML") && toks[gap].kind == TKind::End
}

fn eval(g: &Grammar, c: &C2Case) -> (u64, String, Option<(String, String)>) {
    let h = fnv1a(c.case.text.as_bytes());
    if let Some((fits, lit)) = &c.limit {
        // out-of-range literal: Err, or a diagnostic, or the value unchanged in the output
        return match load(&c.case.text, None, false) {
            Loaded::Panic(p) => (h, "panic".into(), Some((format!("C02/panic {}", vcore::explore::panic_key(&p)), p))),
            Loaded::Err(_) => {
                if *fits {
                    (h, "limit: fitting literal rejected".into(), Some((format!("C02/fitting-literal-rejected/{}", c.case.class), format!("{}: literal {lit} fits the field but the document is rejected", c.case.label))))
                } else {
                    (h, "limit: rejected".into(), None)
                }
            }
            Loaded::Ok(f, log) => {
                let t1 = write(&f).unwrap_or_default();
                let kept = reftok::lex(&t1).map(|l| l.tokens.iter().any(|t| t.kind == Kind::Num && same_int(&t.text, lit))).unwrap_or(false);
                if kept {
                    (h, if *fits { "limit: fits and preserved".into() } else { "limit: preserved".into() }, None)
                } else if !log.is_empty() {
                    (h, "limit: diagnosed".into(), None)
                } else {
                    (h, "limit: silently changed".into(), Some((format!("C02/literal-silently-changed/{}", c.case.class), format!("{}: literal {lit} is neither rejected, nor diagnosed, nor present in the output", c.case.label))))
                }
            }
        };
    }
    match preserved(g, &c.case.text, c.case.spec.as_deref(), &c.keep) {
        Verdict::NotValid => (h, format!("{}: not a valid document (outside the quantifier)", c.case.class.split(':').next().unwrap_or("")), None),
        Verdict::Ok => (h, format!("{}: preserved", c.case.class.split(':').next().unwrap_or("")), None),
        Verdict::Viol(o, w) => {
            let key = if o == "panic" { format!("C02/panic {}", vcore::explore::panic_key(&w)) } else { format!("C02/{o}/{}", c.case.class) };
            (h, format!("{}: violation", c.case.class.split(':').next().unwrap_or("")), Some((key, format!("{}: {w}", c.case.label))))
        }
    }
}

fn same_int(a: &str, b: &str) -> bool {
    match (reftok::numval(a), reftok::numval(b)) {
        (NumVal::Int(x), NumVal::Int(y)) => x == y,
        _ => false,
    }
}

pub fn run(tier: &str) -> Run {
    let mut run = Run::new("C02", tier);
    let g = corpus::grammar();
    let cases = build(&g, crate::util::wide(tier), crate::util::deep(tier));
    let res = par_map(cases.len(), &|i| eval(&g, &cases[i]), &|i| {
        println!("MACHINERY-ERROR: C02 case hangs: {}", cases[i].case.label);
        std::process::exit(2);
    });
    for (i, (h, outcome, viol)) in res.into_iter().enumerate() {
        run.evaluations += 1;
        run.transitions += 2;
        if run.states.insert(h) && !outcome.contains("not a valid") {
            run.nontrivial.insert(h);
        }
        run.outcome(&outcome);
        if let Some((k, w)) = viol {
            run.violation(k, w, json!({"text": cases[i].case.text, "spec": cases[i].case.spec, "keep": cases[i].keep, "limit": cases[i].limit.as_ref().map(|l| json!([l.0, l.1])), "label": cases[i].case.label, "class": cases[i].case.class}));
        }
        if i % 30011 == 11 {
            run.sample(json!({"label": cases[i].case.label, "text": short(&cases[i].case.text, 300)}));
        }
    }
    run.require("grammar: preserved", 700);
    run.require("val: preserved", 1000);
    run.require("cm: preserved", 1000);
    run.require("ifdata-raw: preserved", 500);
    run.require("limit: rejected", 100);
    run.rule = "valid documents (by the reference interpreter) from the grammar corpus, value classes, comments at every gap, reversed RECORD_LAYOUT positions, every integer parameter x literals at/beyond its limits, all uninterpreted IF_DATA token sequences up to length k over a 15-token alphabet (with and without leading tag), A2ML-described IF_DATA, IF_DATA under every generated A2ML definition of depth 1 (and the extra definitions): three instances each and every single-token deletion / duplication of them. Oracle: canonical token list of the interpreter tree of input and output equal (numbers by value at the governing type, strings unescaped, documented reordering applied); block-level comments present in the output; out-of-range literal => rejected | diagnosed | preserved.".into();
    run.assumptions = vec!["comments outside blocks with optional sub-elements may be dropped (statement)".into(), "fractions in uninterpreted IF_DATA are compared at f32 precision".into()];
    run
}

pub fn replay(v: &Value) -> Result<String, String> {
    let g = corpus::grammar();
    let c = C2Case {
        case: Case { label: v["label"].as_str().unwrap_or("").into(), class: v["class"].as_str().unwrap_or("").into(), text: v["text"].as_str().ok_or("no text")?.into(), spec: v["spec"].as_str().map(|s| s.to_string()), parts: vec![] },
        keep: v["keep"].as_array().map(|a| a.iter().filter_map(|x| x.as_str().map(|s| s.to_string())).collect()).unwrap_or_default(),
        limit: v["limit"].as_array().map(|a| (a[0].as_bool().unwrap_or(false), a[1].as_str().unwrap_or("").to_string())),
    };
    let (_, outcome, viol) = eval(&g, &c);
    match viol {
        Some((k, w)) => Err(format!("{k}: {w}")),
        None => Ok(outcome),
    }
}

/// every child kind of RECORD_LAYOUT that carries a position, placed out of position order between two others
/// (before a smaller and after a larger position), and at the front / at the end
pub fn position_docs(g: &Grammar) -> Vec<(String, String)> {
    let mut out = Vec::new();
    let rl = g.elem("RECORD_LAYOUT").clone();
    for r in &rl.refs {
        if !r.in_version(5) {
            continue;
        }
        let Some(ke) = g.get_elem(&r.tag) else { continue };
        if !matches!(ke.items.first(), Some(Item::Single { name, .. }) if name == "position") {
            continue;
        }
        let others: [&str; 2] = if r.tag == "FNC_VALUES" || r.tag == "AXIS_PTS_X" { ["AXIS_PTS_Y", "NO_AXIS_PTS_X"] } else { ["FNC_VALUES", "AXIS_PTS_X"] };
        for (arr, order) in [("middle", [0usize, 2, 1]), ("first", [2, 0, 1]), ("last", [1, 0, 2])] {
            // `order` lists which of (other0, other1, K) comes 1st, 2nd, 3rd; positions: other0 = 30, K = 20, other1 = 10
            let mut gen = Gen::new(g);
            let (mut doc, path) = gen.carrier_v("RECORD_LAYOUT", 5, 1);
            for which in order {
                let (tag, pos) = match which {
                    0 => (others[0], 30),
                    1 => (others[1], 10),
                    _ => (r.tag.as_str(), 20),
                };
                let mut c = gen.min_node(tag, 5, 1);
                c.params[0].text = pos.to_string();
                doc.root.at_mut(&path).children.push(c);
            }
            out.push((format!("record-layout-position:{}:{arr}", r.tag), doc.text()));
        }
    }
    out
}

/// position-carrying children of a RECORD_LAYOUT out of position order with unrestricted children (ALIGNMENT_*,
/// STATIC_RECORD_LAYOUT) and comments in front of and between them
pub fn position_mixed_docs(g: &Grammar) -> Vec<(String, String)> {
    let mut out = Vec::new();
    for ktag in ["FNC_VALUES", "NO_AXIS_PTS_X", "RESERVED", "AXIS_RESCALE_X"] {
        let others: [&str; 2] = if ktag == "FNC_VALUES" { ["AXIS_PTS_Y", "NO_AXIS_PTS_X"] } else { ["FNC_VALUES", "AXIS_PTS_X"] };
        // U = unrestricted keyword, S = STATIC_RECORD_LAYOUT, 0 / 1 = the other positioned children (positions 30 / 10), K = the child under test (20)
        for shape in ["U0K", "0UK", "0KU", "U0K1", "0U1K", "S0UK1", "0K", "K0U1", "UK01U"] {
            for comment_before_k in [false, true] {
                let mut gen = Gen::new(g);
                let (mut doc, path) = gen.carrier_v("RECORD_LAYOUT", 5, 1);
                let mut n_u = 0;
                for ch in shape.chars() {
                    let (tag, pos): (&str, Option<i32>) = match ch {
                        'U' => {
                            n_u += 1;
                            (["ALIGNMENT_BYTE", "ALIGNMENT_WORD", "ALIGNMENT_LONG"][(n_u - 1) % 3], None)
                        }
                        'S' => ("STATIC_RECORD_LAYOUT", None),
                        '0' => (others[0], Some(30)),
                        '1' => (others[1], Some(10)),
                        _ => (ktag, Some(20)),
                    };
                    let mut c = gen.min_node(tag, 5, 1);
                    if let Some(p) = pos {
                        c.params[0].text = p.to_string();
                    }
                    doc.root.at_mut(&path).children.push(c);
                }
                let mut text = doc.text();
                if comment_before_k {
                    let needle = format!("{ktag} 20");
                    if let Some(at) = text.find(&needle) {
                        let line_start = text[..at].rfind('\n').map(|x| x + 1).unwrap_or(0);
                        text.insert_str(line_start, "      /* about the next item */\n");
                    }
                }
                out.push((format!("record-layout-mixed:{ktag}:{shape}{}", if comment_before_k { "+comment" } else { "" }), text));
            }
        }
    }
    out
}
