//! vmain — drivers for the checks that run against /repo/a2lfile as shipped.
//! usage: vmain <PROPERTY> <quick|thorough>   |   vmain replay <file>

mod c12;
mod c13;
mod util;

use vcore::report::Run;

fn run_property(id: &str, tier: &str) -> Option<Run> {
    Some(match id {
        "C12" => c12::run(tier),
        "C13" => c13::run(tier),
        _ => return None,
    })
}

fn main() {
    vcore::explore::install_panic_hook();
    let args: Vec<String> = std::env::args().collect();
    if args.len() < 3 {
        eprintln!("usage: vmain <PROPERTY> <quick|thorough> | vmain replay <file>");
        std::process::exit(2);
    }
    if args[1] == "replay" {
        let txt = std::fs::read_to_string(&args[2]).expect("cannot read replay file");
        let v: serde_json::Value = serde_json::from_str(&txt).expect("replay file is not json");
        let prop = v["property"].as_str().unwrap_or("").to_string();
        let res = match prop.as_str() {
            "C12" => c12::replay(&v["replay"]),
            "C13" => c13::replay(&v["replay"]),
            _ => Err(format!("no replay for property {prop}")),
        };
        match res {
            Ok(msg) => {
                println!("replay: property holds on this case: {msg}");
                std::process::exit(0);
            }
            Err(msg) => {
                println!("replay: VIOLATION reproduced: {msg}");
                std::process::exit(1);
            }
        }
    }
    let tier = std::env::var("VERIF_TIER").unwrap_or_else(|_| args[2].clone());
    match run_property(&args[1], &tier) {
        Some(run) => std::process::exit(run.finish()),
        None => {
            eprintln!("unknown property {}", args[1]);
            std::process::exit(2);
        }
    }
}
