//! vmain — drivers for the checks that run against /repo/a2lfile as shipped.
//! usage: vmain <PROPERTY> <quick|thorough>   |   vmain replay <file>

mod c01;
mod c02;
mod c03;
mod c04;
mod c05;
mod c06;
mod c07;
mod c08;
mod c09;
mod c10;
mod c11;
mod mergecheck;
mod hist;
mod modgen;
mod c12;
mod c13;
mod c14;
mod c15;
mod c16;
mod c17;
mod c18;
mod gen_builders;
mod util;

use vcore::report::Run;

fn run_property(id: &str, tier: &str) -> Option<Run> {
    Some(match id {
        "C01" => c01::run(tier),
        "C02" => c02::run(tier),
        "C03" => c03::run(tier),
        "C04" => c04::run(tier),
        "C05" => c05::run(tier),
        "C06" => c06::run(tier),
        "C07" => c07::run(tier),
        "C08" => c08::run(tier),
        "C09" => c09::run(tier),
        "C10" => c10::run(tier),
        "C11" => c11::run(tier),
        "C12" => c12::run(tier),
        "C13" => c13::run(tier),
        "C14" => c14::run(tier),
        "C15" => c15::run(tier),
        "C16" => c16::run(tier),
        "C17" => c17::run(tier),
        "C18" => c18::run(tier),
        _ => return None,
    })
}

fn main() {
    vcore::explore::install_panic_hook();
    let args: Vec<String> = std::env::args().collect();
    if args.len() < 3 && !(args.len() == 2 && args[1] == "diag") {
        eprintln!("usage: vmain <PROPERTY> <quick|thorough> | vmain replay <file>");
        std::process::exit(2);
    }
    if args[1] == "C16-fault" && args.len() >= 4 {
        std::process::exit(c16::fault_child(args[2].parse().unwrap_or(0), &args[3]));
    }
    if args[1] == "dump-corpus" && args.len() >= 4 {
        dump_corpus(&args[2], &args[3]);
        return;
    }
    if args[1] == "diag" {
        diag();
        return;
    }
    if args[1] == "replay" {
        let txt = std::fs::read_to_string(&args[2]).expect("cannot read replay file");
        let v: serde_json::Value = serde_json::from_str(&txt).expect("replay file is not json");
        let prop = v["property"].as_str().unwrap_or("").to_string();
        let res = match prop.as_str() {
            "C01" => c01::replay(&v["replay"]),
            "C02" => c02::replay(&v["replay"]),
            "C03" => c03::replay(&v["replay"]),
            "C04" => c04::replay(&v["replay"]),
            "C05" => c05::replay(&v["replay"]),
            "C06" => c06::replay(&v["replay"]),
            "C07" => c07::replay(&v["replay"]),
            "C08" => c08::replay(&v["replay"]),
            "C09" => c09::replay(&v["replay"]),
            "C10" => c10::replay(&v["replay"]),
            "C11" => c11::replay(&v["replay"]),
            "C12" => c12::replay(&v["replay"]),
            "C13" => c13::replay(&v["replay"]),
            "C14" => c14::replay(&v["replay"]),
            "C15" => c15::replay(&v["replay"]),
            "C16" => c16::replay(&v["replay"]),
            "C17" => c17::replay(&v["replay"]),
            "C18" => c18::replay(&v["replay"]),
            _ => Err(format!("no replay for property {prop}")),
        };
        match res {
            Ok(msg) => {
                println!("replay: property holds on this case: {msg}");
                std::process::exit(0);
            }
            Err(msg) => {
                println!("replay: VIOLATION reproduced: {msg}");
                std::process::exit(1);
            }
        }
    }
    let tier = std::env::var("VERIF_TIER").unwrap_or_else(|_| args[2].clone());
    match run_property(&args[1], &tier) {
        Some(run) => std::process::exit(run.finish()),
        None => {
            eprintln!("unknown property {}", args[1]);
            std::process::exit(2);
        }
    }
}

pub mod corpus;

#[allow(dead_code)]
pub fn diag() {
    use crate::util::*;
    let g = corpus::grammar();
    let mut all = corpus::carriers(&g);
    all.extend(corpus::opt_docs(&g, 1));
    all.extend(corpus::enum_docs(&g));
    all.extend(corpus::rich_docs(&g));
    all.extend(corpus::opt_pair_docs(&g, None));
    println!("{} documents", all.len());
    let mut bad = 0;
    for d in &all {
        let text = d.doc.text();
        match load(&text, None, true) {
            Loaded::Ok(_, log) => {
                if !log.is_empty() {
                    bad += 1;
                    if bad < 30 {
                        println!("WARN {} v{}: {}", d.label, d.doc.version, log[0]);
                    }
                }
            }
            Loaded::Err(e) => {
                bad += 1;
                if bad < 30 {
                    println!("ERR {} v{}: {e}\n{text}", d.label, d.doc.version);
                }
            }
            Loaded::Panic(p) => println!("PANIC {}: {p}", d.label),
        }
    }
    println!("bad: {bad}");
}

/// the inputs of C20: the C04 space, a stride of the C01 cases and the C06 token mutations
pub fn multi_module_docs() -> Vec<String> {
    const A2MLS: [Option<&str>; 5] = [
        None,
        Some("block \"IF_DATA\" taggedunion { \"ZZ\" uint; \"YY\" struct { uint; uint; }; };"),
        Some("block \"IF_DATA\" taggedunion { \"ZZ\" ulong; \"YY\" struct { ulong; ulong; }; };"),
        Some("block \"IF_DATA\" taggedunion { \"ZZ\" float; \"YY\" struct { uint; float; }; };"),
        Some("block \"IF_DATA\" taggedunion { \"ZZ\" char[8]; \"YY\" (uint)*; };"),
    ];
    const PAYLOADS: [Option<&str>; 6] = [None, Some("ZZ 1"), Some("ZZ 0x12345"), Some("ZZ 1.5"), Some("ZZ \"s\""), Some("YY 1 2")];
    let module = |name: &str, a: Option<&str>, p: Option<&str>, q: Option<&str>| {
        let mut s = format!("  /begin MODULE {name} \"\"\n");
        if let Some(a) = a {
            s.push_str(&format!("    /begin A2ML\n      {a}\n    /end A2ML\n"));
        }
        if let Some(p) = p {
            s.push_str(&format!("    /begin IF_DATA {p}\n    /end IF_DATA\n"));
        }
        s.push_str(&format!("    /begin MEASUREMENT {name}_x \"\" UBYTE NO_COMPU_METHOD 0 0 0 255\n"));
        if let Some(q) = q {
            s.push_str(&format!("      /begin IF_DATA {q}\n      /end IF_DATA\n"));
        }
        s.push_str("    /end MEASUREMENT\n  /end MODULE\n");
        s
    };
    let doc = |mods: &[String]| format!("ASAP2_VERSION 1 71\n/begin PROJECT p \"\"\n{}/end PROJECT\n", mods.concat());
    let mut out = Vec::new();
    // two modules: every pair of definitions, every pair of payloads (module level in the first, both levels in the second)
    for a0 in A2MLS {
        for a1 in A2MLS {
            for p0 in PAYLOADS {
                for p1 in PAYLOADS {
                    out.push(doc(&[module("m0", a0, p0, None), module("m1", a1, p1, p0)]));
                }
            }
        }
    }
    // three modules over three definitions and two payloads
    for a in 0..27usize {
        for p in 0..8usize {
            let defs = [A2MLS[1 + a % 3], A2MLS[1 + (a / 3) % 3], A2MLS[1 + (a / 9) % 3]];
            let pls = [[PAYLOADS[2], PAYLOADS[3]][p % 2], [PAYLOADS[2], PAYLOADS[3]][(p / 2) % 2], [PAYLOADS[2], PAYLOADS[3]][(p / 4) % 2]];
            out.push(doc(&[module("m0", defs[0], pls[0], None), module("m1", defs[1], None, pls[1]), module("m2", defs[2], pls[2], pls[2])]));
        }
    }
    out
}

fn dump_corpus(tier: &str, path: &str) {
    use std::io::Write;
    let g = corpus::grammar();
    let thorough = tier == "thorough";
    let mut texts: Vec<String> = Vec::new();
    for c in c04::build_space(&g, thorough) {
        texts.push(c.doc.text());
    }
    let stride = if thorough { 1 } else { 6 };
    for (i, c) in c01::build_cases(&g, thorough).into_iter().enumerate() {
        if i % stride == 0 && c.spec.is_none() {
            texts.push(c.text);
        }
    }
    for (_, t) in c02::position_docs(&g).into_iter().chain(c02::position_mixed_docs(&g)) {
        texts.push(t);
    }
    for l in c06::build(&g, false) {
        if l.class.starts_with("token-") || l.class == "truncate" {
            texts.push(l.text);
        }
    }
    // file trees (loaded through a2lfile::load): a stride of the C16 include trees, each also with a comment at the top of, between
    // the blocks of and at the end of every included file
    for (i, t) in c16::build(&g, false).into_iter().enumerate() {
        if i % (if thorough { 5 } else { 23 }) != 0 || t.a2ml_include {
            continue;
        }
        for commented in [false, true] {
            let mut s = String::from("\u{1}TREE");
            for (fi, (name, content)) in t.files.iter().enumerate() {
                let c = if commented && fi > 0 {
                    let mid = content.replacen("\n/begin ", "\n/* between */\n/begin ", 1).replacen("\n    /begin ", "\n    // between\n    /begin ", 1);
                    format!("/* header of {name} */\n{mid}// end of {name}\n")
                } else {
                    content.clone()
                };
                s.push_str(&format!("\u{1}FILE {name}\n{c}"));
            }
            texts.push(s);
        }
    }
    // several MODULEs, each with its own (or without an) A2ML block, and IF_DATA at module level and inside a MEASUREMENT that
    // fits one, both or neither of the definitions: which definition reads which block, in which order they are tried and what
    // an unsuccessful attempt leaves behind (uids) is behaviour of the hand-maintained A2ml::parse / IfData::parse
    texts.extend(multi_module_docs());
    let mut seen = std::collections::HashSet::new();
    texts.retain(|t| seen.insert(vcore::explore::fnv1a(t.as_bytes())));
    let mut f = std::io::BufWriter::new(std::fs::File::create(path).expect("cannot create corpus file"));
    for t in &texts {
        f.write_all(&(t.len() as u32).to_le_bytes()).unwrap();
        f.write_all(t.as_bytes()).unwrap();
    }
    println!("{} inputs", texts.len());
}
