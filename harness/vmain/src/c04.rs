//! C04 — grammar conformance: the shipped parser accepts exactly the language of the frozen
//! grammar (reference interpreter I), shows every value in the model (R), and reports the
//! corresponding diagnostic class for each single deviation.

use crate::corpus::{self, CDoc};
use crate::util::*;
use serde_json::{json, Value};
use vcore::explore::{fnv1a, par_map};
use vcore::grammar::Grammar;
use vcore::interp::{recognise_text, Class};
use vcore::report::Run;

fn mapped_variant(c: &Class) -> Option<&'static str> {
    Some(match c {
        Class::NeedsBlock => "ParserError/IncorrectBlockError",
        Class::NeedsKeyword => "ParserError/IncorrectKeywordError",
        Class::BadEnum => "ParserError/InvalidEnumValue",
        Class::UnknownTag => "ParserError/UnknownSubBlock",
        Class::TooMany => "ParserError/InvalidMultiplicityTooMany",
        Class::Missing => "ParserError/InvalidMultiplicityNotPresent",
        Class::BlockTooNew => "ParserError/BlockRefTooNew",
        Class::EnumTooNew => "ParserError/EnumRefTooNew",
        Class::EndTag => "ParserError/IncorrectEndTag",
        Class::MissingVersion => "ParserError/MissingVersionInfo",
        _ => return None,
    })
}

fn is_deprecation(v: &str) -> bool {
    v == "ParserError/BlockRefDeprecated" || v == "ParserError/EnumRefDeprecated"
}

pub struct Res {
    pub hash: u64,
    pub outcome: String,
    pub viol: Option<(String, String)>,
    pub machinery: Option<String>,
}

/// the label without concrete tags, for grouping violation keys
fn shape(label: &str) -> String {
    // keep the deviation kinds, drop arguments
    label
        .split(" + ")
        .map(|p| p.split('(').next().unwrap_or(p).to_string())
        .collect::<Vec<_>>()
        .join("+")
}

pub fn eval(g: &Grammar, c: &CDoc) -> Res {
    let text = c.doc.text();
    let hash = fnv1a(text.as_bytes());
    let iv = recognise_text(g, &text);
    let strict = load(&text, None, true);
    let lax = load(&text, None, false);
    let mut res = Res { hash, outcome: String::new(), viol: None, machinery: None };
    let elem = c.path.is_empty().then(|| "-".to_string()).unwrap_or_else(|| c.doc.root.at(&c.path).tag.clone());
    let viol = |oracle: &str, what: String| Some((format!("C04/{oracle}/{}/{}", shape(&c.label), elem), format!("{}: {what}", c.label)));
    if let Loaded::Panic(p) = &strict {
        res.viol = Some((format!("C04/panic {}", vcore::explore::panic_key(p)), format!("{}: strict load panicked: {p}", c.label)));
        return res;
    }
    if let Loaded::Panic(p) = &lax {
        res.viol = Some((format!("C04/panic {}", vcore::explore::panic_key(p)), format!("{}: load panicked: {p}", c.label)));
        return res;
    }
    match iv {
        Ok(acc) => {
            let ndep = acc.deprecated.len();
            res.outcome = if ndep == 0 { "accepted".into() } else { "accepted-with-deprecation".into() };
            match strict {
                Loaded::Ok(f, log) => {
                    let vars: Vec<String> = log.iter().map(variant_of).collect();
                    if ndep == 0 && !log.is_empty() {
                        res.viol = viol("valid-doc-diagnosed", format!("grammar-conforming document produced diagnostics in strict mode: {}", log[0]));
                        return res;
                    }
                    if ndep > 0 {
                        if vars.iter().any(|v| !is_deprecation(v)) {
                            res.viol = viol("valid-doc-diagnosed", format!("unexpected diagnostic {}", vars.join(",")));
                            return res;
                        }
                        if vars.len() != ndep {
                            res.viol = viol("deprecation-count", format!("{} deprecated uses in the document, {} deprecation notices", ndep, vars.len()));
                            return res;
                        }
                        // the class of the notice: a deprecated enum item is not a deprecated sub-block
                        let n_enum = acc.deprecated.iter().filter(|d| d.1.starts_with("enum:")).count();
                        let got_enum = vars.iter().filter(|v| v.ends_with("EnumRefDeprecated")).count();
                        if got_enum != n_enum {
                            res.viol = viol("deprecation-class", format!("{n_enum} deprecated enum items and {} deprecated elements in the document, the notices are [{}]", ndep - n_enum, vars.join(",")));
                            return res;
                        }
                    }
                    // every value readable from the model
                    let dbg = format!("{f:?}");
                    match vcore::dbgtree::parse(&dbg) {
                        Err(e) => res.machinery = Some(format!("cannot parse Debug output: {e}")),
                        Ok(d) => {
                            let lexed = vcore::reftok::lex(&text).unwrap();
                            if let Err(m) = vcore::modelmatch::match_node(g, &acc.root, &lexed.tokens, &d, "") {
                                res.viol = viol("model-value", m);
                                return res;
                            }
                        }
                    }
                    // lax must agree completely
                    match lax {
                        Loaded::Ok(f2, log2) => {
                            if f2 != f || log2.len() != vars.len() {
                                res.viol = viol("lax-differs-on-valid", "non-strict result differs from strict result on a valid document".into());
                            }
                        }
                        _ => res.viol = viol("lax-differs-on-valid", "non-strict load fails on a valid document".into()),
                    }
                }
                Loaded::Err(e) => {
                    res.viol = viol("valid-doc-rejected", format!("grammar-conforming document rejected in strict mode: {e}"));
                }
                Loaded::Panic(_) => unreachable!(),
            }
        }
        Err(rej) => {
            res.outcome = format!("rejected:{:?}", rej.class);
            let svar = match &strict {
                Loaded::Err(e) => Some(variant_of(e)),
                Loaded::Ok(_, log) => {
                    if log.iter().map(variant_of).all(|v| is_deprecation(&v)) {
                        res.viol = viol(
                            "invalid-doc-accepted",
                            format!("document outside the grammar ({:?}: {}) accepted in strict mode without a diagnostic", rej.class, rej.detail),
                        );
                        return res;
                    }
                    None
                }
                Loaded::Panic(_) => unreachable!(),
            };
            // the diagnostic class is stated for single deviations; with two the first one detected decides and the
            // mapping is not defined by the property: only accept / reject and totality are judged
            if c.deviations >= 2 {
                return res;
            }
            if let Some(want) = mapped_variant(&rej.class) {
                match &svar {
                    Some(v) if v == want => {}
                    Some(v) => {
                        res.viol = viol("diagnostic-class", format!("deviation {:?} ({}) must give {want}, strict mode gave {v}", rej.class, rej.detail));
                        return res;
                    }
                    None => {
                        res.viol = viol("diagnostic-class", format!("deviation {:?} must give {want} as an error in strict mode, got a warning only", rej.class));
                        return res;
                    }
                }
                // non-strict: the same class as a warning or as an error
                // (when the non-strict load fails later for another reason the log is not observable)
                let lvars: Vec<String> = match &lax {
                    Loaded::Ok(_, log) => log.iter().map(variant_of).collect(),
                    Loaded::Err(_) => vec![want.to_string()],
                    Loaded::Panic(_) => unreachable!(),
                };
                if !lvars.iter().any(|v| v == want) {
                    res.viol = viol("diagnostic-class-lax", format!("deviation {:?} must give {want} in non-strict mode, got [{}]", rej.class, lvars.join(",")));
                }
            }
        }
    }
    res
}

pub fn build_space(g: &Grammar, thorough: bool) -> Vec<CDoc> {
    let mut base = corpus::carriers(g);
    base.extend(corpus::opt_docs(g, 1));
    let mut all: Vec<CDoc> = Vec::new();
    // deviations of the element under test
    for b in &base {
        all.extend(corpus::deviations(g, b));
    }
    all.extend(corpus::missing_required(g));
    // integer literals at, inside and beyond the limits of every integer parameter, decimal and hex (a hex literal is a bit
    // pattern of at most the width of the field): the reference interpreter decides which ones are in the language
    for b in corpus::carriers(g) {
        if b.path.is_empty() {
            continue;
        }
        let node = b.doc.root.at(&b.path).clone();
        if !node.known || node.raw.is_some() {
            continue;
        }
        for (pi, p) in node.params.iter().enumerate() {
            // (fixed parameters only: inside an identifier list an over-long word ends the list, and which diagnostic follows is
            // a matter of where the list is taken to end)
            if matches!(p.ty, vcore::grammar::PType::Ident) && matches!(g.elem(&node.tag).items.get(p.item), Some(vcore::grammar::Item::Single { .. })) {
                // identifier lengths at the limit (1024 bytes), identifier shapes with dots and brackets
                for (n, lit) in [("len-1023", "a".repeat(1023)), ("len-1024", "b".repeat(1024)), ("len-1025", "c".repeat(1025)), ("dotted-1024", format!("{}.{}", "d".repeat(511), "e".repeat(512))), ("one-char", "z".to_string())] {
                    let mut d2 = b.clone();
                    d2.doc.root.at_mut(&b.path).params[pi].text = lit;
                    d2.label = format!("{} + ident({},{n})", b.label, p.field);
                    d2.deviations = 1;
                    all.push(d2);
                }
                continue;
            }
            if !p.ty.is_int() {
                continue;
            }
            let (lo, hi) = p.ty.int_min_max().unwrap();
            let (bits, _) = p.ty.int_shape().unwrap();
            let mut lits = crate::c01::int_literals(&p.ty);
            lits.push(("max+1".into(), (hi + 1).to_string()));
            lits.push(("min-1".into(), (lo - 1).to_string()));
            if bits < 64 {
                lits.push(("hex-one-bit-too-wide".into(), format!("0x{:X}", 1u128 << bits)));
            } else {
                lits.push(("hex-one-digit-too-wide".into(), "0x10000000000000000".into()));
            }
            for (n, lit) in lits {
                let mut d2 = b.clone();
                d2.doc.root.at_mut(&b.path).params[pi].text = lit;
                d2.label = format!("{} + int({},{n})", b.label, p.field);
                d2.deviations = 1;
                all.push(d2);
            }
        }
    }
    let mut valid = base.clone();
    valid.extend(corpus::opt_docs(g, 2));
    valid.extend(corpus::enum_docs(g));
    valid.extend(corpus::same_name_docs(g));
    valid.extend(corpus::seq_len_docs(g));
    valid.extend(corpus::rich_docs(g));
    if thorough {
        valid.extend(corpus::opt_pair_docs(g, None));
    } else {
        valid.extend(corpus::opt_pair_docs(g, Some(&["MEASUREMENT", "RECORD_LAYOUT", "MOD_COMMON"])));
    }
    // every document under all six versions
    for d in &valid {
        for v in 0..6 {
            let mut d2 = d.clone();
            corpus::set_version(&mut d2.doc, v);
            d2.label = format!("{} @v{}", d.label, v);
            all.push(d2);
        }
    }
    if thorough {
        // two deviations of the element under test (every ordered composition of two single deviations on every carrier)
        for b in &base {
            for d1 in corpus::deviations(g, b) {
                all.extend(corpus::deviations(g, &d1));
            }
        }
        // deviations under an old and a middle version as well
        for b in &base {
            for v in [1usize, 3] {
                let mut b2 = b.clone();
                corpus::set_version(&mut b2.doc, v);
                b2.label = format!("{} @v{}", b.label, v);
                all.extend(corpus::deviations(g, &b2));
            }
        }
    }
    all
}

pub fn run(tier: &str) -> Run {
    let mut run = Run::new("C04", tier);
    let g = corpus::grammar();
    // drift report: frozen grammar vs the DSL in the repository (reported, not judged: C20 pins that)
    if let Ok(txt) = std::fs::read_to_string("/repo/a2lfile/src/specification_orig.rs") {
        if let Some(dsl) = vcore::grammar::extract_dsl(&txt) {
            let norm = |s: &str| s.split_whitespace().collect::<Vec<_>>().join(" ");
            let same = norm(&dsl) == norm(vcore::grammar::frozen_grammar_text());
            run.extra.insert("frozen_grammar_equals_repo_dsl".into(), json!(same));
        }
    }
    let space = build_space(&g, crate::util::wide(tier));
    let res = par_map(space.len(), &|i| eval(&g, &space[i]), &|i| {
        println!("MACHINERY-ERROR: C04 case {} hangs: {}", i, space[i].label);
        std::process::exit(2);
    });
    for (i, r) in res.into_iter().enumerate() {
        run.evaluations += 1;
        run.transitions += 2;
        if run.states.insert(r.hash) && r.outcome != "accepted" {
            run.nontrivial.insert(r.hash);
        }
        run.outcome(&r.outcome);
        if let Some(m) = r.machinery {
            run.machinery(format!("{}: {m}", space[i].label));
        }
        if let Some((k, w)) = r.viol {
            run.violation(k, w, json!({"text": space[i].doc.text(), "label": space[i].label}));
        }
        if i % 9973 == 0 {
            run.sample(json!({"label": space[i].label, "text": space[i].doc.text()}));
        }
    }
    for c in ["rejected:NeedsBlock", "rejected:NeedsKeyword", "rejected:BadEnum", "rejected:UnknownTag", "rejected:TooMany", "rejected:Missing", "rejected:BlockTooNew", "rejected:EnumTooNew", "rejected:EndTag", "accepted-with-deprecation", "accepted"] {
        run.require(c, 3);
    }
    run.rule = "every tag of the frozen grammar x {carrier, each optional slot once/twice, each enum item, pairs of slots} x six ASAP2 versions, plus for the element under test: every parameter deleted / replaced by each other lexical class, extra token, block form flipped, wrong end tag, unknown block first/last, required element missing; thorough: every composition of two such deviations on every carrier and optional-slot document (accept / reject and model only). Oracle: reference interpreter over the frozen grammar + field-by-field match of the Debug tree. distinct = distinct text; non-trivial = not plainly accepted".into();
    run.assumptions = vec!["frozen grammar (model/a2l_171.grammar) is the A2L 1.7.1 reference; agreement with the repository's DSL is reported in coverage.frozen_grammar_equals_repo_dsl".into()];
    run
}

pub fn replay(v: &Value) -> Result<String, String> {
    // a replay re-evaluates the stored text: the verdict needs the derivation tree, so the
    // stored label is used to find the document again in the thorough space
    let label = v["label"].as_str().ok_or("no label")?;
    let g = corpus::grammar();
    let space = build_space(&g, true);
    let Some(c) = space.iter().find(|c| c.label == label) else {
        return Err(format!("case {label} not found in the space"));
    };
    let r = eval(&g, c);
    match r.viol {
        Some((k, w)) => Err(format!("{k}: {w}")),
        None => Ok(format!("{label}: {}", r.outcome)),
    }
}
