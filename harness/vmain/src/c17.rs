//! C17 — the loaded model does not depend on the file's text encoding (lockstep file vs string).

use crate::corpus;
use crate::util::*;
use serde_json::{json, Value};
use std::collections::HashMap;
use vcore::docgen::*;
use vcore::explore::{fnv1a, guard, par_map};
use vcore::grammar::Grammar;
use vcore::report::Run;

pub const ENCODINGS: [&str; 10] = ["utf8", "utf8+bom", "utf16le", "utf16le+bom", "utf16be", "utf16be+bom", "utf32le", "utf32le+bom", "utf32be", "utf32be+bom"];

pub fn encode(text: &str, enc: &str) -> Vec<u8> {
    let bom = enc.ends_with("+bom");
    let base = enc.trim_end_matches("+bom");
    let mut s = String::new();
    if bom {
        s.push('\u{feff}');
    }
    s.push_str(text);
    match base {
        "utf8" => s.into_bytes(),
        "utf16le" => s.encode_utf16().flat_map(|u| u.to_le_bytes()).collect(),
        "utf16be" => s.encode_utf16().flat_map(|u| u.to_be_bytes()).collect(),
        "utf32le" => s.chars().flat_map(|c| (c as u32).to_le_bytes()).collect(),
        "utf32be" => s.chars().flat_map(|c| (c as u32).to_be_bytes()).collect(),
        _ => unreachable!(),
    }
}

fn latin1(bytes: &[u8]) -> String {
    bytes.iter().map(|b| *b as char).collect()
}

#[derive(Debug, PartialEq)]
enum Obs {
    Ok(String, usize),
    Err(String),
}

fn observe_file(path: &std::path::Path) -> Result<Obs, String> {
    guard(|| match a2lfile::load(path, None, false) {
        Ok((f, log)) => Obs::Ok(vcore::dbgtree::canon_debug(&format!("{f:?}")), log.len()),
        Err(e) => Obs::Err(variant_of(&e)),
    })
}

fn observe_str(text: &str) -> Result<Obs, String> {
    guard(|| match a2lfile::load_from_string(text, None, false) {
        Ok((f, log)) => Obs::Ok(vcore::dbgtree::canon_debug(&format!("{f:?}")), log.len()),
        Err(e) => Obs::Err(variant_of(&e)),
    })
}

pub struct Case17 {
    pub label: String,
    pub class: String,
    pub bytes: Vec<u8>,
    /// the text the file must behave like
    pub expect: String,
}

const SPECIAL: [&str; 8] = ["é", "ß€", "😀", "\u{fffd}", "aé😀b€", "Ã¤", "a\u{feff}b", "\u{fffe}\u{ffff}x"];

fn documents(g: &Grammar, thorough: bool) -> Vec<(String, String)> {
    let mut out = Vec::new();
    let mut carriers = corpus::carriers(g);
    if thorough {
        carriers.extend(corpus::opt_docs(g, 1));
        carriers.extend(corpus::rich_docs(g));
    }
    let mut n = 0;
    for c in &carriers {
        if c.path.is_empty() {
            continue;
        }
        let node = c.doc.root.at(&c.path);
        let Some(pi) = node.params.iter().position(|p| p.kind == TKind::Str) else { continue };
        n += 1;
        let _ = thorough;
        let sp = SPECIAL[n % SPECIAL.len()];
        let mut d = c.doc.clone();
        d.root.at_mut(&c.path).params[pi].text = format!("\"x{sp}y\"");
        let toks = d.tokens();
        // a block comment before the element under test and a line comment at the end
        let mut gaps = HashMap::new();
        let gi = toks.iter().position(|t| t.starts_line && t.depth >= 2).unwrap_or(toks.len() - 1);
        gaps.insert(gi, format!("\n/* {sp} */\n"));
        gaps.insert(toks.len(), format!("\n// end {sp}\n"));
        out.push((format!("{} with {sp:?}", c.label), render(&toks, &gaps)));
        // the same document with ASCII characters only (nothing in the file tells a detector that it is not plain ASCII)
        if n % 4 == 1 {
            out.push((format!("{} ASCII only", c.label), c.doc.text()));
        }
    }
    out
}

pub fn build(g: &Grammar, thorough: bool) -> Vec<Case17> {
    let mut out = Vec::new();
    let docs = documents(g, thorough);
    for (label, text) in &docs {
        for enc in ENCODINGS {
            for pad in 0..4usize {
                let padded = format!("{text}{}", " ".repeat(pad));
                out.push(Case17 { label: format!("{label} as {enc} pad {pad}"), class: format!("valid:{enc}"), bytes: encode(&padded, enc), expect: padded });
            }
        }
        // the first character: every ASCII character a file can start with (white space, a comment, a keyword, /begin);
        // the detection of BOM-less UTF-16 / UTF-32 looks at the first bytes
        for (lname, lead) in [("lf", "\n"), ("space", " "), ("tab", "\t"), ("crlf", "\r\n"), ("lf-lf-space", "\n\n "), ("block-comment", "/* c */\n"), ("line-comment", "// c\n"), ("non-ascii-comment", "/* é */\n")] {
            for enc in ENCODINGS {
                for pad in [0usize, 1] {
                    let t2 = format!("{lead}{text}{}", " ".repeat(pad));
                    out.push(Case17 { label: format!("{label} with leading {lname} as {enc} pad {pad}"), class: format!("valid:lead-{lname}:{enc}"), bytes: encode(&t2, enc), expect: t2 });
                }
            }
        }
        // a UTF-16 / UTF-32 file whose length is not a whole number of code units (one byte appended / the last byte cut off)
        // is not valid in that encoding: it is read as UTF-8 if the bytes happen to be valid UTF-8, else as Latin-1
        for enc in ["utf16le", "utf16le+bom", "utf16be", "utf16be+bom", "utf32le", "utf32le+bom", "utf32be", "utf32be+bom"] {
            let full = encode(text, enc);
            for (how, bytes) in [("one byte appended", { let mut b = full.clone(); b.push(0x20); b }), ("last byte cut off", full[..full.len() - 1].to_vec()), ("three bytes appended", { let mut b = full.clone(); b.extend([0x20, 0x20, 0x20]); b })] {
                if enc.starts_with("utf16") && how == "three bytes appended" {
                    continue;
                }
                let expect = match String::from_utf8(bytes.clone()) {
                    Ok(s) => s.strip_prefix('\u{feff}').map(|x| x.to_string()).unwrap_or(s),
                    Err(_) => latin1(&bytes),
                };
                out.push(Case17 { label: format!("{label} as {enc}, {how}"), class: format!("invalid:{}-broken-length", enc.trim_end_matches("+bom")), bytes, expect });
            }
        }
        // the file ends inside a line comment without a line break: any character can be the last one of a legal file. Characters
        // whose last encoded byte is a control code in some encoding (0x1A, 0x00, 0x0A, 0x0D, 0x04, 0x20)
        for ch in ['\u{221A}', '\u{011A}', '\u{1A00}', '\u{4E1A}', '\u{1F61A}', '\u{0100}', '\u{010A}', '\u{0D00}', '\u{2004}', '\u{2000}', '\u{1A}', 'z'] {
            for enc in ENCODINGS {
                let t2 = format!("{}\n// the last character is {ch}", text.trim_end());
                out.push(Case17 { label: format!("{label} ending in a line comment whose last character is U+{:04X} as {enc}", ch as u32), class: format!("valid:last-char:{enc}"), bytes: encode(&t2, enc), expect: t2 });
            }
        }
        // a UTF-32 file of whole code units in which one unit in the middle is no Unicode scalar value (the bytes are no valid
        // UTF-16 and no valid UTF-8 either): not valid Unicode, read as Latin-1 as a whole - not cut off in front of the damage
        for enc in ["utf32le", "utf32le+bom", "utf32be", "utf32be+bom"] {
            let mut bytes = encode(text, enc);
            let units = bytes.len() / 4;
            for at in [units / 2, units - 1] {
                let mut b = bytes.clone();
                let bad: [u8; 4] = if enc.starts_with("utf32le") { [0x00, 0xD8, 0x00, 0xD8] } else { [0xD8, 0x00, 0xD8, 0x00] };
                b[at * 4..at * 4 + 4].copy_from_slice(&bad);
                out.push(Case17 { label: format!("{label} as {enc} with code unit {at} of {units} replaced by 0xD800D800"), class: format!("invalid:{}-bad-unit", enc.trim_end_matches("+bom")), expect: latin1(&b), bytes: b });
            }
            bytes.clear();
        }
        // not valid Unicode -> read as Latin-1 as a whole
        let utf8 = text.as_bytes().to_vec();
        // (a) a stray byte at the end, (b) in the middle of the first string, (c) a truncated multi-byte sequence
        let mut v1 = utf8.clone();
        v1.push(0xFF);
        out.push(Case17 { label: format!("{label}: utf-8 with a stray 0xFF at the end"), class: "invalid:utf8-stray-end".into(), expect: latin1(&v1), bytes: v1 });
        if let Some(p) = text.find("\"x") {
            let mut v2 = utf8.clone();
            v2.insert(p + 1, 0xE9);
            out.push(Case17 { label: format!("{label}: utf-8 with a Latin-1 e-acute"), class: "invalid:utf8-latin1-byte".into(), expect: latin1(&v2), bytes: v2 });
        }
        if let Some(p) = utf8.iter().rposition(|b| *b >= 0xC0) {
            let mut v3 = utf8.clone();
            v3.remove(p + 1);
            out.push(Case17 { label: format!("{label}: utf-8 with a truncated sequence"), class: "invalid:utf8-truncated-seq".into(), expect: latin1(&v3), bytes: v3 });
        }
    }
    out
}

fn eval(c: &Case17, dir: &std::path::Path) -> Result<&'static str, (&'static str, String)> {
    use std::hash::{Hash, Hasher};
    let mut h = std::collections::hash_map::DefaultHasher::new();
    std::thread::current().id().hash(&mut h);
    let p = dir.join(format!("e{}.a2l", h.finish() % 4096));
    std::fs::write(&p, &c.bytes).map_err(|e| ("machinery", format!("cannot write scratch file: {e}")))?;
    let a = observe_file(&p).map_err(|p| ("panic", p))?;
    let b = observe_str(&c.expect).map_err(|p| ("panic", p))?;
    if a != b {
        let what = match (&a, &b) {
            (Obs::Ok(x, _), Obs::Ok(y, _)) => {
                let pos = x.bytes().zip(y.bytes()).position(|(p, q)| p != q).unwrap_or(0);
                let s = pos.saturating_sub(40);
                let cut = |t: &str| {
                    let mut i = s.min(t.len());
                    while !t.is_char_boundary(i) {
                        i -= 1;
                    }
                    short(&t[i..], 120)
                };
                format!("models differ near …{}… (file) vs …{}… (string)", cut(x), cut(y))
            }
            _ => format!("file gives {}, string gives {}", short(&format!("{a:?}"), 200), short(&format!("{b:?}"), 200)),
        };
        return Err(("model-depends-on-encoding", what));
    }
    Ok(match a {
        Obs::Ok(..) => "equal models",
        Obs::Err(_) => "both rejected",
    })
}

pub fn run(tier: &str) -> Run {
    let mut run = Run::new("C17", tier);
    let thorough = crate::util::wide(tier);
    let g = corpus::grammar();
    let cases = build(&g, thorough);
    let dir = {
        let base = if std::path::Path::new("/dev/shm").is_dir() { "/dev/shm".to_string() } else { std::env::temp_dir().to_string_lossy().into_owned() };
        let d = std::path::PathBuf::from(base).join(format!("verif-c17-{}", std::process::id()));
        let _ = std::fs::create_dir_all(&d);
        d
    };
    let res = par_map(cases.len(), &|i| eval(&cases[i], &dir), &|i| {
        println!("MACHINERY-ERROR: C17 case hangs: {}", cases[i].label);
        std::process::exit(2);
    });
    for (i, r) in res.into_iter().enumerate() {
        run.evaluations += 1;
        run.transitions += 2;
        let h = fnv1a(&cases[i].bytes);
        if run.states.insert(h) {
            run.nontrivial.insert(h);
        }
        let cls = cases[i].class.split(':').next().unwrap_or("").to_string();
        match r {
            Ok(o) => run.outcome(&format!("{cls}: {o}")),
            Err(("machinery", m)) => run.machinery(m),
            Err((o, w)) => {
                run.outcome(&format!("{cls}: violation"));
                let key = if o == "panic" { format!("C17/panic {}", vcore::explore::panic_key(&w)) } else { format!("C17/{o}/{}", cases[i].class) };
                run.violation(key, format!("{}: {w}", cases[i].label), json!({"bytes": cases[i].bytes, "expect": cases[i].expect}));
            }
        }
        if i % 3001 == 5 {
            run.sample(json!({"label": cases[i].label, "first_bytes": cases[i].bytes.iter().take(24).collect::<Vec<_>>()}));
        }
    }
    // include files in every encoding: the main file and the included file (A2L level and inside the A2ML block) are encoded
    // independently of each other; the result must be that of the flattened text
    {
        let head = "ASAP2_VERSION 1 71\n/begin PROJECT p \"é\"\n/begin MODULE m \"\"\n";
        let tail = "/begin MEASUREMENT m2 \"ß€\" UBYTE NO_COMPU_METHOD 0 0 0 255 /end MEASUREMENT\n/end MODULE\n/end PROJECT\n";
        let inc = "/* é😀 */\n/begin MEASUREMENT m1 \"x😀é\" UBYTE NO_COMPU_METHOD 0 0 0 255 /end MEASUREMENT\n";
        let aml = "/* ß😀 */ block \"IF_DATA\" taggedunion { \"VX\" uint; };\n";
        let mut combos: Vec<(String, Vec<(String, Vec<u8>)>, String)> = Vec::new();
        for em in ENCODINGS {
            for ei in ENCODINGS {
                for pad in [0usize, 1] {
                    let inc_p = format!("{inc}{}", " ".repeat(pad));
                    let main = format!("{head}/include \"inc.a2l\"\n{tail}");
                    combos.push((format!("main as {em}, included file as {ei} pad {pad}"), vec![("main.a2l".into(), encode(&main, em)), ("inc.a2l".into(), encode(&inc_p, ei))], format!("{head}{inc_p}\n{tail}")));
                    let main2 = format!("{head}/begin A2ML\n/include \"p.aml\"\n/end A2ML\n/begin IF_DATA VX 5 /end IF_DATA\n/begin IF_DATA VY 5 /end IF_DATA\n{tail}");
                    let aml_p = format!("{aml}{}", " ".repeat(pad));
                    combos.push((format!("main as {em}, A2ML include file as {ei} pad {pad}"), vec![("main.a2l".into(), encode(&main2, em)), ("p.aml".into(), encode(&aml_p, ei))], format!("{head}/begin A2ML\n{aml_p}\n/end A2ML\n/begin IF_DATA VX 5 /end IF_DATA\n/begin IF_DATA VY 5 /end IF_DATA\n{tail}")));
                }
            }
        }
        let ires = par_map(
            combos.len(),
            &|i| {
                let (_, files, flat) = &combos[i];
                use std::hash::{Hash, Hasher};
                let mut h = std::collections::hash_map::DefaultHasher::new();
                std::thread::current().id().hash(&mut h);
                let d = dir.join(format!("inc{}", h.finish() % 4096));
                let _ = std::fs::create_dir_all(&d);
                for (n, b) in files {
                    if std::fs::write(d.join(n), b).is_err() {
                        return Err(("machinery", "cannot write scratch file".to_string()));
                    }
                }
                // (the A2ML text keeps its own /include directive: compare what the definition is used for)
                let obs = |r: Result<(a2lfile::A2lFile, Vec<a2lfile::A2lError>), a2lfile::A2lError>| match r {
                    Ok((f, log)) => {
                        let m = &f.project.module[0];
                        format!("ok: {} measurements {:?}, if_data valid {:?}, {} diagnostics", m.measurement.len(), m.measurement.iter().map(|x| x.long_identifier.clone()).collect::<Vec<_>>(), m.if_data.iter().map(|i| i.ifdata_valid).collect::<Vec<_>>(), log.len())
                    }
                    Err(e) => format!("err: {}", variant_of(&e)),
                };
                let a = guard(|| obs(a2lfile::load(d.join("main.a2l"), None, false))).map_err(|p| ("panic", p))?;
                let b = guard(|| obs(a2lfile::load_from_string(flat, None, false))).map_err(|p| ("panic", p))?;
                if a != b {
                    return Err(("model-depends-on-encoding", format!("files give [{a}], the flattened text gives [{b}]")));
                }
                Ok(())
            },
            &|i| {
                println!("MACHINERY-ERROR: C17 include case hangs: {}", combos[i].0);
                std::process::exit(2);
            },
        );
        for (i, r) in ires.into_iter().enumerate() {
            run.evaluations += 1;
            run.transitions += 2;
            run.states.insert(fnv1a(combos[i].0.as_bytes()));
            match r {
                Ok(()) => run.outcome("include: equal to the flattened text"),
                Err(("machinery", m)) => run.machinery(m),
                Err((o, w)) => {
                    let cls = if combos[i].0.contains("A2ML") { "a2ml-include" } else { "include" };
                    let key = if o == "panic" { format!("C17/panic {}", vcore::explore::panic_key(&w)) } else { format!("C17/{o}/{cls}") };
                    run.violation(key, format!("{}: {w}", combos[i].0), json!({"files": combos[i].1.iter().map(|(n, b)| (n.clone(), b.clone())).collect::<Vec<_>>(), "flat": combos[i].2}));
                }
            }
        }
        run.require("include: equal to the flattened text", 300);
    }
    // include files: main file x included file (A2L level and inside the A2ML block) in all 10 x 10 encoding combinations x 2 paddings against the flattened text; totality: every 4-byte prefix over the encoding-relevant bytes followed by a body in three encodings
    let alpha: [u8; 9] = [0x00, 0x41, 0xFE, 0xFF, 0xEF, 0xBB, 0xBF, 0xD8, 0xDC];
    let body = "ASAP2_VERSION 1 71 /begin PROJECT p \"é😀\" /begin MODULE m \"\" /end MODULE /end PROJECT";
    let bodies: Vec<Vec<u8>> = vec![body.as_bytes().to_vec(), encode(body, "utf16le"), encode(body, "utf16be"), encode(body, "utf32le"), encode(body, "utf32be")];
    let n = 9usize.pow(4) * bodies.len() * if thorough { 4 } else { 1 };
    let tres = par_map(
        n,
        &|i| {
            let pad = i / (9usize.pow(4) * bodies.len());
            let j = i % (9usize.pow(4) * bodies.len());
            let bi = j / 9usize.pow(4);
            let mut k = j % 9usize.pow(4);
            let mut v = Vec::new();
            for _ in 0..4 {
                v.push(alpha[k % 9]);
                k /= 9;
            }
            v.extend(&bodies[bi]);
            v.extend(std::iter::repeat(0x20u8).take(pad));
            use std::hash::{Hash, Hasher};
            let mut h = std::collections::hash_map::DefaultHasher::new();
            std::thread::current().id().hash(&mut h);
            let p = dir.join(format!("t{}.a2l", h.finish() % 4096));
            if std::fs::write(&p, &v).is_err() {
                return Ok(());
            }
            observe_file(&p).map(|_| ()).map_err(|p| (p, v))
        },
        &|i| {
            println!("MACHINERY-ERROR: C17 totality case {i} hangs");
            std::process::exit(2);
        },
    );
    for r in tres {
        run.evaluations += 1;
        run.transitions += 1;
        match r {
            Ok(()) => run.outcome("totality: returns"),
            Err((p, v)) => run.violation(format!("C17/panic {}", vcore::explore::panic_key(&p)), format!("byte prefix {:02x?}: {p}", &v[..4]), json!({"bytes": v, "expect": Value::Null})),
        }
    }
    let _ = std::fs::remove_dir_all(&dir);
    run.require("valid: equal models", 1000);
    run.require("invalid: equal models", 20);
    run.rule = "carrier documents with non-ASCII content (2-, 3- and 4-byte characters, U+FFFD, a UTF-8 look-alike of Latin-1) in a string, a block comment and a line comment x 10 encodings x trailing padding 0..3 (every length residue the encoding allows); each document also with 8 different beginnings (line feed, space, tab, CRLF, blank lines, block comment, line comment, comment with a non-ASCII character) x 10 encodings x 2 paddings; the same documents made invalid Unicode in three ways (stray byte, Latin-1 byte inside a string, truncated sequence) must behave like their Latin-1 reading; totality: every 4-byte prefix over {00,41,FE,FF,EF,BB,BF,D8,DC} in front of a body in five encodings. Oracle: load(file) and load_from_string(expected text) give the same result (Debug of the model, number of diagnostics, error variant).".into();
    run
}

pub fn replay(v: &Value) -> Result<String, String> {
    if let Some(files) = v.get("files").and_then(|f| f.as_array()) {
        let dir = std::env::temp_dir().join(format!("verif-c17-replay-{}", std::process::id()));
        let _ = std::fs::create_dir_all(&dir);
        for f in files {
            let n = f[0].as_str().unwrap_or("x");
            let b: Vec<u8> = f[1].as_array().map(|a| a.iter().map(|x| x.as_u64().unwrap_or(0) as u8).collect()).unwrap_or_default();
            std::fs::write(dir.join(n), b).map_err(|e| e.to_string())?;
        }
        let a = observe_file(&dir.join("main.a2l"));
        let b = observe_str(v["flat"].as_str().unwrap_or(""));
        let _ = std::fs::remove_dir_all(&dir);
        return match (a, b) {
            (Ok(Obs::Ok(..)), Ok(Obs::Ok(..))) | (Ok(Obs::Err(_)), Ok(Obs::Err(_))) => Ok("both load alike (model details are compared by the check)".into()),
            (Err(p), _) | (_, Err(p)) => Err(format!("panic: {p}")),
            (a, b) => Err(format!("files give {a:?}, flattened text gives {b:?}")),
        };
    }
    let bytes: Vec<u8> = v["bytes"].as_array().ok_or("no bytes")?.iter().map(|b| b.as_u64().unwrap_or(0) as u8).collect();
    let dir = std::env::temp_dir().join(format!("verif-c17-replay-{}", std::process::id()));
    let _ = std::fs::create_dir_all(&dir);
    let r = match v["expect"].as_str() {
        Some(e) => eval(&Case17 { label: String::new(), class: String::new(), bytes, expect: e.to_string() }, &dir).map(|s| s.to_string()).map_err(|(o, w)| format!("{o}: {w}")),
        None => {
            let p = dir.join("t.a2l");
            std::fs::write(&p, &bytes).map_err(|e| e.to_string())?;
            observe_file(&p).map(|_| "returns".to_string())
        }
    };
    let _ = std::fs::remove_dir_all(&dir);
    r
}
