//! C17 — the loaded model does not depend on the file's text encoding (lockstep file vs string).

use crate::corpus;
use crate::util::*;
use serde_json::{json, Value};
use std::collections::HashMap;
use vcore::docgen::*;
use vcore::explore::{fnv1a, guard, par_map};
use vcore::grammar::Grammar;
use vcore::report::Run;

pub const ENCODINGS: [&str; 10] = ["utf8", "utf8+bom", "utf16le", "utf16le+bom", "utf16be", "utf16be+bom", "utf32le", "utf32le+bom", "utf32be", "utf32be+bom"];

pub fn encode(text: &str, enc: &str) -> Vec<u8> {
    let bom = enc.ends_with("+bom");
    let base = enc.trim_end_matches("+bom");
    let mut s = String::new();
    if bom {
        s.push('\u{feff}');
    }
    s.push_str(text);
    match base {
        "utf8" => s.into_bytes(),
        "utf16le" => s.encode_utf16().flat_map(|u| u.to_le_bytes()).collect(),
        "utf16be" => s.encode_utf16().flat_map(|u| u.to_be_bytes()).collect(),
        "utf32le" => s.chars().flat_map(|c| (c as u32).to_le_bytes()).collect(),
        "utf32be" => s.chars().flat_map(|c| (c as u32).to_be_bytes()).collect(),
        _ => unreachable!(),
    }
}

fn latin1(bytes: &[u8]) -> String {
    bytes.iter().map(|b| *b as char).collect()
}

#[derive(Debug, PartialEq)]
enum Obs {
    Ok(String, usize),
    Err(String),
}

fn observe_file(path: &std::path::Path) -> Result<Obs, String> {
    guard(|| match a2lfile::load(path, None, false) {
        Ok((f, log)) => Obs::Ok(vcore::dbgtree::canon_debug(&format!("{f:?}")), log.len()),
        Err(e) => Obs::Err(variant_of(&e)),
    })
}

fn observe_str(text: &str) -> Result<Obs, String> {
    guard(|| match a2lfile::load_from_string(text, None, false) {
        Ok((f, log)) => Obs::Ok(vcore::dbgtree::canon_debug(&format!("{f:?}")), log.len()),
        Err(e) => Obs::Err(variant_of(&e)),
    })
}

pub struct Case17 {
    pub label: String,
    pub class: String,
    pub bytes: Vec<u8>,
    /// the text the file must behave like
    pub expect: String,
}

const SPECIAL: [&str; 6] = ["é", "ß€", "😀", "\u{fffd}", "aé😀b€", "Ã¤"];

fn documents(g: &Grammar, thorough: bool) -> Vec<(String, String)> {
    let mut out = Vec::new();
    let mut carriers = corpus::carriers(g);
    if thorough {
        carriers.extend(corpus::opt_docs(g, 1));
        carriers.extend(corpus::rich_docs(g));
    }
    let mut n = 0;
    for c in &carriers {
        if c.path.is_empty() {
            continue;
        }
        let node = c.doc.root.at(&c.path);
        let Some(pi) = node.params.iter().position(|p| p.kind == TKind::Str) else { continue };
        n += 1;
        let _ = thorough;
        let sp = SPECIAL[n % SPECIAL.len()];
        let mut d = c.doc.clone();
        d.root.at_mut(&c.path).params[pi].text = format!("\"x{sp}y\"");
        let toks = d.tokens();
        // a block comment before the element under test and a line comment at the end
        let mut gaps = HashMap::new();
        let gi = toks.iter().position(|t| t.starts_line && t.depth >= 2).unwrap_or(toks.len() - 1);
        gaps.insert(gi, format!("\n/* {sp} */\n"));
        gaps.insert(toks.len(), format!("\n// end {sp}\n"));
        out.push((format!("{} with {sp:?}", c.label), render(&toks, &gaps)));
    }
    out
}

pub fn build(g: &Grammar, thorough: bool) -> Vec<Case17> {
    let mut out = Vec::new();
    let docs = documents(g, thorough);
    for (label, text) in &docs {
        for enc in ENCODINGS {
            for pad in 0..4usize {
                let padded = format!("{text}{}", " ".repeat(pad));
                out.push(Case17 { label: format!("{label} as {enc} pad {pad}"), class: format!("valid:{enc}"), bytes: encode(&padded, enc), expect: padded });
            }
        }
        // the first character: every ASCII character a file can start with (white space, a comment, a keyword, /begin);
        // the detection of BOM-less UTF-16 / UTF-32 looks at the first bytes
        for (lname, lead) in [("lf", "\n"), ("space", " "), ("tab", "\t"), ("crlf", "\r\n"), ("lf-lf-space", "\n\n "), ("block-comment", "/* c */\n"), ("line-comment", "// c\n"), ("non-ascii-comment", "/* é */\n")] {
            for enc in ENCODINGS {
                for pad in [0usize, 1] {
                    let t2 = format!("{lead}{text}{}", " ".repeat(pad));
                    out.push(Case17 { label: format!("{label} with leading {lname} as {enc} pad {pad}"), class: format!("valid:lead-{lname}:{enc}"), bytes: encode(&t2, enc), expect: t2 });
                }
            }
        }
        // not valid Unicode -> read as Latin-1 as a whole
        let utf8 = text.as_bytes().to_vec();
        // (a) a stray byte at the end, (b) in the middle of the first string, (c) a truncated multi-byte sequence
        let mut v1 = utf8.clone();
        v1.push(0xFF);
        out.push(Case17 { label: format!("{label}: utf-8 with a stray 0xFF at the end"), class: "invalid:utf8-stray-end".into(), expect: latin1(&v1), bytes: v1 });
        if let Some(p) = text.find("\"x") {
            let mut v2 = utf8.clone();
            v2.insert(p + 1, 0xE9);
            out.push(Case17 { label: format!("{label}: utf-8 with a Latin-1 e-acute"), class: "invalid:utf8-latin1-byte".into(), expect: latin1(&v2), bytes: v2 });
        }
        if let Some(p) = utf8.iter().rposition(|b| *b >= 0xC0) {
            let mut v3 = utf8.clone();
            v3.remove(p + 1);
            out.push(Case17 { label: format!("{label}: utf-8 with a truncated sequence"), class: "invalid:utf8-truncated-seq".into(), expect: latin1(&v3), bytes: v3 });
        }
    }
    out
}

fn eval(c: &Case17, dir: &std::path::Path) -> Result<&'static str, (&'static str, String)> {
    use std::hash::{Hash, Hasher};
    let mut h = std::collections::hash_map::DefaultHasher::new();
    std::thread::current().id().hash(&mut h);
    let p = dir.join(format!("e{}.a2l", h.finish() % 4096));
    std::fs::write(&p, &c.bytes).map_err(|e| ("machinery", format!("cannot write scratch file: {e}")))?;
    let a = observe_file(&p).map_err(|p| ("panic", p))?;
    let b = observe_str(&c.expect).map_err(|p| ("panic", p))?;
    if a != b {
        let what = match (&a, &b) {
            (Obs::Ok(x, _), Obs::Ok(y, _)) => {
                let pos = x.bytes().zip(y.bytes()).position(|(p, q)| p != q).unwrap_or(0);
                let s = pos.saturating_sub(40);
                let cut = |t: &str| {
                    let mut i = s.min(t.len());
                    while !t.is_char_boundary(i) {
                        i -= 1;
                    }
                    short(&t[i..], 120)
                };
                format!("models differ near …{}… (file) vs …{}… (string)", cut(x), cut(y))
            }
            _ => format!("file gives {}, string gives {}", short(&format!("{a:?}"), 200), short(&format!("{b:?}"), 200)),
        };
        return Err(("model-depends-on-encoding", what));
    }
    Ok(match a {
        Obs::Ok(..) => "equal models",
        Obs::Err(_) => "both rejected",
    })
}

pub fn run(tier: &str) -> Run {
    let mut run = Run::new("C17", tier);
    let thorough = crate::util::wide(tier);
    let g = corpus::grammar();
    let cases = build(&g, thorough);
    let dir = {
        let base = if std::path::Path::new("/dev/shm").is_dir() { "/dev/shm".to_string() } else { std::env::temp_dir().to_string_lossy().into_owned() };
        let d = std::path::PathBuf::from(base).join(format!("verif-c17-{}", std::process::id()));
        let _ = std::fs::create_dir_all(&d);
        d
    };
    let res = par_map(cases.len(), &|i| eval(&cases[i], &dir), &|i| {
        println!("MACHINERY-ERROR: C17 case hangs: {}", cases[i].label);
        std::process::exit(2);
    });
    for (i, r) in res.into_iter().enumerate() {
        run.evaluations += 1;
        run.transitions += 2;
        let h = fnv1a(&cases[i].bytes);
        if run.states.insert(h) {
            run.nontrivial.insert(h);
        }
        let cls = cases[i].class.split(':').next().unwrap_or("").to_string();
        match r {
            Ok(o) => run.outcome(&format!("{cls}: {o}")),
            Err(("machinery", m)) => run.machinery(m),
            Err((o, w)) => {
                run.outcome(&format!("{cls}: violation"));
                let key = if o == "panic" { format!("C17/panic {}", vcore::explore::panic_key(&w)) } else { format!("C17/{o}/{}", cases[i].class) };
                run.violation(key, format!("{}: {w}", cases[i].label), json!({"bytes": cases[i].bytes, "expect": cases[i].expect}));
            }
        }
        if i % 3001 == 5 {
            run.sample(json!({"label": cases[i].label, "first_bytes": cases[i].bytes.iter().take(24).collect::<Vec<_>>()}));
        }
    }
    // totality: every 4-byte prefix over the encoding-relevant bytes followed by a body in three encodings
    let alpha: [u8; 9] = [0x00, 0x41, 0xFE, 0xFF, 0xEF, 0xBB, 0xBF, 0xD8, 0xDC];
    let body = "ASAP2_VERSION 1 71 /begin PROJECT p \"é😀\" /begin MODULE m \"\" /end MODULE /end PROJECT";
    let bodies: Vec<Vec<u8>> = vec![body.as_bytes().to_vec(), encode(body, "utf16le"), encode(body, "utf16be"), encode(body, "utf32le"), encode(body, "utf32be")];
    let n = 9usize.pow(4) * bodies.len() * if thorough { 4 } else { 1 };
    let tres = par_map(
        n,
        &|i| {
            let pad = i / (9usize.pow(4) * bodies.len());
            let j = i % (9usize.pow(4) * bodies.len());
            let bi = j / 9usize.pow(4);
            let mut k = j % 9usize.pow(4);
            let mut v = Vec::new();
            for _ in 0..4 {
                v.push(alpha[k % 9]);
                k /= 9;
            }
            v.extend(&bodies[bi]);
            v.extend(std::iter::repeat(0x20u8).take(pad));
            use std::hash::{Hash, Hasher};
            let mut h = std::collections::hash_map::DefaultHasher::new();
            std::thread::current().id().hash(&mut h);
            let p = dir.join(format!("t{}.a2l", h.finish() % 4096));
            if std::fs::write(&p, &v).is_err() {
                return Ok(());
            }
            observe_file(&p).map(|_| ()).map_err(|p| (p, v))
        },
        &|i| {
            println!("MACHINERY-ERROR: C17 totality case {i} hangs");
            std::process::exit(2);
        },
    );
    for r in tres {
        run.evaluations += 1;
        run.transitions += 1;
        match r {
            Ok(()) => run.outcome("totality: returns"),
            Err((p, v)) => run.violation(format!("C17/panic {}", vcore::explore::panic_key(&p)), format!("byte prefix {:02x?}: {p}", &v[..4]), json!({"bytes": v, "expect": Value::Null})),
        }
    }
    let _ = std::fs::remove_dir_all(&dir);
    run.require("valid: equal models", 1000);
    run.require("invalid: equal models", 20);
    run.rule = "carrier documents with non-ASCII content (2-, 3- and 4-byte characters, U+FFFD, a UTF-8 look-alike of Latin-1) in a string, a block comment and a line comment x 10 encodings x trailing padding 0..3 (every length residue the encoding allows); each document also with 8 different beginnings (line feed, space, tab, CRLF, blank lines, block comment, line comment, comment with a non-ASCII character) x 10 encodings x 2 paddings; the same documents made invalid Unicode in three ways (stray byte, Latin-1 byte inside a string, truncated sequence) must behave like their Latin-1 reading; totality: every 4-byte prefix over {00,41,FE,FF,EF,BB,BF,D8,DC} in front of a body in five encodings. Oracle: load(file) and load_from_string(expected text) give the same result (Debug of the model, number of diagnostics, error variant).".into();
    run
}

pub fn replay(v: &Value) -> Result<String, String> {
    let bytes: Vec<u8> = v["bytes"].as_array().ok_or("no bytes")?.iter().map(|b| b.as_u64().unwrap_or(0) as u8).collect();
    let dir = std::env::temp_dir().join(format!("verif-c17-replay-{}", std::process::id()));
    let _ = std::fs::create_dir_all(&dir);
    let r = match v["expect"].as_str() {
        Some(e) => eval(&Case17 { label: String::new(), class: String::new(), bytes, expect: e.to_string() }, &dir).map(|s| s.to_string()).map_err(|(o, w)| format!("{o}: {w}")),
        None => {
            let p = dir.join("t.a2l");
            std::fs::write(&p, &bytes).map_err(|e| e.to_string())?;
            observe_file(&p).map(|_| "returns".to_string())
        }
    };
    let _ = std::fs::remove_dir_all(&dir);
    r
}
