//! C07 — non-strict recovery is local: an unknown element in a tagged region is skipped with
//! exactly one warning and nothing else changes; strict mode names it.

use crate::corpus::{self, CDoc};
use crate::util::*;
use a2lfile::A2lError;
use serde_json::{json, Value};
use vcore::docgen::*;
use vcore::explore::{fnv1a, par_map};
use vcore::grammar::*;
use vcore::report::Run;

/// (name, is_block, payload, bare keyword?)
pub const PAYLOADS: [(&str, bool, &str); 12] = [
    ("kw", false, ""),
    ("kw-args", false, "1 \"s\" 2.5 0x1F"),
    ("block-empty", true, ""),
    ("block-args", true, "1 \"s\" x"),
    ("block-nested", true, "1 /begin INNER 2 /end INNER x"),
    ("block-nested-twice", true, "/begin INNER /begin INNERMOST \"t\" /end INNERMOST /end INNER /begin INNER /end INNER"),
    ("block-comment-inside", true, "1 /* c */ 2"),
    ("block-line-comment-inside", true, "1 // c\n 2"),
    ("kw-comment-inside", false, "1 /* c */ 2"),
    ("block-nested-same-tag", true, "/begin UNKNOWN_TAG 1 /end UNKNOWN_TAG"),
    ("block-string-with-end", true, "\"/end UNKNOWN_TAG\" 3"),
    ("kw-negative-float", false, "-1.5e-3 .5"),
];

pub struct Case7 {
    pub label: String,
    pub class: String,
    pub with: String,
    pub without: String,
    pub tag: String,
}

fn last_item_is_ident_list(e: &Element) -> bool {
    matches!(e.items.last(), Some(Item::Seq { fields, .. }) if fields.len() == 1 && fields[0].0 == PType::Ident)
}

fn last_item_swallows(e: &Element, payload_first: &str) -> bool {
    // a bare keyword directly behind an open-ended list is a list member by definition; the same
    // holds for its first arguments when the list is numeric / string typed
    match e.items.last() {
        Some(Item::Seq { fields, .. }) if fields.len() == 1 => {
            let _ = payload_first;
            true
        }
        Some(Item::Seq { .. }) => true,
        _ => false,
    }
}

pub fn build(g: &Grammar, thorough: bool) -> Vec<Case7> {
    let mut out = Vec::new();
    let mut bases: Vec<CDoc> = Vec::new();
    // every block with a tagged region: its carrier, and the carrier with each optional child once
    for c in corpus::carriers(g) {
        bases.push(c);
    }
    for c in corpus::opt_docs(g, 1) {
        // the element under test is the parent of the added child
        let mut c2 = c.clone();
        c2.path.pop();
        bases.push(c2);
    }
    if thorough {
        for mut c in corpus::opt_pair_docs(g, None) {
            c.label = format!("{} (pair)", c.label);
            bases.push(c);
        }
    }
    for b in &bases {
        if b.path.is_empty() {
            continue;
        }
        let node = b.doc.root.at(&b.path).clone();
        let e = g.elem(&node.tag);
        if e.refs.is_empty() || e.special != Special::None || !node.block {
            continue;
        }
        let nkids = node.children.len();
        for pos in 0..=nkids {
            for (pn, is_block, payload) in PAYLOADS {
                // scope: a bare keyword (or its scalar arguments) directly behind an open-ended
                // list would be taken as list members
                if pos == 0 && !is_block && last_item_swallows(e, payload) {
                    continue;
                }
                if pos == 0 && last_item_is_ident_list(e) && !is_block {
                    continue;
                }
                // a keyword payload with arguments directly in front of a child whose tag could be
                // mistaken is fine (tags are on the stop list); but the previous sibling must not
                // end in an open list either
                if pos > 0 && !is_block {
                    let prev = &node.children[pos - 1];
                    if let Some(pe) = g.get_elem(&prev.tag) {
                        if !prev.block && (last_item_swallows(pe, payload) || pe.special != Special::None) {
                            continue;
                        }
                    }
                }
                let mut d = b.doc.clone();
                d.root.at_mut(&b.path).children.insert(pos, corpus::unknown_node(is_block, "UNKNOWN_TAG", payload));
                let position = if nkids == 0 {
                    "only"
                } else if pos == 0 {
                    "first"
                } else if pos == nkids {
                    "last"
                } else {
                    "between"
                };
                out.push(Case7 {
                    label: format!("{} + unknown({pn}) at child position {pos}", b.label),
                    class: format!("{pn}@{position}"),
                    with: d.text(),
                    without: b.doc.text(),
                    tag: "UNKNOWN_TAG".into(),
                });
            }
        }
        if thorough && nkids >= 1 {
            // two unknown elements in one block
            for (pn1, b1, p1) in [PAYLOADS[1], PAYLOADS[4]] {
                for (pn2, b2, p2) in [PAYLOADS[0], PAYLOADS[3]] {
                    if !b1 && last_item_swallows(e, p1) {
                        continue;
                    }
                    let mut d = b.doc.clone();
                    let n = d.root.at_mut(&b.path);
                    n.children.push(corpus::unknown_node(b2, "UNKNOWN_TWO", p2));
                    n.children.insert(0, corpus::unknown_node(b1, "UNKNOWN_TAG", p1));
                    if !b1 && last_item_is_ident_list(e) {
                        continue;
                    }
                    if !b2 {
                        let prev = &node.children[nkids - 1];
                        if let Some(pe) = g.get_elem(&prev.tag) {
                            if !prev.block && (last_item_swallows(pe, p2) || pe.special != Special::None) {
                                continue;
                            }
                        }
                    }
                    out.push(Case7 { label: format!("{} + unknown({pn1}) first + unknown({pn2}) last", b.label), class: format!("two:{pn1}+{pn2}"), with: d.text(), without: b.doc.text(), tag: "UNKNOWN_TAG+UNKNOWN_TWO".into() });
                }
            }
        }
    }
    out
}

fn unknown_tags(log: &[A2lError]) -> Vec<String> {
    log.iter()
        .filter_map(|e| {
            let d = format!("{e:?}");
            if variant_of(e) == "ParserError/UnknownSubBlock" {
                d.split("tag: \"").nth(1).map(|r| r.split('"').next().unwrap_or("").to_string())
            } else {
                None
            }
        })
        .collect()
}

pub fn eval(c: &Case7) -> Result<&'static str, (&'static str, String)> {
    let base = match load(&c.without, None, false) {
        Loaded::Ok(f, l) if l.is_empty() => f,
        _ => return Ok("base document not clean"),
    };
    let want_tags: Vec<&str> = c.tag.split('+').collect();
    match load(&c.with, None, false) {
        Loaded::Panic(p) => return Err(("panic", p)),
        Loaded::Err(e) => return Err(("lax-fails", format!("non-strict loading fails: {e}"))),
        Loaded::Ok(f, log) => {
            if log.len() != want_tags.len() {
                return Err(("warning-count", format!("{} warnings instead of {}: {}", log.len(), want_tags.len(), log.iter().map(|e| e.to_string()).collect::<Vec<_>>().join(" || "))));
            }
            let tags = unknown_tags(&log);
            if tags != want_tags {
                return Err(("warning-kind", format!("warnings do not name the unknown element(s) {want_tags:?}: {}", log.iter().map(|e| e.to_string()).collect::<Vec<_>>().join(" || "))));
            }
            if f != base {
                let (a, b) = (format!("{base:?}"), format!("{f:?}"));
                let pos = a.bytes().zip(b.bytes()).position(|(x, y)| x != y).unwrap_or(0);
                let s = pos.saturating_sub(80);
                let cut = |t: &str| -> String {
                    let mut i = s.min(t.len());
                    while !t.is_char_boundary(i) {
                        i -= 1;
                    }
                    short(&t[i..], 200)
                };
                return Err(("model-changed", format!("the rest of the file is not loaded as if the unknown element were absent: …{}… vs …{}…", cut(&a), cut(&b))));
            }
        }
    }
    match load(&c.with, None, true) {
        Loaded::Panic(p) => Err(("panic", p)),
        Loaded::Ok(..) => Err(("strict-accepts", "strict mode accepts the unknown element".into())),
        Loaded::Err(e) => {
            if variant_of(&e) != "ParserError/UnknownSubBlock" {
                return Err(("strict-error-kind", format!("strict error is not UnknownSubBlock: {e}")));
            }
            if !format!("{e}").contains(want_tags[0]) {
                return Err(("strict-error-names", format!("strict error does not name {}: {e}", want_tags[0])));
            }
            Ok("skipped locally")
        }
    }
}

pub fn run(tier: &str) -> Run {
    let mut run = Run::new("C07", tier);
    let g = corpus::grammar();
    let cases = build(&g, tier == "thorough");
    let res = par_map(cases.len(), &|i| eval(&cases[i]), &|i| {
        println!("MACHINERY-ERROR: C07 case hangs: {}", cases[i].label);
        std::process::exit(2);
    });
    for (i, r) in res.into_iter().enumerate() {
        run.evaluations += 1;
        run.transitions += 3;
        let h = fnv1a(cases[i].with.as_bytes());
        let fresh = run.states.insert(h);
        match r {
            Ok(o) => {
                if fresh && o == "skipped locally" {
                    run.nontrivial.insert(h);
                }
                run.outcome(o);
            }
            Err((o, w)) => {
                run.outcome("violation");
                let key = if o == "panic" { format!("C07/panic {}", vcore::explore::panic_key(&w)) } else { format!("C07/{o}/{}", cases[i].class) };
                run.violation(key, format!("{}: {w}", cases[i].label), json!({"with": cases[i].with, "without": cases[i].without, "tag": cases[i].tag, "label": cases[i].label, "class": cases[i].class}));
            }
        }
        if i % 7919 == 3 {
            run.sample(json!({"label": cases[i].label, "text": short(&cases[i].with, 400)}));
        }
    }
    run.require("skipped locally", 3000);
    run.rule = "every block of the grammar that has a tagged region (its carrier and the carrier with each optional child) x every child position (before first, between, after last) x 12 unknown payloads (keyword with/without scalar arguments, block empty / with arguments / nested / nested twice / same-tag nested / with comments / with a string containing '/end TAG'); thorough: two unknown elements per block and pairs of children. Oracle: non-strict Ok with exactly one UnknownSubBlock warning naming the tag and a model equal to that of the document without the payload; strict Err(UnknownSubBlock) naming the tag. Scope restrictions of the statement applied (no bare keyword behind an open-ended list).".into();
    run
}

pub fn replay(v: &Value) -> Result<String, String> {
    let c = Case7 {
        label: v["label"].as_str().unwrap_or("").into(),
        class: v["class"].as_str().unwrap_or("").into(),
        with: v["with"].as_str().ok_or("no text")?.into(),
        without: v["without"].as_str().ok_or("no text")?.into(),
        tag: v["tag"].as_str().unwrap_or("UNKNOWN_TAG").into(),
    };
    match eval(&c) {
        Ok(o) => Ok(o.to_string()),
        Err((o, w)) => Err(format!("{o}: {w}")),
    }
}
