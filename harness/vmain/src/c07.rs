//! C07 — non-strict recovery is local: an unknown element in a tagged region is skipped with
//! exactly one warning and nothing else changes; strict mode names it.

use crate::corpus::{self, CDoc};
use crate::util::*;
use a2lfile::A2lError;
use serde_json::{json, Value};
use vcore::docgen::*;
use vcore::explore::{fnv1a, par_map};
use vcore::grammar::*;
use vcore::report::Run;

/// (name, is_block, payload, bare keyword?)
pub const PAYLOADS: [(&str, bool, &str); 15] = [
    ("kw", false, ""),
    ("kw-args", false, "1 \"s\" 2.5 0x1F"),
    ("block-empty", true, ""),
    ("block-args", true, "1 \"s\" x"),
    ("block-nested", true, "1 /begin INNER 2 /end INNER x"),
    ("block-nested-twice", true, "/begin INNER /begin INNERMOST \"t\" /end INNERMOST /end INNER /begin INNER /end INNER"),
    ("block-comment-inside", true, "1 /* c */ 2"),
    ("block-line-comment-inside", true, "1 // c\n 2"),
    ("kw-comment-inside", false, "1 /* c */ 2"),
    ("block-nested-same-tag", true, "/begin UNKNOWN_TAG 1 /end UNKNOWN_TAG"),
    ("block-string-with-end", true, "\"/end UNKNOWN_TAG\" 3"),
    ("kw-negative-float", false, "-1.5e-3 .5"),
    // identifier arguments that are spelled like keywords / enum items (none of them is a tag of the format)
    ("kw-upper-ident-args", false, "1 FAST_Q \"two\" ON_Q"),
    ("kw-lower-ident-args", false, "abc d.e[1] f_g"),
    ("block-upper-ident-args", true, "SLOW_Q 1 /begin INNER FAST_Q /end INNER OFF_Q"),
];

pub struct Case7 {
    pub label: String,
    pub class: String,
    pub with: String,
    pub without: String,
    pub tag: String,
}

fn last_item_is_ident_list(e: &Element) -> bool {
    matches!(e.items.last(), Some(Item::Seq { fields, .. }) if fields.len() == 1 && fields[0].0 == PType::Ident)
}

fn last_item_swallows(e: &Element, payload_first: &str) -> bool {
    // a bare keyword directly behind an open-ended list is a list member by definition; the same
    // holds for its first arguments when the list is numeric / string typed
    match e.items.last() {
        Some(Item::Seq { fields, .. }) if fields.len() == 1 => {
            let _ = payload_first;
            true
        }
        Some(Item::Seq { .. }) => true,
        _ => false,
    }
}

pub fn build(g: &Grammar, thorough: bool) -> Vec<Case7> {
    let mut out = Vec::new();
    let mut bases: Vec<CDoc> = Vec::new();
    // every block with a tagged region: its carrier, and the carrier with each optional child once
    for c in corpus::carriers(g) {
        bases.push(c);
    }
    for c in corpus::opt_docs(g, 1) {
        // the element under test is the parent of the added child
        let mut c2 = c.clone();
        c2.path.pop();
        bases.push(c2);
    }
    if thorough {
        for mut c in corpus::opt_pair_docs(g, None) {
            c.label = format!("{} (pair)", c.label);
            bases.push(c);
        }
    }
    for b in &bases {
        if b.path.is_empty() {
            continue;
        }
        let node = b.doc.root.at(&b.path).clone();
        let e = g.elem(&node.tag);
        if e.refs.is_empty() || e.special != Special::None || !node.block {
            continue;
        }
        let nkids = node.children.len();
        for pos in 0..=nkids {
            for (pn, is_block, payload) in PAYLOADS {
                // scope: a bare keyword (or its scalar arguments) directly behind an open-ended
                // list would be taken as list members
                if pos == 0 && !is_block && last_item_swallows(e, payload) {
                    continue;
                }
                if pos == 0 && last_item_is_ident_list(e) && !is_block {
                    continue;
                }
                // a keyword payload with arguments directly in front of a child whose tag could be
                // mistaken is fine (tags are on the stop list); but the previous sibling must not
                // end in an open list either
                if pos > 0 && !is_block {
                    let prev = &node.children[pos - 1];
                    if let Some(pe) = g.get_elem(&prev.tag) {
                        if !prev.block && (last_item_swallows(pe, payload) || pe.special != Special::None) {
                            continue;
                        }
                    }
                }
                let mut d = b.doc.clone();
                d.root.at_mut(&b.path).children.insert(pos, corpus::unknown_node(is_block, "UNKNOWN_TAG", payload));
                let position = if nkids == 0 {
                    "only"
                } else if pos == 0 {
                    "first"
                } else if pos == nkids {
                    "last"
                } else {
                    "between"
                };
                out.push(Case7 {
                    label: format!("{} + unknown({pn}) at child position {pos}", b.label),
                    class: format!("{pn}@{position}"),
                    with: d.text(),
                    without: b.doc.text(),
                    tag: "UNKNOWN_TAG".into(),
                });
            }
        }
        if thorough && nkids >= 1 {
            // two unknown elements in one block
            for (pn1, b1, p1) in [PAYLOADS[1], PAYLOADS[4]] {
                for (pn2, b2, p2) in [PAYLOADS[0], PAYLOADS[3]] {
                    if !b1 && last_item_swallows(e, p1) {
                        continue;
                    }
                    let mut d = b.doc.clone();
                    let n = d.root.at_mut(&b.path);
                    n.children.push(corpus::unknown_node(b2, "UNKNOWN_TWO", p2));
                    n.children.insert(0, corpus::unknown_node(b1, "UNKNOWN_TAG", p1));
                    if !b1 && last_item_is_ident_list(e) {
                        continue;
                    }
                    if !b2 {
                        let prev = &node.children[nkids - 1];
                        if let Some(pe) = g.get_elem(&prev.tag) {
                            if !prev.block && (last_item_swallows(pe, p2) || pe.special != Special::None) {
                                continue;
                            }
                        }
                    }
                    out.push(Case7 { label: format!("{} + unknown({pn1}) first + unknown({pn2}) last", b.label), class: format!("two:{pn1}+{pn2}"), with: d.text(), without: b.doc.text(), tag: "UNKNOWN_TAG+UNKNOWN_TWO".into() });
                }
            }
        }
    }
    // the unknown element behind IF_DATA blocks that were tried against one or two A2ML definitions (conforming, with a wrong
    // value, with a member missing, with a tag the definition does not know, fitting only the second definition): whatever the
    // attempts did to the parser must not reach the rest of the file
    {
        let defs = ["block \"IF_DATA\" taggedunion { \"ZZ\" uint; \"YY\" struct { uint; uint; }; };", "block \"IF_DATA\" taggedunion { \"ZZ\" float; \"WW\" char[8]; };"];
        let ifdatas = ["ZZ 1", "ZZ x", "YY 1", "QQ 1", "WW \"s\"", "ZZ 1.5", "YY 1 2 3"];
        for ndefs in 1..=2usize {
            for ifd in ifdatas {
                for ifd_place in 0..2usize {
                    for (pn, is_block, payload) in PAYLOADS {
                        for upos in 0..3usize {
                            let unknown = if is_block { format!("/begin UNKNOWN_TAG {payload} /end UNKNOWN_TAG") } else { format!("UNKNOWN_TAG {payload}") };
                            let doc = |with: bool| {
                                let u = |at: usize| if with && upos == at { format!("    {unknown}\n") } else { String::new() };
                                let mut t = String::from("ASAP2_VERSION 1 71\n/begin PROJECT p \"\"\n");
                                if ndefs == 2 {
                                    t.push_str(&format!("  /begin MODULE m0 \"\"\n    /begin A2ML\n      {}\n    /end A2ML\n  /end MODULE\n", defs[1]));
                                }
                                t.push_str(&format!("  /begin MODULE m \"\"\n    /begin A2ML\n      {}\n    /end A2ML\n", defs[0]));
                                if ifd_place == 0 {
                                    t.push_str(&format!("    /begin IF_DATA {ifd}\n    /end IF_DATA\n"));
                                }
                                t.push_str(&u(0));
                                t.push_str("    /begin MEASUREMENT x \"\" UBYTE NO_COMPU_METHOD 0 0 0 255\n");
                                if ifd_place == 1 {
                                    t.push_str(&format!("      /begin IF_DATA {ifd}\n      /end IF_DATA\n"));
                                }
                                t.push_str(&u(1));
                                t.push_str("      ECU_ADDRESS 0x10\n    /end MEASUREMENT\n");
                                t.push_str(&u(2));
                                t.push_str("    /begin MEASUREMENT y \"\" UBYTE NO_COMPU_METHOD 0 0 0 255\n    /end MEASUREMENT\n  /end MODULE\n/end PROJECT\n");
                                t
                            };
                            out.push(Case7 { label: format!("unknown({pn}) at place {upos} behind IF_DATA [{ifd}] ({}) tried against {ndefs} A2ML definition(s)", ["module level", "inside the MEASUREMENT"][ifd_place]), class: format!("{pn}@behind-ifdata"), with: doc(true), without: doc(false), tag: "UNKNOWN_TAG".into() });
                        }
                    }
                }
            }
        }
    }
    out
}

fn unknown_tags(log: &[A2lError]) -> Vec<String> {
    log.iter()
        .filter_map(|e| {
            let d = format!("{e:?}");
            if variant_of(e) == "ParserError/UnknownSubBlock" {
                d.split("tag: \"").nth(1).map(|r| r.split('"').next().unwrap_or("").to_string())
            } else {
                None
            }
        })
        .collect()
}

pub fn eval(c: &Case7) -> Result<&'static str, (&'static str, String)> {
    let base = match load(&c.without, None, false) {
        Loaded::Ok(f, l) if l.is_empty() => f,
        _ => return Ok("base document not clean"),
    };
    let want_tags: Vec<&str> = c.tag.split('+').collect();
    match load(&c.with, None, false) {
        Loaded::Panic(p) => return Err(("panic", p)),
        Loaded::Err(e) => return Err(("lax-fails", format!("non-strict loading fails: {e}"))),
        Loaded::Ok(f, log) => {
            if log.len() != want_tags.len() {
                return Err(("warning-count", format!("{} warnings instead of {}: {}", log.len(), want_tags.len(), log.iter().map(|e| e.to_string()).collect::<Vec<_>>().join(" || "))));
            }
            let tags = unknown_tags(&log);
            if tags != want_tags {
                return Err(("warning-kind", format!("warnings do not name the unknown element(s) {want_tags:?}: {}", log.iter().map(|e| e.to_string()).collect::<Vec<_>>().join(" || "))));
            }
            if f != base {
                let (a, b) = (format!("{base:?}"), format!("{f:?}"));
                let pos = a.bytes().zip(b.bytes()).position(|(x, y)| x != y).unwrap_or(0);
                let s = pos.saturating_sub(80);
                let cut = |t: &str| -> String {
                    let mut i = s.min(t.len());
                    while !t.is_char_boundary(i) {
                        i -= 1;
                    }
                    short(&t[i..], 200)
                };
                return Err(("model-changed", format!("the rest of the file is not loaded as if the unknown element were absent: …{}… vs …{}…", cut(&a), cut(&b))));
            }
        }
    }
    match load(&c.with, None, true) {
        Loaded::Panic(p) => Err(("panic", p)),
        Loaded::Ok(..) => Err(("strict-accepts", "strict mode accepts the unknown element".into())),
        Loaded::Err(e) => {
            if variant_of(&e) != "ParserError/UnknownSubBlock" {
                return Err(("strict-error-kind", format!("strict error is not UnknownSubBlock: {e}")));
            }
            if !format!("{e}").contains(want_tags[0]) {
                return Err(("strict-error-names", format!("strict error does not name {}: {e}", want_tags[0])));
            }
            Ok("skipped locally")
        }
    }
}

/// the same case with the unknown element at a file boundary: (0) the element alone in an include file, (1) the
/// element last in the main file in front of an include of the following line, (2) the element last in an include
/// file that starts one line earlier. Judged like `eval` (non-strict part), loading from files.
pub fn eval_include(c: &Case7, dir: &std::path::Path, variant: usize) -> Result<&'static str, (&'static str, String)> {
    let wl: Vec<&str> = c.with.lines().collect();
    let ol: Vec<&str> = c.without.lines().collect();
    // (an A2ML block spans several lines as one token: a cut by lines could fall inside it)
    if wl.len() <= ol.len() || c.tag.contains('+') || c.with.contains("A2ML") {
        return Ok("include: not applicable");
    }
    // the inserted lines: common prefix / suffix by whole lines
    let mut a = 0;
    while a < ol.len() && wl[a] == ol[a] {
        a += 1;
    }
    let mut k = 0;
    while k < ol.len() - a && wl[wl.len() - 1 - k] == ol[ol.len() - 1 - k] {
        k += 1;
    }
    let b = wl.len() - k; // inserted lines are wl[a..b]
    if a + (ol.len() - a - k) != b - (wl.len() - ol.len()) || a < 2 || b + 1 >= wl.len() || a >= b {
        return Ok("include: not applicable");
    }
    let (ia, ib) = match variant {
        0 => (a, b),
        1 => (b, b + 1),
        _ => (a - 1, b),
    };
    let mut main = String::new();
    let mut inc = String::new();
    for (i, l) in wl.iter().enumerate() {
        if i == ia {
            main.push_str("/include inc.a2l\n");
        }
        if i >= ia && i < ib {
            inc.push_str(l);
            inc.push('\n');
        } else {
            main.push_str(l);
            main.push('\n');
        }
    }
    let _ = std::fs::create_dir_all(dir);
    let mp = dir.join("main.a2l");
    if std::fs::write(&mp, &main).is_err() || std::fs::write(dir.join("inc.a2l"), &inc).is_err() {
        return Ok("include: scratch not writable");
    }
    let base = match load(&c.without, None, false) {
        Loaded::Ok(f, l) if l.is_empty() => f,
        _ => return Ok("base document not clean"),
    };
    // the split itself must be transparent for the unknown-free reading: compare with the flat text first
    let flat = match load(&c.with, None, false) {
        Loaded::Ok(f, log) if log.len() == 1 && f == base => f,
        _ => return Ok("include: flat case not clean"),
    };
    let _ = flat;
    match vcore::explore::guard(|| a2lfile::load(&mp, None, false)) {
        Err(p) => Err(("panic", p)),
        Ok(Err(e)) => Err(("lax-fails", format!("non-strict loading fails: {e}"))),
        Ok(Ok((f, log))) => {
            if log.len() != 1 {
                return Err(("warning-count", format!("{} warnings instead of 1: {}", log.len(), log.iter().map(|e| e.to_string()).collect::<Vec<_>>().join(" || "))));
            }
            if unknown_tags(&log) != vec![c.tag.clone()] {
                return Err(("warning-kind", format!("the warning does not name {}: {}", c.tag, log[0])));
            }
            if f != base {
                return Err(("model-changed", "the rest of the files is not loaded as if the unknown element were absent".into()));
            }
            Ok("include: skipped locally")
        }
    }
}

pub fn run(tier: &str) -> Run {
    let mut run = Run::new("C07", tier);
    let g = corpus::grammar();
    let cases = build(&g, crate::util::wide(tier));
    let res = par_map(cases.len(), &|i| eval(&cases[i]), &|i| {
        println!("MACHINERY-ERROR: C07 case hangs: {}", cases[i].label);
        std::process::exit(2);
    });
    for (i, r) in res.into_iter().enumerate() {
        run.evaluations += 1;
        run.transitions += 3;
        let h = fnv1a(cases[i].with.as_bytes());
        let fresh = run.states.insert(h);
        match r {
            Ok(o) => {
                if fresh && o == "skipped locally" {
                    run.nontrivial.insert(h);
                }
                run.outcome(o);
            }
            Err((o, w)) => {
                run.outcome("violation");
                let key = if o == "panic" { format!("C07/panic {}", vcore::explore::panic_key(&w)) } else { format!("C07/{o}/{}", cases[i].class) };
                run.violation(key, format!("{}: {w}", cases[i].label), json!({"with": cases[i].with, "without": cases[i].without, "tag": cases[i].tag, "label": cases[i].label, "class": cases[i].class}));
            }
        }
        if i % 7919 == 3 {
            run.sample(json!({"label": cases[i].label, "text": short(&cases[i].with, 400)}));
        }
    }
    // the unknown element at a file boundary (every 3rd case; thorough: every case)
    let scratch = {
        let base = if std::path::Path::new("/dev/shm").is_dir() { "/dev/shm".to_string() } else { std::env::temp_dir().to_string_lossy().into_owned() };
        std::path::PathBuf::from(base).join(format!("verif-c07-{}", std::process::id()))
    };
    let step = if crate::util::wide(tier) { 1 } else { 3 };
    let idx: Vec<usize> = (0..cases.len()).step_by(step).collect();
    let ires = par_map(
        idx.len() * 3,
        &|j| {
            use std::hash::{Hash, Hasher};
            let mut h = std::collections::hash_map::DefaultHasher::new();
            std::thread::current().id().hash(&mut h);
            eval_include(&cases[idx[j / 3]], &scratch.join(format!("t{}", h.finish() % 4096)), j % 3)
        },
        &|j| {
            println!("MACHINERY-ERROR: C07 include case hangs: {}", cases[idx[j / 3]].label);
            std::process::exit(2);
        },
    );
    let _ = std::fs::remove_dir_all(&scratch);
    for (j, r) in ires.into_iter().enumerate() {
        run.evaluations += 1;
        run.transitions += 3;
        let c = &cases[idx[j / 3]];
        let place = ["alone-in-include", "before-include", "last-in-include"][j % 3];
        match r {
            Ok(o) => run.outcome(o),
            Err((o, w)) => {
                run.outcome("violation");
                let key = if o == "panic" { format!("C07/panic {}", vcore::explore::panic_key(&w)) } else { format!("C07/{o}/{}:{place}", c.class) };
                run.violation(key, format!("{} ({place}): {w}", c.label), json!({"with": c.with, "without": c.without, "tag": c.tag, "label": c.label, "class": c.class, "include_variant": j % 3}));
            }
        }
    }
    run.require("include: skipped locally", 1000);
    run.require("skipped locally", 3000);
    run.rule = "every block of the grammar that has a tagged region (its carrier and the carrier with each optional child) x every child position (before first, between, after last) x 12 unknown payloads (keyword with/without scalar arguments, block empty / with arguments / nested / nested twice / same-tag nested / with comments / with a string containing '/end TAG'); thorough: two unknown elements per block and pairs of children. Oracle: non-strict Ok with exactly one UnknownSubBlock warning naming the tag and a model equal to that of the document without the payload; strict Err(UnknownSubBlock) naming the tag. Every 3rd (thorough: every) case again with the unknown element at a file boundary (alone in an include file, last in the main file in front of an include, last in an include file), loaded from files. Scope restrictions of the statement applied (no bare keyword behind an open-ended list).".into();
    run
}

pub fn replay(v: &Value) -> Result<String, String> {
    let c = Case7 {
        label: v["label"].as_str().unwrap_or("").into(),
        class: v["class"].as_str().unwrap_or("").into(),
        with: v["with"].as_str().ok_or("no text")?.into(),
        without: v["without"].as_str().ok_or("no text")?.into(),
        tag: v["tag"].as_str().unwrap_or("UNKNOWN_TAG").into(),
    };
    if let Some(vn) = v["include_variant"].as_u64() {
        let d = std::env::temp_dir().join(format!("verif-c07-replay-{}", std::process::id()));
        let r = eval_include(&c, &d, vn as usize);
        let _ = std::fs::remove_dir_all(&d);
        return match r {
            Ok(o) => Ok(o.to_string()),
            Err((o, w)) => Err(format!("{o}: {w}")),
        };
    }
    match eval(&c) {
        Ok(o) => Ok(o.to_string()),
        Err((o, w)) => Err(format!("{o}: {w}")),
    }
}
