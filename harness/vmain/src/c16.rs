//! C16 — /include is transparent for loading and preserved by writing.

use crate::c06::node_token_range;
use crate::modgen::*;
use crate::util::*;
use a2lfile::A2lObject;
use serde_json::{json, Value};
use std::collections::HashMap;
use std::path::{Path, PathBuf};
use vcore::docgen::*;
use vcore::explore::{fnv1a, guard, par_map};
use vcore::grammar::Grammar;
use vcore::report::Run;

#[derive(Debug, Clone)]
pub struct Tree {
    pub label: String,
    pub class: String,
    /// (relative path, content); the first entry is the main file
    pub files: Vec<(String, String)>,
    pub flattened: String,
    /// number of include files
    pub includes: usize,
    pub a2ml_include: bool,
}

fn scratch_root() -> PathBuf {
    let base = std::env::var("VERIF_SCRATCH").unwrap_or_else(|_| if Path::new("/dev/shm").is_dir() { "/dev/shm".into() } else { std::env::temp_dir().to_string_lossy().into_owned() });
    PathBuf::from(base).join(format!("verif-c16-{}", std::process::id()))
}

fn materialise(root: &Path, t: &Tree) -> std::io::Result<PathBuf> {
    for (rel, content) in &t.files {
        let p = root.join(rel);
        if let Some(parent) = p.parent() {
            std::fs::create_dir_all(parent)?;
        }
        std::fs::write(&p, content)?;
    }
    Ok(root.join(&t.files[0].0))
}

fn base_docs(g: &Grammar) -> Vec<(String, Doc)> {
    let mut out = Vec::new();
    let mut gen = Gen::new(g);
    // B1: one module, four elements, each with a child
    let (mut d1, path) = gen.carrier_v("MODULE", 5, 1);
    for (tag, name, kid) in [("MEASUREMENT", "ma", "ANNOTATION"), ("CHARACTERISTIC", "cb", "ANNOTATION"), ("COMPU_METHOD", "cm", "FORMULA"), ("MEASUREMENT", "md", "BIT_OPERATION")] {
        let mut n = build_elem(&mut gen, g, &e(tag, name, "c1"));
        gen.reset();
        let k1 = gen.min_node(kid, 5, 1);
        n.children.push(k1);
        if tag == "MEASUREMENT" {
            let k2 = gen.min_node("FUNCTION_LIST", 5, 2);
            n.children.push(k2);
            let k3 = gen.min_node("ECU_ADDRESS", 5, 1);
            n.children.push(k3);
        }
        d1.root.at_mut(&path).children.push(n);
    }
    out.push(("four-elements".to_string(), d1));
    // B2: two modules
    let (mut d2, _) = gen.carrier_v("PROJECT", 5, 0);
    {
        let p = d2.root.child_mut("PROJECT").unwrap();
        p.children.clear();
        gen.reset();
        let h = gen.min_node("HEADER", 5, 1);
        p.children.push(h);
        for mn in ["m1", "m2", "m3"] {
            gen.reset();
            let mut m = gen.min_node("MODULE", 5, 0);
            m.params[0].text = mn.to_string();
            m.children.push(build_elem(&mut gen, g, &e("MEASUREMENT", &format!("x_{mn}"), "c1")));
            p.children.push(m);
        }
    }
    out.push(("three-modules".to_string(), d2));
    // B2b: a RECORD_LAYOUT whose position-restricted children are listed out of position order
    {
        let (mut d, path) = gen.carrier_v("MODULE", 5, 1);
        let rl = e("RECORD_LAYOUT", "rl", "c1")
            .kid(ks("AXIS_PTS_X", &[("position", "2")]))
            .kid(ks("FNC_VALUES", &[("position", "4")]))
            .kid(ks("NO_AXIS_PTS_X", &[("position", "1")]))
            .kid(ks("AXIS_PTS_Y", &[("position", "3")]));
        d.root.at_mut(&path).children.push(build_elem(&mut gen, g, &rl));
        d.root.at_mut(&path).children.push(build_elem(&mut gen, g, &e("MEASUREMENT", "mz", "c1")));
        out.push(("record-layout-out-of-order".to_string(), d));
    }
    // B3 / B4: IF_DATA with nested blocks, uninterpreted and described by an A2ML block
    for with_a2ml in [false, true] {
        let (mut d3, path) = gen.carrier_v("MODULE", 5, 1);
        if with_a2ml {
            gen.reset();
            let mut a = gen.min_node("A2ML", 5, 0);
            a.raw = Some("block \"IF_DATA\" taggedunion if_data {\n      \"ZZ\" struct { uint; taggedstruct { block \"Q\" struct { uint; taggedstruct { block \"R\" uint; }; }; }; };\n      \"YY\" taggedstruct { (block \"S\" uint)*; };\n    };".to_string());
            d3.root.at_mut(&path).children.push(a);
        }
        gen.reset();
        let mut i1 = gen.min_node("IF_DATA", 5, 0);
        i1.raw = Some("ZZ 1 /begin Q 2 /begin R 3 /end R /end Q".to_string());
        d3.root.at_mut(&path).children.push(i1);
        let mut m = build_elem(&mut gen, g, &e("MEASUREMENT", "mi", "c1"));
        gen.reset();
        let mut i2 = gen.min_node("IF_DATA", 5, 0);
        i2.raw = Some("YY /begin S 1 /end S /begin S 2 /end S".to_string());
        m.children.push(i2);
        let k3 = gen.min_node("ECU_ADDRESS", 5, 1);
        m.children.push(k3);
        d3.root.at_mut(&path).children.push(m);
        d3.root.at_mut(&path).children.push(build_elem(&mut gen, g, &e("COMPU_METHOD", "cz", "c1")));
        out.push((if with_a2ml { "if-data-with-a2ml".to_string() } else { "if-data-uninterpreted".to_string() }, d3));
    }
    out
}

fn inc_directive(name: &str, quoted: bool) -> String {
    if quoted {
        format!("/include \"{name}\"")
    } else {
        format!("/include {name}")
    }
}

/// all cuts of `doc`: a contiguous run of children of one node moved to an include file; optionally a nested or a sibling include
fn cuts(label: &str, doc: &Doc, thorough: bool) -> Vec<Tree> {
    let toks = doc.tokens();
    let flattened = render(&toks, &HashMap::new());
    let mut out = Vec::new();
    // candidate parents: every node with at least one child (paths)
    fn parents(n: &Node, path: &mut Vec<usize>, out: &mut Vec<Vec<usize>>) {
        if !n.children.is_empty() && n.tag != "A2L_FILE" {
            out.push(path.clone());
        }
        for (i, c) in n.children.iter().enumerate() {
            path.push(i);
            parents(c, path, out);
            path.pop();
        }
    }
    let mut ps = Vec::new();
    parents(&doc.root, &mut vec![], &mut ps);
    let piece = |a: usize, b: usize| -> String {
        let mut s = String::new();
        for t in &toks[a..b] {
            if t.starts_line && !s.is_empty() {
                s.push('\n');
            } else if !s.is_empty() {
                s.push(' ');
            }
            s.push_str(&t.text);
        }
        s.push('\n');
        s
    };
    let child_range = |pp: &Vec<usize>, i: usize, j: usize| -> (usize, usize) {
        let mut p1 = pp.clone();
        p1.push(i);
        let mut p2 = pp.clone();
        p2.push(j - 1);
        let (a, _) = node_token_range(doc, &p1).unwrap();
        let (_, b) = node_token_range(doc, &p2).unwrap();
        (a, b + 1)
    };
    let variants: Vec<(&str, &str, bool, char)> = if thorough {
        let mut v = Vec::new();
        for d1 in ["", "sub/", "sub/sub2/"] {
            for d2 in ["", "inner/"] {
                for q in [true, false] {
                    for sep in ['/', '\\'] {
                        v.push((d1, d2, q, sep));
                    }
                }
            }
        }
        v
    } else {
        vec![("", "", true, '/'), ("sub/", "", false, '/'), ("sub/sub2/", "inner/", true, '\\'), ("", "inner/", false, '\\'), ("sub/", "inner/", true, '/')]
    };
    for pp in &ps {
        let n = doc.root.at(pp).children.len();
        let level = match pp.len() {
            1 => "in-project",
            2 => "in-module",
            _ => "in-element",
        };
        for i in 0..n {
            for j in (i + 1)..=n {
                let (a, b) = child_range(pp, i, j);
                for (d1, d2, quoted, sep) in &variants {
                    let fix = |p: &str| p.replace('/', &sep.to_string());
                    let f1 = format!("{d1}f1.a2l");
                    // single include
                    let main = format!("{}{}\n{}", piece(0, a), inc_directive(&fix(&f1), *quoted), piece(b, toks.len()));
                    out.push(Tree {
                        label: format!("{label}: children {i}..{j} of {:?} -> {f1} ({})", pp, if *quoted { "quoted" } else { "bare" }),
                        class: format!("single:{level}:dir={}:{}", if d1.is_empty() { "." } else { d1 }, if *quoted { "quoted" } else { "bare" }),
                        files: vec![("main.a2l".into(), main.clone()), (f1.clone(), piece(a, b))],
                        flattened: flattened.clone(),
                        includes: 1,
                        a2ml_include: false,
                    });
                    // nested include: a sub-run of the same children goes to f2, included from f1
                    if j - i >= 2 {
                        for i2 in i..j {
                            for j2 in (i2 + 1)..=j {
                                if i2 == i && j2 == j {
                                    continue;
                                }
                                if !thorough && !(i2 == i || j2 == j) {
                                    continue;
                                }
                                let (a2, b2) = child_range(pp, i2, j2);
                                let f2_rel_to_f1 = format!("{d2}f2.a2l");
                                let f2 = format!("{d1}{d2}f2.a2l");
                                let f1_text = format!("{}{}\n{}", piece(a, a2), inc_directive(&fix(&f2_rel_to_f1), *quoted), piece(b2, b));
                                out.push(Tree {
                                    label: format!("{label}: children {i}..{j} of {:?} -> {f1}, of which {i2}..{j2} -> {f2} (nested)", pp),
                                    class: format!("nested:{level}:dir={}:inner={}", if d1.is_empty() { "." } else { d1 }, if d2.is_empty() { "." } else { d2 }),
                                    files: vec![("main.a2l".into(), main.clone()), (f1.clone(), f1_text), (f2, piece(a2, b2))],
                                    flattened: flattened.clone(),
                                    // the main file names only the file it includes directly
                                    includes: 1,
                                    a2ml_include: false,
                                });
                                // the same, followed by a further include in the main file
                                for i3 in j..n {
                                    let j3 = n;
                                    if !thorough && i3 != j {
                                        continue;
                                    }
                                    let (a3, b3) = child_range(pp, i3, j3);
                                    let f3 = format!("{d1}g3.a2l");
                                    let main3 = format!("{}{}\n{}{}\n{}", piece(0, a), inc_directive(&fix(&f1), *quoted), piece(b, a3), inc_directive(&fix(&f3), *quoted), piece(b3, toks.len()));
                                    let f2b = format!("{d1}{d2}f2.a2l");
                                    let f1_text_b = format!("{}{}\n{}", piece(a, a2), inc_directive(&fix(&format!("{d2}f2.a2l")), *quoted), piece(b2, b));
                                    out.push(Tree {
                                        label: format!("{label}: children {i}..{j} of {:?} -> {f1} (nested {i2}..{j2} -> {f2b}), then {i3}..{j3} -> {f3}", pp),
                                        class: format!("nested+sibling:{level}:dir={}:inner={}", if d1.is_empty() { "." } else { d1 }, if d2.is_empty() { "." } else { d2 }),
                                        files: vec![("main.a2l".into(), main3), (f1.clone(), f1_text_b), (f2b, piece(a2, b2)), (f3, piece(a3, b3))],
                                        flattened: flattened.clone(),
                                        includes: 2,
                                        a2ml_include: false,
                                    });
                                }
                            }
                        }
                    }
                    // sibling include: a later run of children goes to f2, included from main
                    for i3 in j..n {
                        for j3 in (i3 + 1)..=n {
                            if !thorough && j3 != n {
                                continue;
                            }
                            let (a3, b3) = child_range(pp, i3, j3);
                            let f2 = format!("{d1}{d2}g2.a2l");
                            let main2 = format!("{}{}\n{}{}\n{}", piece(0, a), inc_directive(&fix(&f1), *quoted), piece(b, a3), inc_directive(&fix(&f2), *quoted), piece(b3, toks.len()));
                            out.push(Tree {
                                label: format!("{label}: children {i}..{j} -> {f1} and {i3}..{j3} -> {f2} of {:?} (siblings)", pp),
                                class: format!("siblings:{level}:dir={}", if d1.is_empty() { "." } else { d1 }),
                                files: vec![("main.a2l".into(), main2), (f1.clone(), piece(a, b)), (f2, piece(a3, b3))],
                                flattened: flattened.clone(),
                                includes: 2,
                                a2ml_include: false,
                            });
                        }
                    }
                }
            }
        }
    }
    out
}


// ------------------------------------------------------------------------------------------------
// include trees of any shape up to three levels below the main file

#[derive(Debug, Clone)]
struct Plan {
    /// children [i, j) of the parent node go to this file
    run: (usize, usize),
    /// sub-runs of `run` that go on to files included from this one
    kids: Vec<Plan>,
}

/// all sets of at most `max_kids` disjoint sub-runs of [i, j), each with every plan for the levels below
fn kid_sets(i: usize, j: usize, depth_left: usize, max_kids: usize) -> Vec<Vec<Plan>> {
    let mut out: Vec<Vec<Plan>> = vec![vec![]];
    if depth_left == 0 {
        return out;
    }
    // plans for one sub-run
    let single = |a: usize, b: usize| -> Vec<Plan> { kid_sets(a, b, depth_left - 1, max_kids).into_iter().map(|kids| Plan { run: (a, b), kids }).collect() };
    for a in i..j {
        for b in (a + 1)..=j {
            let firsts = single(a, b);
            for f in &firsts {
                out.push(vec![f.clone()]);
            }
            if max_kids >= 2 {
                for a2 in b..j {
                    for b2 in (a2 + 1)..=j {
                        for f in &firsts {
                            for s2 in single(a2, b2) {
                                out.push(vec![f.clone(), s2]);
                            }
                        }
                    }
                }
            }
        }
    }
    out
}

fn plan_depth(kids: &[Plan]) -> usize {
    kids.iter().map(|k| 1 + plan_depth(&k.kids)).max().unwrap_or(0)
}

/// include trees of depth <= 3 over the children of every node of `doc`; `dirs`: directory of a file relative to the
/// file that includes it, by level (1 = included from main)
fn deep_cuts(label: &str, doc: &Doc, thorough: bool) -> Vec<Tree> {
    let toks = doc.tokens();
    let flattened = render(&toks, &HashMap::new());
    let mut out = Vec::new();
    fn parents(n: &Node, path: &mut Vec<usize>, out: &mut Vec<Vec<usize>>) {
        if !n.children.is_empty() {
            out.push(path.clone());
        }
        for (i, c) in n.children.iter().enumerate() {
            path.push(i);
            parents(c, path, out);
            path.pop();
        }
    }
    let mut ps = Vec::new();
    parents(&doc.root, &mut vec![], &mut ps);
    let piece = |a: usize, b: usize| -> String {
        let mut s = String::new();
        for t in &toks[a..b] {
            if t.starts_line && !s.is_empty() {
                s.push('\n');
            } else if !s.is_empty() {
                s.push(' ');
            }
            s.push_str(&t.text);
        }
        if !s.is_empty() {
            s.push('\n');
        }
        s
    };
    // (name of the variant, directory per level, quoted, separator)
    let variants: Vec<(&str, [&str; 3], bool, char)> = if thorough {
        vec![("flat", ["", "", ""], true, '/'), ("down", ["l1/", "l2/", "l3/"], true, '/'), ("down-bare-backslash", ["l1/", "l2/", "l3/"], false, '\\'), ("first-level-only", ["sub/", "", ""], false, '/'), ("deepest-only", ["", "", "deep/"], true, '\\')]
    } else {
        vec![("flat", ["", "", ""], true, '/'), ("down", ["l1/", "l2/", "l3/"], false, '/')]
    };
    // directory names that begin with t, n, r behind a backslash separator (they look like escape sequences in a quoted name)
    let mut variants = variants;
    variants.push(("backslash-t-n-r-quoted", ["a/tab/", "b/new/", "c/rec/"], true, '\\'));
    variants.push(("backslash-t-n-r-bare", ["a/tab/", "b/new/", "c/rec/"], false, '\\'));
    // directory names that begin with a digit (a quoted name may begin with one)
    variants.push(("digit-directories", ["2024_09/", "01/", "3x/"], true, '/'));
    variants.push(("digit-directories-backslash", ["2024_09/", "01/", "3x/"], true, '\\'));
    for pp in &ps {
        let n = doc.root.at(pp).children.len();
        if n > 5 {
            continue;
        }
        let level = match pp.len() {
            0 => "in-file",
            1 => "in-project",
            2 => "in-module",
            _ => "in-element",
        };
        let child_range = |i: usize, j: usize| -> (usize, usize) {
            let mut p1 = pp.clone();
            p1.push(i);
            let mut p2 = pp.clone();
            p2.push(j - 1);
            let (a, _) = node_token_range(doc, &p1).unwrap();
            let (_, b) = node_token_range(doc, &p2).unwrap();
            (a, b + 1)
        };
        for kids in kid_sets(0, n, 3, 2) {
            let depth = plan_depth(&kids);
            if kids.is_empty() {
                continue;
            }
            // shapes the hand-written families do not have: three levels, or two includes in an included file, or a file
            // that consists of an include directive only; quick tier: three-level chains and directive-only files
            let only_directive = |k: &Plan| k.kids.len() == 1 && k.kids[0].run == k.run;
            fn any(p: &Plan, f: &dyn Fn(&Plan) -> bool) -> bool {
                f(p) || p.kids.iter().any(|k| any(k, f))
            }
            let has_only = kids.iter().any(|k| any(k, &only_directive));
            let fan = kids.iter().any(|k| any(k, &|p: &Plan| p.kids.len() >= 2));
            if depth < 3 && !has_only && !fan {
                continue;
            }
            if !thorough && (fan || kids.len() > 1) {
                continue;
            }
            for (vname, dirs, quoted, sep) in &variants {
                let mut files: Vec<(String, String)> = Vec::new();
                let mut counter = 0usize;
                // renders the content of a file that holds tokens [a, b) minus its kids; returns the text
                fn emit(
                    kids: &[Plan], a: usize, b: usize, lvl: usize, dir: &str, dirs: &[&str; 3], quoted: bool, sep: char, counter: &mut usize, files: &mut Vec<(String, String)>,
                    piece: &dyn Fn(usize, usize) -> String, child_range: &dyn Fn(usize, usize) -> (usize, usize),
                ) -> String {
                    let mut text = String::new();
                    let mut pos = a;
                    for k in kids {
                        let (ka, kb) = child_range(k.run.0, k.run.1);
                        text.push_str(&piece(pos, ka));
                        *counter += 1;
                        let rel = format!("{}f{}.a2l", dirs[lvl], *counter);
                        let path = format!("{dir}{rel}");
                        let kdir = format!("{dir}{}", dirs[lvl]);
                        text.push_str(&inc_directive(&rel.replace('/', &sep.to_string()), quoted));
                        text.push('\n');
                        let idx = files.len();
                        files.push((path, String::new()));
                        let ktext = emit(&k.kids, ka, kb, lvl + 1, &kdir, dirs, quoted, sep, counter, files, piece, child_range);
                        files[idx].1 = ktext;
                        pos = kb;
                    }
                    text.push_str(&piece(pos, b));
                    text
                }
                files.push(("main.a2l".into(), String::new()));
                let main = emit(&kids, 0, toks.len(), 0, "", dirs, *quoted, *sep, &mut counter, &mut files, &piece, &child_range);
                files[0].1 = main;
                let shape = format!("depth{depth}{}{}", if fan { "+fan" } else { "" }, if has_only { "+directive-only-file" } else { "" });
                out.push(Tree {
                    label: format!("{label}: include tree {:?} over the children of {:?} ({vname})", kids.iter().map(plan_str).collect::<Vec<_>>(), pp),
                    class: format!("deep:{level}:{shape}:{vname}"),
                    files,
                    flattened: flattened.clone(),
                    includes: kids.len(),
                    a2ml_include: false,
                });
            }
        }
    }
    out
}

fn plan_str(p: &Plan) -> String {
    if p.kids.is_empty() {
        format!("{}..{}", p.run.0, p.run.1)
    } else {
        format!("{}..{}[{}]", p.run.0, p.run.1, p.kids.iter().map(plan_str).collect::<Vec<_>>().join(","))
    }
}


/// one include file used by several directives of one load (a shared snippet), and "diamonds" (two include files using a third)
fn shared_include_trees() -> Vec<Tree> {
    let head = "ASAP2_VERSION 1 71\n/begin PROJECT p \"\"\n  /begin MODULE m \"\"\n";
    let tail = "  /end MODULE\n/end PROJECT\n";
    let meas = |n: &str, inner: &str| format!("    /begin MEASUREMENT {n} \"\" UBYTE NO_COMPU_METHOD 0 0 0 255\n{inner}    /end MEASUREMENT\n");
    let snippet = "      ECU_ADDRESS 0x10\n      FORMAT \"%5.2\"\n";
    let mut out = Vec::new();
    for (dir, quoted) in [("", true), ("inc/", false)] {
        let d = |n: &str| inc_directive(&format!("{dir}{n}"), quoted);
        // (a) the same snippet included into two (three) sibling elements
        for n in [2usize, 3] {
            let names = ["ma", "mb", "mc"];
            let main: String = names[..n].iter().map(|x| meas(x, &format!("      {}\n", d("attr.a2l")))).collect();
            let flat: String = names[..n].iter().map(|x| meas(x, snippet)).collect();
            out.push(Tree { label: format!("one snippet file included into {n} elements ({dir:?})"), class: format!("shared:snippet-x{n}"), files: vec![("main.a2l".into(), format!("{head}{main}{tail}")), (format!("{dir}attr.a2l"), snippet.to_string())], flattened: format!("{head}{flat}{tail}"), includes: n, a2ml_include: false });
        }
        // (b) diamond: two element files that both include the same snippet
        let fa = meas("ma", &format!("      {}\n", inc_directive("attr.a2l", quoted)));
        let fb = meas("mb", &format!("      {}\n", inc_directive("attr.a2l", quoted)));
        let main = format!("{head}    {}\n    {}\n{tail}", d("fa.a2l"), d("fb.a2l"));
        out.push(Tree { label: format!("two include files that both include one snippet ({dir:?})"), class: "shared:diamond".into(), files: vec![("main.a2l".into(), main), (format!("{dir}fa.a2l"), fa), (format!("{dir}fb.a2l"), fb), (format!("{dir}attr.a2l"), snippet.to_string())], flattened: format!("{head}{}{}{tail}", meas("ma", snippet), meas("mb", snippet)), includes: 2, a2ml_include: false });
        // (c) the snippet directly and, later, through another file
        let fb2 = meas("mb", &format!("      {}\n", inc_directive("attr.a2l", quoted)));
        let main = format!("{head}{}    {}\n{tail}", meas("ma", &format!("      {}\n", d("attr.a2l"))), d("fb.a2l"));
        out.push(Tree { label: format!("a snippet included directly and again through another include file ({dir:?})"), class: "shared:direct+nested".into(), files: vec![("main.a2l".into(), main), (format!("{dir}fb.a2l"), fb2), (format!("{dir}attr.a2l"), snippet.to_string())], flattened: format!("{head}{}{}{tail}", meas("ma", snippet), meas("mb", snippet)), includes: 2, a2ml_include: false });
    }
    // (d) inside one A2ML-described IF_DATA block: the same include file named in two tagged groups of one struct / of two
    // entries of a repetition (all of them are written by one writer)
    {
        let a2ml = "    /begin A2ML\n      block \"IF_DATA\" taggedunion {\n        \"ZZ\" (struct { uint; taggedstruct { block \"Q\" uint; }; })*;\n        \"YY\" struct { taggedstruct { block \"Q\" uint; }; uint; taggedstruct { block \"Q\" uint; }; };\n      };\n    /end A2ML\n";
        let q = "/begin Q 7 /end Q\n";
        for (dir, quoted) in [("", true), ("inc/", false)] {
            let d = inc_directive(&format!("{dir}q.a2l"), quoted);
            for (label, with_inc, flat) in [
                ("two entries of a repetition", format!("ZZ 1\n      {d}\n      2\n      {d}\n"), "ZZ 1\n      /begin Q 7 /end Q\n      2\n      /begin Q 7 /end Q\n".to_string()),
                ("three entries of a repetition, the middle one without", format!("ZZ 1\n      {d}\n      2 3\n      {d}\n"), "ZZ 1\n      /begin Q 7 /end Q\n      2 3\n      /begin Q 7 /end Q\n".to_string()),
                ("two tagged groups of one struct", format!("YY\n      {d}\n      5\n      {d}\n"), "YY\n      /begin Q 7 /end Q\n      5\n      /begin Q 7 /end Q\n".to_string()),
            ] {
                let doc = |payload: &str| format!("{head}{a2ml}    /begin IF_DATA {payload}    /end IF_DATA\n{tail}");
                out.push(Tree { label: format!("one include file named twice inside one IF_DATA block: {label} ({dir:?})"), class: "shared:inside-if-data".into(), files: vec![("main.a2l".into(), doc(&with_inc)), (format!("{dir}q.a2l"), q.to_string())], flattened: doc(&flat), includes: 2, a2ml_include: false });
            }
        }
    }
    out
}

fn a2ml_trees(g: &Grammar) -> Vec<Tree> {
    let mut out = Vec::new();
    let part1 = "struct S { uint; };";
    let part2 = "block \"IF_DATA\" taggedunion if_data { \"VX\" struct S; \"VY\" struct { uint; char[8]; }; };";
    for (dir, quoted) in [("", true), ("", false), ("aml/", true), ("aml/", false)] {
        let build = |a2ml: &str| -> String {
            let mut gen = Gen::new(g);
            let (mut doc, path) = gen.carrier_v("MODULE", 5, 0);
            let mut a = gen.min_node("A2ML", 5, 0);
            a.raw = Some(a2ml.to_string());
            doc.root.at_mut(&path).children.push(a);
            for pl in ["VX 5", "VY 7 \"abc\"", "ZZ 1"] {
                let mut i = gen.min_node("IF_DATA", 5, 0);
                i.raw = Some(pl.to_string());
                doc.root.at_mut(&path).children.push(i);
            }
            doc.text()
        };
        let inc = format!("{dir}part.aml");
        let main = build(&format!("{part1}\n      {}\n      ", inc_directive(&inc, quoted)));
        let flat = build(&format!("{part1}\n      {part2}\n      "));
        out.push(Tree {
            label: format!("A2ML includes {inc} ({})", if quoted { "quoted" } else { "bare" }),
            class: format!("a2ml-include:dir={}", if dir.is_empty() { "." } else { dir }),
            files: vec![("main.a2l".into(), main), (inc, format!("{part2}\n"))],
            flattened: flat,
            includes: 1,
            a2ml_include: true,
        });
    }
    // the A2ML block itself stands in an A2L include file in another directory; its own /include is relative to that file
    for (d1, d2, quoted) in [("", "", true), ("sub/", "", true), ("sub/", "aml/", false), ("sub/deep/", "", false), ("", "aml/", true)] {
        let mut gen = Gen::new(g);
        let (mut doc, path) = gen.carrier_v("MODULE", 5, 0);
        let a_idx = doc.root.at(&path).children.len();
        let mk_a2ml = |gen: &mut Gen, text: &str| {
            let mut a = gen.min_node("A2ML", 5, 0);
            a.raw = Some(text.to_string());
            a
        };
        let a_flat = mk_a2ml(&mut gen, &format!("{part1}\n      {part2}\n      "));
        doc.root.at_mut(&path).children.push(a_flat);
        for pl in ["VX 5", "VY 7 \"abc\"", "ZZ 1"] {
            let mut i = gen.min_node("IF_DATA", 5, 0);
            i.raw = Some(pl.to_string());
            doc.root.at_mut(&path).children.push(i);
        }
        let flat = doc.text();
        // the same document with the A2ML block (holding an /include) moved to sub/a2ml_block.a2l
        let aml_rel = format!("{d2}part.aml");
        let mut doc2 = doc.clone();
        doc2.root.at_mut(&path).children[a_idx] = mk_a2ml(&mut gen, &format!("{part1}\n      {}\n      ", inc_directive(&aml_rel, quoted)));
        let mut p2 = path.clone();
        p2.push(a_idx);
        let toks = doc2.tokens();
        let Some((a, b)) = node_token_range(&doc2, &p2) else { continue };
        let piece = |x: usize, y: usize| -> String {
            let mut s = String::new();
            for t in &toks[x..y] {
                if t.starts_line && !s.is_empty() {
                    s.push('\n');
                } else if !s.is_empty() {
                    s.push(' ');
                }
                s.push_str(&t.text);
            }
            s.push('\n');
            s
        };
        let blockfile = format!("{d1}a2ml_block.a2l");
        let main = format!("{}{}\n{}", piece(0, a), inc_directive(&blockfile, quoted), piece(b + 1, toks.len()));
        out.push(Tree {
            label: format!("A2ML block in {blockfile}, which includes {aml_rel} relative to itself"),
            class: format!("a2ml-include:block-in-include-file:dir={}:aml={}", if d1.is_empty() { "." } else { d1 }, if d2.is_empty() { "." } else { d2 }),
            files: vec![("main.a2l".into(), main), (blockfile, piece(a, b + 1)), (format!("{d1}{aml_rel}"), format!("{part2}\n"))],
            flattened: flat,
            includes: 1,
            a2ml_include: true,
        });
    }
    out
}

/// cuts inside an IF_DATA payload: a nested block, the blocks of a repeated item, or the whole content moves to an
/// include file (interpreted through A2ML and uninterpreted)
fn ifdata_inner_trees(g: &Grammar) -> Vec<Tree> {
    let mut out = Vec::new();
    for (label, doc) in base_docs(g) {
        if !label.starts_with("if-data") {
            continue;
        }
        let flat = doc.text();
        let pieces: [(&str, &str, usize); 6] = [
            ("inner block R", "/begin R 3 /end R", 1),
            ("block Q with nested block", "/begin Q 2 /begin R 3 /end R /end Q", 1),
            // (a piece that starts with loose values and continues with a block is not a split at element boundaries:
            //  values carry no origin, so the writer repeats them in front of the directive - out of scope, not judged)
            ("whole content", "ZZ 1 /begin Q 2 /begin R 3 /end R /end Q", 1),
            ("first repeated block", "/begin S 1 /end S", 1),
            ("second repeated block", "/begin S 2 /end S", 1),
            ("both repeated blocks", "/begin S 1 /end S /begin S 2 /end S", 1),
        ];
        for (pn, piece, includes) in pieces {
            if flat.matches(piece).count() != 1 {
                continue;
            }
            for (dir, quoted) in [("", true), ("ifd/", false), ("ifd/", true)] {
                let inc = format!("{dir}part.a2l");
                let main = flat.replacen(piece, &format!("\n{}\n", inc_directive(&inc, quoted)), 1);
                out.push(Tree {
                    label: format!("{label}: {pn} inside the IF_DATA payload -> {inc} ({})", if quoted { "quoted" } else { "bare" }),
                    class: format!("inside-if-data:{}:{pn}", if label.contains("uninterpreted") { "uninterpreted" } else { "a2ml" }),
                    files: vec![("main.a2l".into(), main), (inc, format!("{piece}\n"))],
                    flattened: flat.clone(),
                    includes,
                    a2ml_include: false,
                });
            }
        }
    }
    out
}

pub fn build(g: &Grammar, thorough: bool) -> Vec<Tree> {
    let mut out = Vec::new();
    for (label, doc) in base_docs(g) {
        if label != "record-layout-out-of-order" {
            out.extend(cuts(&label, &doc, thorough));
        } else {
            // position-restricted children listed out of position order: the writer re-orders them across the file boundary
            out.extend(cuts(&label, &doc, thorough).into_iter().filter(|t| t.class.contains("in-element")));
        }
        if label == "four-elements" || label == "three-modules" || label == "record-layout-out-of-order" {
            out.extend(deep_cuts(&label, &doc, thorough));
        }
    }
    // the same trees with a line comment on a line of its own behind every /end that starts a line (in every file and in the
    // flattened text alike): wherever a run begins behind an element, a line comment is the last thing in front of the directive,
    // and wherever a run ends, a line comment is the last token of the include file
    {
        let commented = |text: &str| -> String {
            let mut o = String::new();
            for l in text.lines() {
                o.push_str(l);
                o.push('\n');
                let t = l.trim_start();
                if t.starts_with("/end ") && !t.starts_with("/end PROJECT") && !l.contains("IF_DATA") && !l.contains("A2ML") {
                    let indent = &l[..l.len() - t.len()];
                    o.push_str(&format!("{indent}// line comment behind {}\n", t.split_whitespace().nth(1).unwrap_or("")));
                }
            }
            o
        };
        let stride = if thorough { 1 } else { 5 };
        let base: Vec<Tree> = out.iter().filter(|t| !t.a2ml_include && !t.flattened.contains("IF_DATA") && (t.class.starts_with("single") || t.class.starts_with("nested") || t.class.starts_with("deep"))).step_by(stride).map(|t| Tree { label: format!("{} + a line comment behind every /end", t.label), class: format!("{}:line-comments", t.class), files: t.files.iter().map(|(n, c)| (n.clone(), commented(c))).collect(), flattened: commented(&t.flattened), includes: t.includes, a2ml_include: false }).collect();
        out.extend(base);
    }
    // an include file without any token (empty, blanks and line breaks only) named at every line boundary of the main file and of
    // the first include file, next to the real directives: nothing is added, nothing behind it may get lost
    {
        let stride = if thorough { 3 } else { 11 };
        let base: Vec<Tree> = out.iter().filter(|t| !t.a2ml_include && !t.flattened.contains("IF_DATA") && t.class.starts_with("single")).step_by(stride).cloned_trees();
        for t in base {
            for (ei, empty) in ["", " \n\t\n  "].iter().enumerate() {
                for fi in 0..t.files.len().min(2) {
                    let lines: Vec<&str> = t.files[fi].1.lines().collect();
                    for at in 1..=lines.len() {
                        // (not in front of the version line, not behind /end PROJECT)
                        if fi == 0 && (at >= lines.len() || at < 1) {
                            continue;
                        }
                        let mut files = t.files.clone();
                        let mut l2: Vec<String> = lines.iter().map(|x| x.to_string()).collect();
                        l2.insert(at, "/include \"empty_file.a2l\"".to_string());
                        files[fi].1 = l2.join("\n") + "\n";
                        // the empty file lies next to the file that names it
                        let dir = t.files[fi].0.rfind('/').map(|i| &t.files[fi].0[..=i]).unwrap_or("");
                        files.push((format!("{dir}empty_file.a2l"), empty.to_string()));
                        out.push(Tree { label: format!("{} + an include file without tokens ({}) named behind line {at} of {}", t.label, ["empty", "blanks"][ei], t.files[fi].0), class: format!("{}:empty-include", t.class), files, flattened: t.flattened.clone(), includes: t.includes, a2ml_include: false });
                    }
                }
            }
        }
    }
    out.extend(a2ml_trees(g));
    out.extend(shared_include_trees());
    out.extend(ifdata_inner_trees(g));
    out
}

trait ClonedTrees {
    fn cloned_trees(self) -> Vec<Tree>;
}
impl<'a, I: Iterator<Item = &'a Tree>> ClonedTrees for I {
    fn cloned_trees(self) -> Vec<Tree> {
        self.map(|t| Tree { label: t.label.clone(), class: t.class.clone(), files: t.files.clone(), flattened: t.flattened.clone(), includes: t.includes, a2ml_include: t.a2ml_include }).collect()
    }
}

fn model_eq_modulo_a2ml(a: &a2lfile::A2lFile, b: &a2lfile::A2lFile, a2ml_include: bool) -> bool {
    if !a2ml_include {
        return a == b;
    }
    // the A2ML text keeps its own /include directive: compare everything the definition is used for
    a.project.module.len() == b.project.module.len() && a.project.module.iter().zip(b.project.module.iter()).all(|(x, y)| x.if_data == y.if_data && x.if_data.iter().zip(y.if_data.iter()).all(|(p, q)| p.ifdata_valid == q.ifdata_valid))
}

pub fn eval(t: &Tree, root: &Path) -> Result<&'static str, (String, String)> {
    let _ = std::fs::remove_dir_all(root);
    let main = materialise(root, t).map_err(|e| ("machinery".to_string(), format!("cannot create the file tree: {e}")))?;
    let v = |o: &str, w: String| Err((o.to_string(), w));
    // 1. transparent loading
    let loaded = guard(|| a2lfile::load(&main, None, false)).map_err(|p| ("panic".to_string(), p))?;
    let flat = guard(|| a2lfile::load_from_string(&t.flattened, None, false)).map_err(|p| ("panic".to_string(), p))?;
    let (mut f, log) = match (loaded, flat) {
        (Ok((f, log)), Ok((ff, flog))) => {
            if !model_eq_modulo_a2ml(&f, &ff, t.a2ml_include) {
                return v("load-differs-from-flattened", "the model loaded through /include differs from the model of the flattened text".into());
            }
            if log.len() != flog.len() {
                return v("diagnostics-differ-from-flattened", format!("{} diagnostics with includes, {} for the flattened text: {}", log.len(), flog.len(), log.first().map(|e| e.to_string()).unwrap_or_default()));
            }
            (f, log)
        }
        (Err(e), Ok(_)) => return v("load-fails", format!("loading through /include fails: {e}")),
        (Ok(_), Err(e)) => return v("machinery", format!("flattened text does not load: {e}")),
        (Err(_), Err(e)) => return v("machinery", format!("neither loads: {e}")),
    };
    let _ = log;
    // 2. write into the same tree, reload from the same directory
    let out_main = root.join("written.a2l");
    guard(|| f.write(&out_main, None)).map_err(|p| ("panic".to_string(), p))?.map_err(|e| ("machinery".to_string(), format!("write failed: {e}")))?;
    let written = std::fs::read_to_string(&out_main).unwrap_or_default();
    let n_inc = written.matches("/include").count();
    match guard(|| a2lfile::load(&out_main, None, false)).map_err(|p| ("panic".to_string(), p))? {
        Ok((f2, _)) => {
            if f2 != f {
                return v("written-file-reloads-differently", format!("loading the written file gives a different model ({} /include directives written)\n--- written main file:\n{}", n_inc, short(&written, 700)));
            }
        }
        Err(e) => return v("written-file-not-loadable", format!("the written file cannot be loaded from the same directory: {e}\n--- written main file:\n{}", short(&written, 700))),
    }
    if !t.a2ml_include && n_inc != t.includes {
        return v("include-directives-written", format!("{} include files, {} /include directives in the written file\n{}", t.includes, n_inc, short(&written, 700)));
    }
    // 3. merge_includes makes the output self-contained and equal
    guard(|| f.merge_includes()).map_err(|p| ("panic".to_string(), p))?;
    let merged = guard(|| f.write_to_string()).map_err(|p| ("panic".to_string(), p))?;
    if merged.contains("/include") {
        return v("merge-includes-not-self-contained", format!("output after merge_includes() still has an /include directive:\n{}", short(&merged, 700)));
    }
    match guard(|| a2lfile::load_from_string(&merged, None, false)).map_err(|p| ("panic".to_string(), p))? {
        Ok((f3, _)) => {
            if !model_eq_modulo_a2ml(&f3, &f, t.a2ml_include) || (t.a2ml_include && f3 != f) {
                return v("merge-includes-changes-model", "the self-contained output loads to a different model".into());
            }
        }
        Err(e) => return v("merge-includes-output-not-loadable", format!("{e}\n{}", short(&merged, 700))),
    }
    Ok("transparent")
}

/// fault cases run in a child process (a stack overflow cannot be caught)
pub fn fault_trees() -> Vec<(String, Vec<(String, Option<String>)>, bool)> {
    // (label, files (None = directory), expect_err)
    let head = "ASAP2_VERSION 1 71\n/begin PROJECT p \"\"\n/begin MODULE m \"\"\n";
    let tail = "/end MODULE\n/end PROJECT\n";
    vec![
        ("include file missing".into(), vec![("main.a2l".into(), Some(format!("{head}/include \"nope.a2l\"\n{tail}")))], true),
        ("include file missing, bare name in sub-directory".into(), vec![("main.a2l".into(), Some(format!("{head}/include sub/nope.a2l\n{tail}")))], true),
        ("directory in place of the include file".into(), vec![("main.a2l".into(), Some(format!("{head}/include \"d.a2l\"\n{tail}"))), ("d.a2l".into(), None)], true),
        ("empty include file".into(), vec![("main.a2l".into(), Some(format!("{head}/include \"e.a2l\"\n{tail}"))), ("e.a2l".into(), Some(String::new()))], false),
        ("include directive without a name".into(), vec![("main.a2l".into(), Some(format!("{head}/include\n{tail}")))], true),
        ("file including itself".into(), vec![("main.a2l".into(), Some(format!("{head}/include \"main.a2l\"\n{tail}")))], true),
        ("mutual inclusion".into(), vec![("main.a2l".into(), Some(format!("{head}/include \"a.a2l\"\n{tail}"))), ("a.a2l".into(), Some("/include \"b.a2l\"\n".into())), ("b.a2l".into(), Some("/include \"a.a2l\"\n".into()))], true),
        // files that hold include directives and nothing else, over include files without tokens: an empty input, reported as such
        ("main file of one include directive, include file empty".into(), vec![("main.a2l".into(), Some("/include \"e.a2l\"\n".into())), ("e.a2l".into(), Some(String::new()))], true),
        ("main file of two include directives, include files blank".into(), vec![("main.a2l".into(), Some("\n  /include e.a2l\n/include \"sub/e2.a2l\"\n\n".into())), ("e.a2l".into(), Some(" \n\t\n".into())), ("sub/e2.a2l".into(), Some("\n".into()))], true),
        ("main file includes a file that includes an empty file".into(), vec![("main.a2l".into(), Some("/include \"a.a2l\"\n".into())), ("a.a2l".into(), Some("/include \"e.a2l\"\n".into())), ("e.a2l".into(), Some(String::new()))], true),
        ("empty main file".into(), vec![("main.a2l".into(), Some(String::new()))], true),
        ("blank main file".into(), vec![("main.a2l".into(), Some(" \n\n\t ".into()))], true),
        ("A2ML include missing".into(), vec![("main.a2l".into(), Some(format!("{head}/begin A2ML /include \"nope.aml\"\n/end A2ML\n{tail}")))], false),
        ("A2ML including itself".into(), vec![("main.a2l".into(), Some(format!("{head}/begin A2ML /include \"self.aml\"\n/end A2ML\n{tail}"))), ("self.aml".into(), Some("/include \"self.aml\"\n".into()))], false),
    ]
}

/// child mode: vmain C16-fault <index> <dir>; prints RESULT ok|err <text>
pub fn fault_child(idx: usize, dir: &str) -> i32 {
    let faults = fault_trees();
    let (_, files, _) = &faults[idx];
    let root = PathBuf::from(dir);
    let _ = std::fs::remove_dir_all(&root);
    for (rel, content) in files {
        let p = root.join(rel);
        match content {
            Some(c) => {
                let _ = std::fs::create_dir_all(p.parent().unwrap());
                let _ = std::fs::write(&p, c);
            }
            None => {
                let _ = std::fs::create_dir_all(&p);
            }
        }
    }
    match guard(|| a2lfile::load(root.join("main.a2l"), None, false)) {
        Ok(Ok(_)) => println!("RESULT ok"),
        Ok(Err(e)) => println!("RESULT err {}", e.to_string().replace('\n', " ")),
        Err(p) => println!("RESULT panic {p}"),
    }
    0
}

pub fn run(tier: &str) -> Run {
    let mut run = Run::new("C16", tier);
    let g = crate::corpus::grammar();
    let root = scratch_root();
    let _ = std::fs::create_dir_all(&root);
    // relative names must not resolve against the working directory by accident
    let empty_cwd = root.join("cwd");
    let _ = std::fs::create_dir_all(&empty_cwd);
    let _ = std::env::set_current_dir(&empty_cwd);
    let trees = build(&g, crate::util::wide(tier));
    let res = par_map(
        trees.len(),
        &|i| {
            use std::hash::{Hash, Hasher};
            let mut h = std::collections::hash_map::DefaultHasher::new();
            std::thread::current().id().hash(&mut h);
            eval(&trees[i], &root.join(format!("w{}", h.finish() % 4096)))
        },
        &|i| {
            println!("MACHINERY-ERROR: C16 case hangs: {}", trees[i].label);
            std::process::exit(2);
        },
    );
    for (i, r) in res.into_iter().enumerate() {
        run.evaluations += 1;
        run.transitions += 6;
        let h = fnv1a(format!("{:?}", trees[i].files).as_bytes());
        if run.states.insert(h) {
            run.nontrivial.insert(h);
        }
        let cls = trees[i].class.split(':').next().unwrap_or("").to_string();
        match r {
            Ok(o) => run.outcome(&format!("{cls}: {o}")),
            Err((o, w)) if o == "machinery" => run.machinery(format!("{}: {w}", trees[i].label)),
            Err((o, w)) => {
                run.outcome(&format!("{cls}: violation"));
                let key = if o == "panic" { format!("C16/panic {}", vcore::explore::panic_key(&w)) } else { format!("C16/{o}/{}", trees[i].class) };
                run.violation(key, format!("{}: {w}", trees[i].label), json!({"files": trees[i].files, "flattened": trees[i].flattened, "includes": trees[i].includes, "a2ml_include": trees[i].a2ml_include, "class": trees[i].class}));
            }
        }
        if i % 2003 == 11 {
            run.sample(json!({"label": trees[i].label, "files": trees[i].files.iter().map(|f| (f.0.clone(), short(&f.1, 200))).collect::<Vec<_>>()}));
        }
    }
    // the main file named without a directory part, the working directory being its directory (serial: the working directory
    // is a property of the process): loading must give the model of the flattened text
    {
        let wd = root.join("barename");
        let mut n = 0u64;
        for (i, t) in trees.iter().enumerate() {
            if i % 7 != 0 && !t.class.contains("backslash") {
                continue;
            }
            if t.a2ml_include {
                continue;
            }
            n += 1;
            let _ = std::fs::remove_dir_all(&wd);
            if materialise(&wd, t).is_err() || std::env::set_current_dir(&wd).is_err() {
                run.machinery("cannot prepare the bare-name case");
                break;
            }
            let r = guard(|| (a2lfile::load(&t.files[0].0, None, false), a2lfile::load_from_string(&t.flattened, None, false)));
            let _ = std::env::set_current_dir(&empty_cwd);
            run.evaluations += 1;
            run.transitions += 2;
            let verdict = match r {
                Err(p) => Some(("panic".to_string(), p)),
                Ok((Ok((f, _)), Ok((ff, _)))) => {
                    if f != ff {
                        Some(("load-differs-from-flattened".to_string(), "main file given by its bare name: the model differs from the model of the flattened text".to_string()))
                    } else {
                        None
                    }
                }
                Ok((Err(e), Ok(_))) => Some(("load-fails".to_string(), format!("main file given by its bare name (working directory = its directory): {e}"))),
                Ok((_, Err(_))) => None,
            };
            match verdict {
                None => run.outcome("bare main file name: transparent"),
                Some((o, w)) => {
                    let key = if o == "panic" { format!("C16/panic {}", vcore::explore::panic_key(&w)) } else { format!("C16/{o}/bare-main-name:{}", t.class) };
                    run.violation(key, format!("{}: {w}", t.label), json!({"files": t.files, "flattened": t.flattened, "includes": t.includes, "a2ml_include": t.a2ml_include, "class": t.class, "bare_main_name": true}));
                }
            }
        }
        let _ = n;
        run.require("bare main file name: transparent", 100);
    }
    // faults, each in a child process
    let exe = std::env::current_exe().ok();
    for (idx, (label, _, expect_err)) in fault_trees().iter().enumerate() {
        run.evaluations += 1;
        run.transitions += 1;
        let Some(exe) = &exe else {
            run.machinery("cannot find own executable for the fault cases");
            break;
        };
        let dir = root.join(format!("fault{idx}"));
        let mut child = match std::process::Command::new(exe).arg("C16-fault").arg(idx.to_string()).arg(&dir).stdout(std::process::Stdio::piped()).stderr(std::process::Stdio::null()).spawn() {
            Ok(c) => c,
            Err(e) => {
                run.machinery(format!("cannot start the fault child: {e}"));
                continue;
            }
        };
        let t0 = std::time::Instant::now();
        let status = loop {
            match child.try_wait() {
                Ok(Some(s)) => break Some(s),
                Ok(None) => {
                    if t0.elapsed().as_secs() > 20 {
                        let _ = child.kill();
                        break None;
                    }
                    std::thread::sleep(std::time::Duration::from_millis(20));
                }
                Err(_) => break None,
            }
        };
        let mut outp = String::new();
        if let Some(mut so) = child.stdout.take() {
            use std::io::Read;
            let _ = so.read_to_string(&mut outp);
        }
        let replay = json!({"fault": idx});
        match status {
            None => run.violation(format!("C16/fault-hangs/{label}"), format!("{label}: no result after 20 s"), replay),
            Some(s) if !s.success() => run.violation(format!("C16/fault-crashes-process/{label}"), format!("{label}: the process died ({s}) instead of returning an error"), replay),
            Some(_) => {
                let line = outp.lines().find(|l| l.starts_with("RESULT")).unwrap_or("").to_string();
                if line.starts_with("RESULT panic") {
                    run.violation(format!("C16/fault-panics/{label}"), format!("{label}: {line}"), replay);
                } else if *expect_err && !line.starts_with("RESULT err") {
                    run.violation(format!("C16/fault-not-reported/{label}"), format!("{label}: expected an error, got: {line}"), replay);
                } else if *expect_err && !(line.contains("include") || line.contains("Include")) && !(label.contains("main file") && line.contains("no a2l data")) {
                    run.violation(format!("C16/fault-error-does-not-name-directive/{label}"), format!("{label}: {line}"), replay);
                } else {
                    run.outcome("fault: reported as error / tolerated");
                }
            }
        }
    }
    let _ = std::env::set_current_dir("/");
    let _ = std::fs::remove_dir_all(&root);
    run.require("single: transparent", 150);
    run.require("siblings: transparent", 100);
    run.require("a2ml-include: transparent", 2);
    run.rule = "for a 4-element module and a 3-module project: every contiguous run of children of every node (modules in PROJECT, elements in MODULE, sub-elements in an element) moved to an include file, optionally with a nested include (a sub-run moved on to a second file included from the first) or a sibling include, x directory of the include file {., sub/, sub/sub2/} x directory of the nested file relative to the first {., inner/} x name syntax {quoted, bare} x separator {/, \\}; include trees of every shape up to three levels below the main file (at most two includes per file, including files that consist of one /include directive only and runs at file level) over the same documents x directory layouts {flat, one directory further down per level, first level only, deepest level only}; a RECORD_LAYOUT whose position-restricted children are listed out of position order, cut at every run; the A2ML block including part of its definition; fault cases (missing, directory, empty, no name, self-inclusion, mutual inclusion) in a child process. Oracle: load(main) == load_from_string(flattened) incl. number of diagnostics; write next to the tree and reload gives an equal model and one /include per file; merge_includes() gives an include-free text that reloads equal; faults give an error naming the include, in finite time, in a live process.".into();
    run
}

pub fn replay(v: &Value) -> Result<String, String> {
    if let Some(idx) = v["fault"].as_u64() {
        let dir = std::env::temp_dir().join(format!("verif-c16-replay-{}", std::process::id()));
        fault_child(idx as usize, &dir.to_string_lossy());
        return Ok("fault case executed in-process (see RESULT line)".into());
    }
    let files: Vec<(String, String)> = v["files"].as_array().ok_or("no files")?.iter().filter_map(|f| Some((f[0].as_str()?.to_string(), f[1].as_str()?.to_string()))).collect();
    let t = Tree { label: String::new(), class: v["class"].as_str().unwrap_or("").into(), files, flattened: v["flattened"].as_str().unwrap_or("").into(), includes: v["includes"].as_u64().unwrap_or(1) as usize, a2ml_include: v["a2ml_include"].as_bool().unwrap_or(false) };
    let root = scratch_root();
    let _ = std::fs::create_dir_all(root.join("cwd"));
    let _ = std::env::set_current_dir(root.join("cwd"));
    let r = if v["bare_main_name"].as_bool().unwrap_or(false) {
        let wd = root.join("barename");
        let _ = materialise(&wd, &t);
        let _ = std::env::set_current_dir(&wd);
        match guard(|| (a2lfile::load(&t.files[0].0, None, false), a2lfile::load_from_string(&t.flattened, None, false))) {
            Err(p) => Err(("panic".to_string(), p)),
            Ok((Ok((f, _)), Ok((ff, _)))) => {
                if f == ff {
                    Ok("transparent")
                } else {
                    Err(("load-differs-from-flattened".to_string(), "models differ".to_string()))
                }
            }
            Ok((Err(e), _)) => Err(("load-fails".to_string(), e.to_string())),
            Ok((_, Err(e))) => Err(("machinery".to_string(), e.to_string())),
        }
    } else {
        eval(&t, &root.join("w"))
    };
    let _ = std::env::set_current_dir("/");
    let _ = std::fs::remove_dir_all(&root);
    match r {
        Ok(o) => Ok(o.into()),
        Err((o, w)) => Err(format!("{o}: {w}")),
    }
}
