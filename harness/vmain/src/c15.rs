//! C15 — sort_new_items(): stable placement over long edit histories.
//! Explicit-state search over {sort_new_items, push kind k, merge module j} with the real A2lFile
//! in the state; deviation-bounded long histories; consecutive-call ladders.

use crate::c14::module_order;
use crate::modgen::*;
use crate::util::*;
use a2lfile::A2lFile;
use serde_json::{json, Value};
use vcore::explore::{fnv1a, guard, par_map};
use vcore::grammar::Grammar;
use vcore::report::Run;

#[derive(Debug, Clone, Copy, PartialEq, Eq)]
pub enum Act {
    S,
    P(usize),
    M(usize),
}

pub const PUSH_KINDS: [&str; 6] = ["MEASUREMENT", "CHARACTERISTIC", "COMPU_METHOD", "GROUP", "IF_DATA", "USER_RIGHTS"];
/// every list kind of the module (P(k) with k >= 6 pushes ALL_LIST_KINDS[k - 6]; only used by the all-kinds family)
pub const ALL_LIST_KINDS: [&str; 20] = [
    "AXIS_PTS", "BLOB", "CHARACTERISTIC", "COMPU_METHOD", "COMPU_TAB", "COMPU_VTAB", "COMPU_VTAB_RANGE", "FRAME", "FUNCTION", "GROUP", "INSTANCE", "MEASUREMENT", "RECORD_LAYOUT", "TRANSFORMER",
    "TYPEDEF_AXIS", "TYPEDEF_BLOB", "TYPEDEF_CHARACTERISTIC", "TYPEDEF_MEASUREMENT", "TYPEDEF_STRUCTURE", "UNIT",
];
fn push_kind(k: usize) -> &'static str {
    if k < PUSH_KINDS.len() {
        PUSH_KINDS[k]
    } else {
        ALL_LIST_KINDS[k - PUSH_KINDS.len()]
    }
}

fn is_list_kind(tag: &str) -> bool {
    tag != "IF_DATA" && tag != "USER_RIGHTS" && tag != "A2ML" && tag != "MOD_COMMON" && tag != "MOD_PAR" && tag != "VARIANT_CODING"
}

type Id = (String, String);

pub struct Sim {
    pub file: A2lFile,
    /// output order of the elements that are placed
    pub placed: Vec<Id>,
    pub new: Vec<Id>,
    /// the elements that existed at the start or at the end of the last sort_new_items call: everything else is new,
    /// whatever position key it carries (a merged-in element must not smuggle in the key it had in its own file)
    pub known: std::collections::HashSet<Id>,
    /// output order of the other modules of the project (as last observed after a sort_new_items call)
    pub others: Vec<Vec<Id>>,
    /// elements pushed into the second module since the last sort_new_items call
    pub new2: Vec<Id>,
    pub counter: u32,
    pub steps: u64,
    /// output order, after the last sort_new_items call, of the elements that had a position then - the A2ML / MOD_COMMON /
    /// MOD_PAR / VARIANT_CODING blocks included
    pub anchors: Vec<Id>,
}

/// position keys of the blocks that occur at most once
fn singleton_uids(f: &A2lFile) -> std::collections::HashMap<Id, u32> {
    use a2lfile::A2lObject;
    let m = &f.project.module[0];
    let mut out = std::collections::HashMap::new();
    if let Some(x) = &m.a2ml {
        out.insert(("A2ML".to_string(), String::new()), x.get_layout().uid);
    }
    if let Some(x) = &m.mod_common {
        out.insert(("MOD_COMMON".to_string(), String::new()), x.get_layout().uid);
    }
    if let Some(x) = &m.mod_par {
        out.insert(("MOD_PAR".to_string(), String::new()), x.get_layout().uid);
    }
    if let Some(x) = &m.variant_coding {
        out.insert(("VARIANT_CODING".to_string(), String::new()), x.get_layout().uid);
    }
    out
}

fn observe(g: &Grammar, f: &A2lFile) -> Result<Vec<Id>, String> {
    let text = guard(|| f.write_to_string()).map_err(|p| format!("panic: {p}"))?;
    let mods = module_order(g, &text).map_err(|e| format!("invalid-output: {e}\n{}", short(&text, 800)))?;
    let mut v = mods.into_iter().next().unwrap_or_default();
    // IF_DATA has no name: number them by their payload (written as the first payload token)
    let mut k = 0;
    for (tag, name) in v.iter_mut() {
        if tag == "IF_DATA" {
            *name = format!("#{k}");
            k += 1;
        }
    }
    Ok(v)
}

/// the children of every module but the first, in output order (those modules are never edited by the histories)
fn observe_others(g: &Grammar, f: &A2lFile) -> Result<Vec<Vec<Id>>, String> {
    let text = guard(|| f.write_to_string()).map_err(|p| format!("panic: {p}"))?;
    let mods = module_order(g, &text).map_err(|e| format!("invalid-output: {e}"))?;
    Ok(mods.into_iter().skip(1).collect())
}

impl Sim {
    pub fn start(g: &Grammar, text: &str) -> Result<Sim, String> {
        let file = match load(text, None, false) {
            Loaded::Ok(f, _) => f,
            _ => return Err("machinery: start file does not load".into()),
        };
        let um = uid_map(&file);
        let placed = observe(g, &file)?.into_iter().filter(|x| um.get(x).copied().unwrap_or(0) != 0).collect();
        let known = um.keys().cloned().collect();
        let others = observe_others(g, &file)?;
        Ok(Sim { file, placed, new: vec![], known, others, new2: vec![], counter: 0, steps: 0, anchors: vec![] })
    }

    fn apply(&mut self, g: &Grammar, a: Act) -> Result<(), String> {
        self.steps += 1;
        match a {
            Act::S => guard(|| self.file.sort_new_items()).map_err(|p| format!("panic: {p}")),
            Act::P(k) if k >= 100 => {
                // push into the second module
                use a2lfile::A2lObjectName;
                if self.file.project.module.len() < 2 {
                    return Ok(());
                }
                self.counter += 1;
                let mut kk = 20000 + self.counter * 40;
                let m = &mut self.file.project.module[1];
                if k == 100 {
                    let x = crate::gen_builders::build_Measurement(&mut kk, 1);
                    self.new2.push(("MEASUREMENT".into(), x.get_name().to_string()));
                    m.measurement.push(x);
                } else {
                    let x = crate::gen_builders::build_Characteristic(&mut kk, 1);
                    self.new2.push(("CHARACTERISTIC".into(), x.get_name().to_string()));
                    m.characteristic.push(x);
                }
                Ok(())
            }
            Act::P(k) => {
                let tag = push_kind(k);
                self.counter += 1;
                let c = self.counter;
                let mut kk = 9000 + c * 40;
                if tag == "IF_DATA" {
                    let mut ifd = a2lfile::IfData::new();
                    ifd.ifdata_valid = false;
                    self.file.project.module[0].if_data.push(ifd);
                    // (an empty IF_DATA block; identified by its position among the IF_DATA blocks)
                    return Ok(());
                }
                if tag == "USER_RIGHTS" {
                    let ur = a2lfile::UserRights::new(format!("ur{c}"));
                    self.file.project.module[0].user_rights.push(ur);
                    self.new.push((tag.to_string(), format!("ur{c}")));
                    return Ok(());
                }
                let before: Vec<String> = names_of(&self.file, tag);
                if !crate::gen_builders::push_module_item(&mut self.file, tag, &mut kk, 1) {
                    return Err(format!("machinery: cannot push {tag}"));
                }
                let name = names_of(&self.file, tag).into_iter().find(|n| !before.contains(n)).ok_or("machinery: pushed element not found")?;
                self.new.push((tag.to_string(), name));
                let _ = g;
                Ok(())
            }
            Act::M(j) => {
                self.counter += 1;
                let c = self.counter;
                let specs: Vec<ESpec> = match j {
                    0 => vec![e("MEASUREMENT", &format!("mm{c}"), "c1")],
                    1 => vec![e("CHARACTERISTIC", &format!("mc{c}"), "c1"), e("MEASUREMENT", &format!("mm{c}"), "c1"), e("UNIT", &format!("mu{c}"), "c1")],
                    // same name, other content than in the start files "one" / "mixed": added under a fresh name
                    3 => vec![e("UNIT", &format!("zu{c}"), "c1"), e("MEASUREMENT", "m1", "c2"), e("CHARACTERISTIC", "c1", "c2"), e("MEASUREMENT", &format!("mq{c}"), "c1")],
                    4 => vec![e("MEASUREMENT", &format!("mr{c}"), "c1"), e("COMPU_METHOD", "cm1", "c2"), e("GROUP", "g1", "c2"), e("MEASUREMENT", "m2", "c1"), e("CHARACTERISTIC", "c2", "c2")],
                    // a module whose singletons are listed against the canonical order, with a USER_RIGHTS block and an element
                    5 => vec![e("MOD_PAR", "", "c1"), e("MOD_COMMON", "", "c1"), e("USER_RIGHTS", &format!("ux{c}"), "c1"), e("MEASUREMENT", &format!("ms{c}"), "c1"), e("VARIANT_CODING", "", "c1")],
                    _ => vec![e("COMPU_METHOD", &format!("mcm{c}"), "c1"), e("GROUP", &format!("mg{c}"), "c1"), e("COMPU_METHOD", &format!("mcn{c}"), "c2")],
                };
                let text = file_text(g, "other", &specs);
                let mut other = a2lfile::load_from_string(&text, None, false).map_err(|e| format!("machinery: merge module does not load: {e}"))?.0;
                guard(|| self.file.merge_modules(&mut other)).map_err(|p| format!("panic: {p}"))?;
                // (the singletons have no name and no "last element of their kind": they are only subject to order stability once placed)
                for s in specs.into_iter().filter(|s| !s.name.is_empty()) {
                    self.new.push((s.tag.clone(), s.name.clone()));
                }
                Ok(())
            }
        }
    }

    /// apply an action and evaluate the oracle. Err((oracle, message))
    /// "placed" = the element has a position key (uid != 0); elements of a kind without any placed
    /// element keep uid 0 and float at the end (documented behaviour, asserted by the repository's tests)
    pub fn step(&mut self, g: &Grammar, a: Act, observe_now: bool) -> Result<(), (String, String)> {
        let uid_before = uid_map(&self.file);
        self.apply(g, a).map_err(|e| (if e.starts_with("panic") { "panic".to_string() } else { "machinery".to_string() }, e))?;
        if let Err(w) = crate::c08::index_coherent(&self.file) {
            return Err(("name-index-incoherent".to_string(), format!("after {a:?}: {w}")));
        }
        if !observe_now {
            return Ok(());
        }
        let out = observe(g, &self.file).map_err(|e| (if e.starts_with("panic") { "panic".to_string() } else { "invalid-output".to_string() }, e))?;
        if !self.others.is_empty() {
            let now = observe_others(g, &self.file).map_err(|e| ("invalid-output".to_string(), e))?;
            // the elements that were there keep their order
            let kept: Vec<Vec<Id>> = now.iter().zip(self.others.iter()).map(|(n, o)| n.iter().filter(|x| o.contains(x)).cloned().collect()).collect();
            if kept != self.others {
                return Err(("other-module-order-changed".into(), format!("after {a:?}: the children of another module of the project are written in another order: {:?}, before {:?}", now, self.others)));
            }
            if a == Act::S {
                // what was pushed into the second module since the last call sits directly behind the last element of its kind
                let mut expected = self.others[0].clone();
                for x in &self.new2 {
                    match expected.iter().rposition(|y| y.0 == x.0) {
                        Some(p) => expected.insert(p + 1, x.clone()),
                        None => expected.push(x.clone()),
                    }
                }
                if now[0] != expected {
                    return Err(("new-element-misplaced".into(), format!("after S: the second module is written as {:?}, expected {:?}", fmt_ids(&now[0].iter().collect::<Vec<_>>()), fmt_ids(&expected.iter().collect::<Vec<_>>()))));
                }
                self.others = now;
                self.new2.clear();
            }
        }
        let uid_after = uid_map(&self.file);
        let named = |x: &Id| x.0 != "IF_DATA" && is_list_kind(&x.0) || x.0 == "USER_RIGHTS";
        let was_placed = |x: &Id| self.known.contains(x) && uid_before.get(x).copied().unwrap_or(0) != 0;
        // 1. relative order of the placed elements is unchanged (compared with the last observation)
        let seq: Vec<&Id> = out.iter().filter(|x| self.placed.contains(x)).collect();
        let want: Vec<&Id> = self.placed.iter().collect();
        if seq != want {
            return Err(("placed-order-changed".into(), format!("after {a:?}: placed elements were written as {:?}, before {:?}", fmt_ids(&seq), fmt_ids(&want))));
        }
        // every element is still written
        for x in uid_after.keys() {
            if !out.contains(x) {
                return Err(("element-missing".into(), format!("after {a:?}: {} {} is not in the output {:?}", x.0, x.1, fmt_ids(&out.iter().filter(|y| y.0 == x.0).collect::<Vec<_>>()))));
            }
        }
        if a == Act::S {
            for x in out.iter().filter(|x| named(x)) {
                if was_placed(x) {
                    continue;
                }
                let now = uid_after.get(x).copied().unwrap_or(0);
                let pos = out.iter().position(|y| y == x).unwrap();
                // the last element of the same kind that was placed before the call
                let anchor = self.placed.iter().rev().find(|p| p.0 == x.0 && was_placed(p));
                match anchor {
                    Some(an) => {
                        if now == 0 {
                            return Err(("new-element-not-placed".into(), format!("after S: {} {} has no position although a placed {} exists ({})", x.0, x.1, x.0, an.1)));
                        }
                        // walk backwards over formerly new elements of the same kind
                        let mut i = pos;
                        loop {
                            if i == 0 {
                                return Err(("new-element-misplaced".into(), format!("after S: {} {} is written before the last placed {} ({}): {:?}", x.0, x.1, x.0, an.1, fmt_ids(&out.iter().collect::<Vec<_>>()))));
                            }
                            i -= 1;
                            let y = &out[i];
                            if y == an {
                                break;
                            }
                            if !(y.0 == x.0 && !was_placed(y)) {
                                return Err(("new-element-misplaced".into(), format!("after S: {} {} is not directly behind the last placed {} ({}): {:?}", x.0, x.1, x.0, an.1, fmt_ids(&out.iter().collect::<Vec<_>>()))));
                            }
                        }
                    }
                    None => {
                        // at the end: behind every placed element
                        if out[pos..].iter().any(|y| uid_after.get(y).copied().unwrap_or(0) != 0 && named(y) && was_placed(y)) {
                            return Err(("new-element-misplaced".into(), format!("after S: there is no placed {} but {} {} is written before a placed element: {:?}", x.0, x.0, x.1, fmt_ids(&out.iter().collect::<Vec<_>>()))));
                        }
                    }
                }
            }
        }
        // 1b. the same for everything that had a position after the last call, the blocks that occur once included (their
        // names are empty in the observation)
        {
            let single = |x: &Id| matches!(x.0.as_str(), "A2ML" | "MOD_COMMON" | "MOD_PAR" | "VARIANT_CODING");
            let norm = |x: &Id| if single(x) { (x.0.clone(), String::new()) } else { x.clone() };
            let seq: Vec<Id> = out.iter().map(norm).filter(|x| self.anchors.contains(x)).collect();
            let want: Vec<Id> = self.anchors.iter().filter(|x| seq.contains(x)).cloned().collect();
            if seq != want {
                return Err(("placed-order-changed".into(), format!("after {a:?}: elements that had a position after the last call were written as {:?}, before {:?}", fmt_ids(&seq.iter().collect::<Vec<_>>()), fmt_ids(&want.iter().collect::<Vec<_>>()))));
            }
            if a == Act::S {
                let su = singleton_uids(&self.file);
                self.anchors = out.iter().map(norm).filter(|x| if single(x) { su.get(x).copied().unwrap_or(0) != 0 } else { named(x) && uid_after.get(x).copied().unwrap_or(0) != 0 }).collect();
            }
        }
        // what counts as placed from now on: elements with a position key, in output order
        self.placed = out.iter().filter(|x| named(x) && uid_after.get(*x).copied().unwrap_or(0) != 0).cloned().collect();
        self.new.clear();
        if a == Act::S {
            self.known = uid_after.keys().cloned().collect();
        }
        Ok(())
    }
}

/// uid of every module-level element (the position key the writer orders by); 0 = not placed
pub fn uid_map(f: &A2lFile) -> std::collections::HashMap<Id, u32> {
    use a2lfile::{A2lObject, A2lObjectName};
    let m = &f.project.module[0];
    let mut out = std::collections::HashMap::new();
    macro_rules! list {
        ($field:ident, $tag:expr) => {
            for x in m.$field.iter() {
                out.insert(($tag.to_string(), x.get_name().to_string()), x.get_layout().uid);
            }
        };
    }
    list!(axis_pts, "AXIS_PTS");
    list!(blob, "BLOB");
    list!(characteristic, "CHARACTERISTIC");
    list!(compu_method, "COMPU_METHOD");
    list!(compu_tab, "COMPU_TAB");
    list!(compu_vtab, "COMPU_VTAB");
    list!(compu_vtab_range, "COMPU_VTAB_RANGE");
    list!(frame, "FRAME");
    list!(function, "FUNCTION");
    list!(group, "GROUP");
    list!(instance, "INSTANCE");
    list!(measurement, "MEASUREMENT");
    list!(record_layout, "RECORD_LAYOUT");
    list!(transformer, "TRANSFORMER");
    list!(typedef_axis, "TYPEDEF_AXIS");
    list!(typedef_blob, "TYPEDEF_BLOB");
    list!(typedef_characteristic, "TYPEDEF_CHARACTERISTIC");
    list!(typedef_measurement, "TYPEDEF_MEASUREMENT");
    list!(typedef_structure, "TYPEDEF_STRUCTURE");
    list!(unit, "UNIT");
    for x in &m.user_rights {
        out.insert(("USER_RIGHTS".to_string(), x.user_level_id.clone()), x.get_layout().uid);
    }
    out
}

fn fmt_ids(v: &[&Id]) -> Vec<String> {
    v.iter().map(|x| format!("{} {}", x.0, x.1)).collect()
}

fn names_of(f: &A2lFile, tag: &str) -> Vec<String> {
    if !matches!(tag, "MEASUREMENT" | "CHARACTERISTIC" | "COMPU_METHOD" | "GROUP") {
        return uid_map(f).into_keys().filter(|k| k.0 == tag).map(|k| k.1).collect();
    }
    use a2lfile::A2lObjectName;
    let m = &f.project.module[0];
    match tag {
        "MEASUREMENT" => m.measurement.iter().map(|x| x.get_name().to_string()).collect(),
        "CHARACTERISTIC" => m.characteristic.iter().map(|x| x.get_name().to_string()).collect(),
        "COMPU_METHOD" => m.compu_method.iter().map(|x| x.get_name().to_string()).collect(),
        "GROUP" => m.group.iter().map(|x| x.get_name().to_string()).collect(),
        _ => vec![],
    }
}

thread_local! {
    static SINGLES_START: std::cell::RefCell<String> = const { std::cell::RefCell::new(String::new()) };
}

pub fn start_texts(g: &Grammar) -> Vec<(String, String)> {
    let three = file_text(g, "m", &[e("MEASUREMENT", "m1", "c1"), e("CHARACTERISTIC", "c1", "c1"), e("MEASUREMENT", "m2", "c1"), e("COMPU_METHOD", "cm1", "c1"), e("USER_RIGHTS", "u1", "c1"), e("GROUP", "g1", "c1"), e("CHARACTERISTIC", "c2", "c1")]);
    // interleave a comment and an IF_DATA block
    let three = three.replace("\n    /begin COMPU_METHOD", "\n    /* section */\n    /begin IF_DATA ZZ 1 /end IF_DATA\n    /begin COMPU_METHOD");
    // the "mixed" module followed by a second module with interleaved kinds, IF_DATA and USER_RIGHTS
    let second = file_text(g, "m2", &[e("CHARACTERISTIC", "c9", "c1"), e("MEASUREMENT", "m9", "c1"), e("USER_RIGHTS", "u9", "c1"), e("CHARACTERISTIC", "c8", "c1"), e("COMPU_METHOD", "cm9", "c1"), e("MEASUREMENT", "m8", "c1")]);
    let two = {
        let a = second.find("/begin MODULE").unwrap_or(0);
        let b = second.rfind("/end MODULE").map(|x| x + "/end MODULE".len()).unwrap_or(second.len());
        let pos = three.rfind("/end MODULE").map(|x| x + "/end MODULE".len()).unwrap_or(three.len());
        format!("{}\n  {}{}", &three[..pos], second[a..b].replace("/end MODULE", "/begin IF_DATA YY 2 /end IF_DATA\n  /end MODULE"), &three[pos..])
    };
    let singles = file_text(g, "m", &[e("MEASUREMENT", "m1", "c1"), e("VARIANT_CODING", "", "c1"), e("MEASUREMENT", "m2", "c1"), e("MOD_PAR", "", "c1"), e("GROUP", "g1", "c1"), e("MOD_COMMON", "", "c1"), e("CHARACTERISTIC", "c1", "c1")]);
    SINGLES_START.with(|c| *c.borrow_mut() = singles.clone());
    vec![("empty".into(), file_text(g, "m", &[])), ("one".into(), file_text(g, "m", &[e("MEASUREMENT", "m1", "c1")])), ("mixed".into(), three), ("new()".into(), a2lfile::new().write_to_string()), ("two-modules".into(), two)]
}

pub fn all_actions() -> Vec<Act> {
    let mut v = vec![Act::S];
    for k in 0..PUSH_KINDS.len() {
        v.push(Act::P(k));
    }
    for j in 0..5 {
        v.push(Act::M(j));
    }
    v
}

fn run_history(g: &Grammar, start: &str, hist: &[Act], observe_all: bool) -> (u64, Result<(), (String, String, usize)>) {
    let mut sim = match Sim::start(g, start) {
        Ok(s) => s,
        Err(e) => return (0, Err(("machinery".into(), e, 0))),
    };
    for (i, a) in hist.iter().enumerate() {
        // observe after every non-default action, after the S that follows one, periodically and at the end
        let obs = observe_all || *a != Act::S || (i > 0 && hist[i - 1] != Act::S) || i % 16 == 15 || i + 1 == hist.len();
        if let Err((o, w)) = sim.step(g, *a, obs) {
            return (sim.steps, Err((o, w, i)));
        }
    }
    (sim.steps, Ok(()))
}

fn shape(hist: &[Act], upto: usize) -> String {
    // history shape for the violation key: run-length encoded action kinds
    let mut s = String::new();
    let mut i = 0;
    let h = &hist[..=upto.min(hist.len() - 1)];
    while i < h.len() {
        let mut j = i;
        while j < h.len() && std::mem::discriminant(&h[j]) == std::mem::discriminant(&h[i]) {
            j += 1;
        }
        let name = match h[i] {
            Act::S => "S",
            Act::P(_) => "P",
            Act::M(_) => "M",
        };
        let n = j - i;
        s.push_str(&if n >= 8 { format!("{name}^many ") } else { format!("{name}^{n} ") });
        i = j;
    }
    s.trim().to_string()
}

const INDEP_A2ML: &str = "block \"IF_DATA\" taggedunion { \"ZZ\" uint; };";

fn indep_targets() -> Vec<(&'static str, String)> {
    let a2ml = INDEP_A2ML;
    vec![
            ("three lists", "/begin MEASUREMENT s_a \"\" UBYTE NO_COMPU_METHOD 0 0 0 255 /end MEASUREMENT\n/begin MEASUREMENT s_b \"\" UBYTE NO_COMPU_METHOD 0 0 0 255 /end MEASUREMENT\n/begin COMPU_METHOD s_c \"\" IDENTICAL \"%6.2\" \"\" /end COMPU_METHOD\n/begin GROUP s_g \"\" /end GROUP\n".to_string()),
            ("empty", String::new()),
            ("own MOD_COMMON", "/begin MOD_COMMON \"\" /end MOD_COMMON\n/begin MEASUREMENT s_a \"\" UBYTE NO_COMPU_METHOD 0 0 0 255 /end MEASUREMENT\n/begin UNIT s_u \"\" \"\" DERIVED /end UNIT\n".to_string()),
            ("own A2ML and IF_DATA", format!("/begin A2ML {a2ml} /end A2ML\n/begin IF_DATA ZZ 1 /end IF_DATA\n/begin MEASUREMENT s_a \"\" UBYTE NO_COMPU_METHOD 0 0 0 255 /end MEASUREMENT\n")),
    ]
}

fn indep_fronts() -> Vec<(&'static str, String)> {
    let a2ml = INDEP_A2ML;
    vec![
            ("a module with A2ML, MOD_COMMON and MOD_PAR", format!("/begin MODULE f \"\"\n/begin A2ML {a2ml} /end A2ML\n/begin MOD_COMMON \"\" /end MOD_COMMON\n/begin MOD_PAR \"\" /end MOD_PAR\n/begin MEASUREMENT f_a \"\" UBYTE NO_COMPU_METHOD 0 0 0 255 /end MEASUREMENT\n/end MODULE\n")),
            ("a module with lists only", "/begin MODULE f \"\"\n/begin MEASUREMENT f_a \"\" UBYTE NO_COMPU_METHOD 0 0 0 255 /end MEASUREMENT\n/begin GROUP f_g \"\" /end GROUP\n/begin UNIT f_u \"\" \"\" DERIVED /end UNIT\n/end MODULE\n".to_string()),
            ("an empty module", "/begin MODULE f \"\"\n/end MODULE\n".to_string()),
    ]
}

        // one step = the subset of {A2ML, MOD_COMMON, MOD_PAR, push MEASUREMENT, push GROUP, push UNIT} that appears, then a call
fn indep_run(g: &Grammar, project_body: &str, idx: usize, steps: &[u8]) -> Result<Vec<(String, String)>, String> {
            let a2ml = INDEP_A2ML;
            let text = format!("ASAP2_VERSION 1 71\n/begin PROJECT p \"\"\n{project_body}/end PROJECT\n");
            let Loaded::Ok(mut f, _) = load(&text, None, false) else { return Err("machinery: start file does not load".into()) };
            let mut n = 0;
            for st in steps {
                guard(std::panic::AssertUnwindSafe(|| {
                    let m = &mut f.project.module[idx];
                    if st & 1 != 0 && m.a2ml.is_none() {
                        m.a2ml = Some(a2lfile::A2ml::new(a2ml.to_string()));
                    }
                    if st & 2 != 0 && m.mod_common.is_none() {
                        m.mod_common = Some(a2lfile::ModCommon::new("".to_string()));
                    }
                    if st & 4 != 0 && m.mod_par.is_none() {
                        m.mod_par = Some(a2lfile::ModPar::new("".to_string()));
                    }
                    if st & 8 != 0 {
                        n += 1;
                        m.measurement.push(a2lfile::Measurement::new(format!("n_m{n}"), "".to_string(), a2lfile::DataType::Ubyte, "NO_COMPU_METHOD".to_string(), 0, 0.0, 0.0, 255.0));
                    }
                    if st & 16 != 0 {
                        n += 1;
                        m.group.push(a2lfile::Group::new(format!("n_g{n}"), "".to_string()));
                    }
                    if st & 32 != 0 {
                        n += 1;
                        m.unit.push(a2lfile::Unit::new(format!("n_u{n}"), "".to_string(), "".to_string(), a2lfile::UnitType::Derived));
                    }
                    f.sort_new_items();
                }))
                .map_err(|p| format!("panic: {p}"))?;
            }
            let t = guard(|| f.write_to_string()).map_err(|p| format!("panic: {p}"))?;
            let mods = module_order(g, &t).map_err(|e| format!("output-invalid: {e}"))?;
            mods.get(idx).cloned().ok_or_else(|| "machinery: module missing in the output".to_string())
}

fn indep_case(g: &Grammar, ti: usize, fi: usize, plan: &[u8]) -> Result<(Vec<(String, String)>, Vec<(String, String)>), String> {
    let (targets, fronts) = (indep_targets(), indep_fronts());
    let own = format!("/begin MODULE s \"\"\n{}/end MODULE\n", targets[ti].1);
    let alone = indep_run(g, &own, 0, plan)?;
    let behind = indep_run(g, &format!("{}{own}", fronts[fi].1), 1, plan)?;
    Ok((alone, behind))
}

pub fn run(tier: &str) -> Run {
    let mut run = Run::new("C15", tier);
    let thorough = tier == "thorough";
    let g = crate::corpus::grammar();
    let mut starts = start_texts(&g);
    let n_small = starts.len();
    // large files (groups of more than 20 entries per kind, the sizes at which sorting algorithms change their strategy)
    let big = starts.len();
    {
        let mut specs: Vec<ESpec> = (0..30).map(|i| e("MEASUREMENT", &format!("bm{i:02}"), "c1")).collect();
        specs.extend((0..30).map(|i| e("CHARACTERISTIC", &format!("bc{i:02}"), "c1")));
        starts.push(("30+30".into(), file_text(&g, "m", &specs)));
    }
    // every list kind of the module: a file with two elements of each of the 20 kinds (interleaved), then for each kind a
    // history that pushes new elements of that kind between calls; every step observed
    let allk = starts.len();
    {
        let mut specs: Vec<ESpec> = Vec::new();
        for round in 0..2 {
            for kind in ALL_LIST_KINDS {
                let mut x = e(kind, &format!("{}{}", kind.to_lowercase().replace('_', ""), round), "c1");
                if kind == "INSTANCE" {
                    x = x.set("type_ref", "typedefstructure0");
                }
                specs.push(x);
            }
        }
        starts.push(("two of every kind".into(), file_text(&g, "m", &specs)));
    }
    let acts = all_actions();
    let mut hists: Vec<(usize, Vec<Act>, bool, &'static str)> = Vec::new();
    // (i) all action sequences up to depth d (every step observed)
    let depth = if thorough { 5 } else { 4 };
    let mut frontier: Vec<Vec<Act>> = vec![vec![]];
    for _ in 0..depth {
        let mut next = Vec::new();
        for h in &frontier {
            for a in &acts {
                let mut h2 = h.clone();
                h2.push(*a);
                next.push(h2);
            }
        }
        frontier = next;
    }
    for si in 0..n_small {
        for h in &frontier {
            // each full-depth sequence ends with S so that the last pushes are placed
            let mut h2 = h.clone();
            h2.push(Act::S);
            hists.push((si, h2, true, "all-sequences"));
        }
    }
    // (ii) long histories of S with at most two other actions
    let len = if thorough { 72 } else { 40 };
    for si in [0usize, 2] {
        hists.push((si, vec![Act::S; len], false, "long-history"));
        for p1 in 0..len {
            for a1 in acts.iter().skip(1) {
                let mut h = vec![Act::S; len];
                h[p1] = *a1;
                hists.push((si, h.clone(), false, "long-history"));
                if si == 2 || thorough {
                    for p2 in (p1 + 1)..len {
                        // second deviation: one push kind and one merge (all kinds in thorough)
                        for a2 in acts.iter().skip(1) {
                            if !thorough && !matches!(a2, Act::P(0) | Act::P(2) | Act::M(1)) {
                                continue;
                            }
                            let mut h2 = h.clone();
                            h2[p2] = *a2;
                            hists.push((si, h2, false, "long-history"));
                        }
                    }
                }
            }
        }
    }
    if thorough {
        for p1 in 0..300 {
            for a1 in acts.iter().skip(1) {
                let mut h = vec![Act::S; 300];
                h[p1] = *a1;
                hists.push((2, h, false, "long-history-300"));
            }
        }
        // insert / sort / write cycles
        for k in 0..PUSH_KINDS.len() {
            let mut h = Vec::new();
            for _ in 0..200 {
                h.push(Act::P(k));
                h.push(Act::S);
            }
            hists.push((2, h, true, "insert-sort-cycles"));
        }
    }
    for k in 0..PUSH_KINDS.len() {
        let mut h = Vec::new();
        for _ in 0..40 {
            h.push(Act::P(k));
            h.push(Act::S);
        }
        hists.push((2, h, true, "insert-sort-cycles"));
        hists.push((0, vec![Act::P(k), Act::P((k + 1) % 6), Act::S, Act::P(k), Act::S, Act::S, Act::M(1), Act::S], true, "insert-sort-cycles"));
    }
    for k in 0..ALL_LIST_KINDS.len() {
        let p = Act::P(PUSH_KINDS.len() + k);
        hists.push((allk, vec![Act::S, p, Act::S, p, p, Act::S, Act::S, Act::M(3), Act::S, p, Act::S], true, "all-kinds"));
        hists.push((allk, vec![p, Act::S, Act::S], true, "all-kinds"));
    }
    hists.push((allk, vec![Act::S; 40], true, "all-kinds"));
    // singletons: a start file with VARIANT_CODING, MOD_PAR and MOD_COMMON between the lists, and a merge partner that brings
    // MOD_PAR, MOD_COMMON, USER_RIGHTS and VARIANT_CODING against the canonical order (placed by one call, then several calls)
    {
        let singles = SINGLES_START.with(|c| c.borrow().clone());
        starts.push(("singletons-in-the-middle".into(), singles));
        let si = starts.len() - 1;
        for h in [vec![Act::S; 4], vec![Act::P(0), Act::S, Act::S, Act::P(3), Act::S, Act::S], vec![Act::M(1), Act::S, Act::S, Act::S]] {
            hists.push((si, h, true, "singletons"));
        }
        for st in [0usize, 1, 2] {
            for h in [vec![Act::M(5), Act::S, Act::S, Act::S], vec![Act::M(5), Act::S, Act::P(0), Act::S, Act::S], vec![Act::M(5), Act::M(5), Act::S, Act::S, Act::M(5), Act::S, Act::S]] {
                hists.push((st, h, true, "singletons"));
            }
        }
    }
    // pushes into the second module of a project (the first module gets nothing new, or something new as well)
    if let Some(two) = starts.iter().position(|s| s.0 == "two-modules") {
        for h in [
            vec![Act::P(100), Act::S],
            vec![Act::S, Act::P(100), Act::S, Act::P(101), Act::P(100), Act::S, Act::S],
            vec![Act::P(0), Act::P(100), Act::S, Act::P(101), Act::S],
            vec![Act::P(101), Act::P(1), Act::S, Act::P(100), Act::P(100), Act::S, Act::M(3), Act::P(100), Act::S],
        ] {
            hists.push((two, h, true, "second-module"));
        }
    }
    // several new elements of one kind per cycle on a large file: they share one position key for ever, so their
    // relative order rests on the stability of every later sort
    for k in 0..PUSH_KINDS.len() {
        for per_cycle in [2usize, 5] {
            let mut h = Vec::new();
            for _ in 0..(if thorough { 24 } else { 12 }) {
                for _ in 0..per_cycle {
                    h.push(Act::P(k));
                }
                h.push(Act::S);
            }
            hists.push((big, h, true, "bulk-insert-cycles"));
        }
    }
    // (iii) k consecutive calls on files of varying size
    let mut ladder_starts: Vec<(String, String)> = Vec::new();
    for n in [1usize, 2, 10, 100, 1000] {
        let specs: Vec<ESpec> = (0..n).map(|i| e(if i % 3 == 0 { "CHARACTERISTIC" } else { "MEASUREMENT" }, &format!("x{i}"), "c1")).collect();
        ladder_starts.push((format!("{n} elements"), file_text(&g, "m", &specs)));
    }
    // files in which the kinds appear in every order, in small and large blocks, with module-level IF_DATA / USER_RIGHTS in front
    let kinds3 = ["MEASUREMENT", "CHARACTERISTIC", "COMPU_METHOD"];
    for perm in [[0usize, 1, 2], [0, 2, 1], [1, 0, 2], [1, 2, 0], [2, 0, 1], [2, 1, 0]] {
        for sizes in [[2usize, 40, 3], [40, 2, 3], [3, 3, 40]] {
            for front in ["", "IF_DATA", "USER_RIGHTS"] {
                let mut specs: Vec<ESpec> = Vec::new();
                if front == "USER_RIGHTS" {
                    specs.push(e("USER_RIGHTS", "u1", "c1"));
                }
                for (slot, ki) in perm.iter().enumerate() {
                    for i in 0..sizes[slot] {
                        specs.push(e(kinds3[*ki], &format!("k{ki}_{i:02}"), "c1"));
                    }
                }
                let mut text = file_text(&g, "m", &specs);
                if front == "IF_DATA" {
                    text = text.replacen("\n    /begin ", "\n    /begin IF_DATA ZZ 1 /end IF_DATA\n    /begin ", 1);
                }
                ladder_starts.push((format!("blocks {perm:?} of sizes {sizes:?}, {front} in front"), text));
            }
        }
    }
    let res = par_map(
        hists.len(),
        &|i| {
            let (si, h, obs, _) = &hists[i];
            run_history(&g, &starts[*si].1, h, *obs)
        },
        &|i| {
            println!("MACHINERY-ERROR: C15 history hangs: {:?}", hists[i].1);
            std::process::exit(2);
        },
    );
    for (i, (steps, r)) in res.into_iter().enumerate() {
        run.evaluations += 1;
        run.transitions += steps;
        let (si, h, _, fam) = &hists[i];
        let hh = fnv1a(format!("{si}{h:?}").as_bytes());
        run.states.insert(hh);
        run.nontrivial.insert(hh);
        match r {
            Ok(()) => run.outcome(&format!("{fam}: stable")),
            Err((o, w, at)) => {
                if o == "machinery" {
                    run.machinery(w);
                    continue;
                }
                run.outcome(&format!("{fam}: violation"));
                let key = if o == "panic" { format!("C15/panic {} after {}", vcore::explore::panic_key(w.trim_start_matches("panic: ")), shape(h, at)) } else { format!("C15/{o}/{}", shape(h, at)) };
                run.violation(key, format!("start '{}', step {at} of {:?}: {w}", starts[*si].0, &h[..=at.min(h.len() - 1)]), json!({"start": starts[*si].1, "history": h.iter().map(act_str).collect::<Vec<_>>(), "observe_all": true}));
            }
        }
        if i % 30011 == 1 {
            run.sample(json!({"start": starts[*si].0, "history": h.iter().take(12).map(act_str).collect::<Vec<_>>()}));
        }
    }
    let lres = par_map(
        ladder_starts.len(),
        &|i| run_history(&g, &ladder_starts[i].1, &vec![Act::S; 64], true),
        &|i| {
            println!("MACHINERY-ERROR: C15 ladder hangs: {}", ladder_starts[i].0);
            std::process::exit(2);
        },
    );
    for (i, (steps, r)) in lres.into_iter().enumerate() {
        run.evaluations += 1;
        run.transitions += steps;
        match r {
            Ok(()) => run.outcome("64 consecutive calls: stable"),
            Err((o, w, at)) => {
                run.outcome("64 consecutive calls: violation");
                let key = if o == "panic" { format!("C15/panic {} after S^many", vcore::explore::panic_key(w.trim_start_matches("panic: "))) } else { format!("C15/{o}/S^many") };
                run.violation(key, format!("file with {}: call {} of sort_new_items: {w}", ladder_starts[i].0, at + 1), json!({"start": ladder_starts[i].1, "history": vec!["S"; 64], "observe_all": true}));
            }
        }
    }
    run.require("all-sequences: stable", 1000);
    run.require("long-history: stable", 1000);
    run.extra.insert("bounds".into(), json!({"all_sequences_depth": depth, "long_history_length": len, "actions": acts.len(), "starts": starts.len()}));
    // (iv) module independence: where the new elements of a module go is a matter of that module's own elements. The same module
    // text with the same history of assignments / pushes / calls, alone in its project and behind each of three other modules,
    // must be written with its children in the same order (no expected order is written down)
    {
        let (targets, fronts) = (indep_targets(), indep_fronts());
        let mut plans: Vec<Vec<u8>> = (1..64u8).map(|s| vec![s]).collect();
        for a in [1u8, 2, 4, 8, 16] {
            for b in [1u8, 2, 4, 8, 32] {
                if a != b {
                    plans.push(vec![a, b]);
                    plans.push(vec![a, b, 63]);
                }
            }
        }
        let mut jobs: Vec<(usize, usize, usize)> = Vec::new();
        for ti in 0..targets.len() {
            for fi in 0..fronts.len() {
                for pi in 0..plans.len() {
                    jobs.push((ti, fi, pi));
                }
            }
        }
        let ires = par_map(
            jobs.len(),
            &|j| {
                let (ti, fi, pi) = jobs[j];
                indep_case(&g, ti, fi, &plans[pi])
            },
            &|j| {
                println!("MACHINERY-ERROR: C15 module-independence case hangs: {:?}", jobs[j]);
                std::process::exit(2);
            },
        );
        for (j, r) in ires.into_iter().enumerate() {
            let (ti, fi, pi) = jobs[j];
            run.evaluations += 1;
            run.transitions += 2 * plans[pi].len() as u64;
            run.states.insert(fnv1a(format!("indep|{ti}|{fi}|{:?}", plans[pi]).as_bytes()));
            let label = format!("module [{}] with steps {:?} alone and behind {}", targets[ti].0, plans[pi], fronts[fi].0);
            match r {
                Err(m) if m.starts_with("machinery") => run.machinery(format!("{label}: {m}")),
                Err(p) => run.violation(format!("C15/{}/module-independence", if p.starts_with("panic") { format!("panic {}", vcore::explore::panic_key(p.trim_start_matches("panic: "))) } else { "output-invalid".into() }), format!("{label}: {p}"), json!({"independence": [ti, fi, plans[pi]]})),
                Ok((alone, behind)) => {
                    if alone == behind {
                        run.outcome("module independence: same order alone and behind another module");
                    } else {
                        let f = |v: &Vec<(String, String)>| v.iter().map(|(t, n)| if n.is_empty() { t.clone() } else { n.clone() }).collect::<Vec<_>>().join(" ");
                        run.violation(format!("C15/placement-depends-on-another-module/{}", fronts[fi].0.replace(' ', "-")), format!("{label}: alone [{}], behind the other module [{}]", f(&alone), f(&behind)), json!({"independence": [ti, fi, plans[pi]]}));
                    }
                }
            }
        }
        run.require("module independence: same order alone and behind another module", 500);
    }
    run.rule = "state = the real A2lFile; actions = sort_new_items (S), push a builder-made element of 6 kinds (P), merge one of 5 small modules (three with fresh names, two that also hold same-name elements with other content, same-name identical elements and a same-name GROUP) (M); an element counts as new from the moment it appears until the next S, whatever position key it carries. (i) every action sequence of depth d from 5 start files (one with a second module whose children must keep their order throughout), observed after each step; (ii) histories of S of length L with at most two other actions at every pair of positions; a file with two elements of each of the 20 list kinds and, per kind, histories that push new elements of that kind between calls; (iii) 64 consecutive S on files with 1..1000 elements and on 54 files in which three kinds appear in every order in blocks of 2..40 with IF_DATA / USER_RIGHTS in front; insert/sort cycles (40, thorough 200); 2 and 5 new elements of one kind per cycle for 12 (24) cycles on a file with 30+30 elements. Observation: the order of the module's children in write_to_string (reference interpreter). Oracle: relative order of placed elements never changes; after S each new element sits in the run directly behind the last placed element of its kind (behind all placed elements if there is none); no panic / overflow. (iv) module independence: 4 module texts x 3 modules in front x 103 plans of assignments of A2ML / MOD_COMMON / MOD_PAR and pushes of three kinds, each followed by S: the module's children are written in the same order alone and behind the other module.".into();
    run
}

fn act_str(a: &Act) -> String {
    match a {
        Act::S => "S".into(),
        Act::P(k) => format!("P{k}"),
        Act::M(j) => format!("M{j}"),
    }
}

pub fn replay(v: &Value) -> Result<String, String> {
    let g = crate::corpus::grammar();
    if let Some(a) = v["independence"].as_array() {
        let (ti, fi) = (a[0].as_u64().unwrap_or(0) as usize, a[1].as_u64().unwrap_or(0) as usize);
        let plan: Vec<u8> = a[2].as_array().map(|p| p.iter().filter_map(|x| x.as_u64().map(|y| y as u8)).collect()).unwrap_or_default();
        let (alone, behind) = indep_case(&g, ti, fi, &plan)?;
        return if alone == behind { Ok("same order alone and behind another module".into()) } else { Err(format!("placement-depends-on-another-module: alone {alone:?}, behind {behind:?}")) };
    }
    let start = v["start"].as_str().ok_or("no start")?;
    let hist: Vec<Act> = v["history"]
        .as_array()
        .ok_or("no history")?
        .iter()
        .filter_map(|a| {
            let s = a.as_str()?;
            Some(match &s[..1] {
                "S" => Act::S,
                "P" => Act::P(s[1..].parse().ok()?),
                _ => Act::M(s[1..].parse().ok()?),
            })
        })
        .collect();
    match run_history(&g, start, &hist, true).1 {
        Ok(()) => Ok(format!("{} steps stable", hist.len())),
        Err((o, w, at)) => Err(format!("{o} at step {at}: {w}")),
    }
}
