//! C12 — check(): limit plausibility follows data type and conversion.
//! Full grid: element kind x 11 data types x conversion kinds x coefficient grid x placement of
//! the declared limits; oracle = closed-form range.

use crate::util::*;
use a2lfile::A2lError;
use serde_json::{json, Value};
use std::collections::BTreeSet;
use vcore::explore::{fnv1a, par_map};
use vcore::report::Run;

const DATATYPES: [(&str, f64, f64); 11] = [
    ("UBYTE", 0.0, 255.0),
    ("SBYTE", -128.0, 127.0),
    ("UWORD", 0.0, 65535.0),
    ("SWORD", -32768.0, 32767.0),
    ("ULONG", 0.0, 4294967295.0),
    ("SLONG", -2147483648.0, 2147483647.0),
    ("A_UINT64", 0.0, 18446744073709551615.0),
    ("A_INT64", -9223372036854775808.0, 9223372036854775807.0),
    ("FLOAT16_IEEE", -65504.0, 65504.0),
    ("FLOAT32_IEEE", f32::MIN as f64, f32::MAX as f64),
    ("FLOAT64_IEEE", f64::MIN, f64::MAX),
];

#[derive(Debug, Clone)]
enum Conv {
    None,
    Identical,
    Tab(&'static str),
    Form,
    Linear(f64, f64),
    RatLin(f64, f64, f64), // b, c, f
    RatGeneral(f64, f64, f64, f64, f64, f64),
}

impl Conv {
    fn evaluated(&self) -> bool {
        !matches!(self, Conv::Form | Conv::RatGeneral(..))
    }
    fn name(&self) -> String {
        match self {
            Conv::None => "NO_COMPU_METHOD".into(),
            Conv::Identical => "IDENTICAL".into(),
            Conv::Tab(t) => t.to_string(),
            Conv::Form => "FORM".into(),
            Conv::Linear(a, b) => format!("LINEAR({a:e},{b:e})"),
            Conv::RatLin(b, c, f) => format!("RAT_FUNC(0,{b:e},{c:e},0,0,{f:e})"),
            Conv::RatGeneral(a, b, c, d, e, f) => format!("RAT_FUNC({a:e},{b:e},{c:e},{d:e},{e:e},{f:e})"),
        }
    }
    fn class(&self) -> String {
        match self {
            Conv::Linear(a, _) => format!("LINEAR a{}0", if *a < 0.0 { "<" } else { ">" }),
            Conv::RatLin(b, _, f) => format!("RAT_FUNC-linear b{}0 f{}0", if *b < 0.0 { "<" } else { ">" }, if *f < 0.0 { "<" } else { ">" }),
            Conv::RatGeneral(..) => "RAT_FUNC-general".into(),
            other => other.name(),
        }
    }
    fn cm_text(&self) -> String {
        match self {
            Conv::None => String::new(),
            Conv::Identical => "/begin COMPU_METHOD CM \"\" IDENTICAL \"%6.2\" \"u\" /end COMPU_METHOD\n".into(),
            Conv::Tab(t) => format!("/begin COMPU_METHOD CM \"\" {t} \"%6.2\" \"u\" /end COMPU_METHOD\n"),
            Conv::Form => "/begin COMPU_METHOD CM \"\" FORM \"%6.2\" \"u\" /begin FORMULA \"X1*2\" /end FORMULA /end COMPU_METHOD\n".into(),
            Conv::Linear(a, b) => format!(
                "/begin COMPU_METHOD CM \"\" LINEAR \"%6.2\" \"u\" COEFFS_LINEAR {} {} /end COMPU_METHOD\n",
                flt(*a),
                flt(*b)
            ),
            Conv::RatLin(b, c, f) => format!(
                "/begin COMPU_METHOD CM \"\" RAT_FUNC \"%6.2\" \"u\" COEFFS 0 {} {} 0 0 {} /end COMPU_METHOD\n",
                flt(*b),
                flt(*c),
                flt(*f)
            ),
            Conv::RatGeneral(a, b, c, d, e, f) => format!(
                "/begin COMPU_METHOD CM \"\" RAT_FUNC \"%6.2\" \"u\" COEFFS {} {} {} {} {} {} /end COMPU_METHOD\n",
                flt(*a),
                flt(*b),
                flt(*c),
                flt(*d),
                flt(*e),
                flt(*f)
            ),
        }
    }
    /// closed-form physical range of the raw range [lo, hi]
    fn range(&self, lo: f64, hi: f64) -> Option<(f64, f64)> {
        let f: Box<dyn Fn(f64) -> f64> = match self {
            Conv::None | Conv::Identical | Conv::Tab(_) => Box::new(|x| x),
            Conv::Linear(a, b) => {
                let (a, b) = (*a, *b);
                Box::new(move |x| a * x + b)
            }
            Conv::RatLin(b, c, f) => {
                let (b, c, f) = (*b, *c, *f);
                // at the edge of the f64 range the result depends on the order of evaluation
                // (f*y overflows in one order, y/b in the other): such grid points are outside
                // the statement ("expected range not finite") and reported as skipped
                for y in [lo, hi] {
                    if !(f * y).is_finite() || !(y / b).is_finite() || !(f * (y / b)).is_finite() {
                        return Some((f64::NEG_INFINITY, f64::INFINITY));
                    }
                }
                Box::new(move |y| (f * y - c) / b)
            }
            Conv::Form | Conv::RatGeneral(..) => return None,
        };
        let (p, q) = (f(lo), f(hi));
        Some((p.min(q), p.max(q)))
    }
}

fn mags(thorough: bool) -> Vec<f64> {
    if thorough {
        vec![1e-6, 1e-5, 1e-4, 1e-3, 1e-2, 0.1, 0.5, 1.0, 2.0, 10.0, 1e2, 1e3, 1e4, 1e5, 1e6]
    } else {
        vec![1e-6, 1e-3, 1.0, 1e3, 1e6]
    }
}

fn conversions(thorough: bool) -> Vec<Conv> {
    let mut v = vec![Conv::None, Conv::Identical, Conv::Tab("TAB_INTP"), Conv::Tab("TAB_NOINTP"), Conv::Tab("TAB_VERB"), Conv::Form];
    let m = mags(thorough);
    let mut signed: Vec<f64> = Vec::new();
    for x in &m {
        signed.push(*x);
        signed.push(-*x);
    }
    let mut with_zero = vec![0.0];
    with_zero.extend(signed.iter());
    for a in &signed {
        for b in &with_zero {
            v.push(Conv::Linear(*a, *b));
        }
    }
    let rm: Vec<f64> = if thorough { vec![1e-6, 1e-3, 0.1, 1.0, 10.0, 1e3, 1e6] } else { m.clone() };
    let mut rs: Vec<f64> = Vec::new();
    for x in &rm {
        rs.push(*x);
        rs.push(-*x);
    }
    let mut rz = vec![0.0];
    rz.extend(rs.iter());
    for b in &rs {
        for c in &rz {
            for f in &rs {
                v.push(Conv::RatLin(*b, *c, *f));
            }
        }
    }
    for (a, d, e) in [(1.0, 0.0, 0.0), (0.0, 1.0, 0.0), (0.0, 0.0, 1.0), (-1e-3, 0.0, 2.0), (1e3, 1.0, 0.0)] {
        for b in [1.0, -1e3] {
            for f in [1.0, -1e-3, 0.0] {
                v.push(Conv::RatGeneral(a, b, 1.0, d, e, f));
            }
        }
    }
    // f == 0 with a == d == e == 0: not the linear case (division by zero guarded in the code) -> not evaluated
    v.push(Conv::RatGeneral(0.0, 1.0, 1.0, 0.0, 0.0, 0.0));
    v
}

#[derive(Debug, Clone, Copy, PartialEq)]
enum Place {
    Inside,
    LowerOut,
    UpperOut,
    BothOut,
    Exact,
    /// outside by 100 x the documented tolerance (1e-4 of the limit): reported
    LowerJustOut,
    UpperJustOut,
    /// outside by 1/100 of the documented tolerance (1e-8 of the limit): not reported
    LowerWithinTol,
    UpperWithinTol,
    /// both limits exactly 0, where 0 lies well inside the range / well outside of it
    ZeroInside,
    ZeroOutside,
}
const PLACES: [Place; 11] = [Place::Inside, Place::LowerOut, Place::UpperOut, Place::BothOut, Place::Exact, Place::LowerJustOut, Place::UpperJustOut, Place::LowerWithinTol, Place::UpperWithinTol, Place::ZeroInside, Place::ZeroOutside];

/// declared limits for a placement relative to the expected range; None if not representable
fn place(lo: f64, hi: f64, p: Place) -> Option<(f64, f64)> {
    // 1 % of the range, computed without overflowing for the full f64 range
    let r = hi * 0.01 - lo * 0.01;
    // ten times the documented tolerance of 1e-6 relative to the limit
    let tl = (lo * 1e-5).abs();
    let th = (hi * 1e-5).abs();
    let (l, h) = match p {
        Place::Inside => (lo + r, hi - r),
        Place::LowerOut => (lo - r.max(tl), hi - r),
        Place::UpperOut => (lo + r, hi + r.max(th)),
        Place::BothOut => (lo - r.max(tl), hi + r.max(th)),
        Place::Exact => (lo, hi),
        // (relative to the limit itself, so only meaningful for a limit that is not zero and not so close to the other one
        // that the 1 % inset of the other side interferes)
        Place::LowerJustOut if lo.abs() > 1e-300 => (lo - lo.abs() * 1e-4, hi - r),
        Place::UpperJustOut if hi.abs() > 1e-300 => (lo + r, hi + hi.abs() * 1e-4),
        Place::LowerWithinTol if lo.abs() > 1e-300 => (lo - lo.abs() * 1e-8, hi - r),
        Place::UpperWithinTol if hi.abs() > 1e-300 => (lo + r, hi + hi.abs() * 1e-8),
        Place::ZeroInside if lo + r < 0.0 && 0.0 < hi - r => (0.0, 0.0),
        Place::ZeroOutside if 0.0 < lo - r.max(tl) || 0.0 > hi + r.max(th) => (0.0, 0.0),
        _ => return None,
    };
    if matches!(p, Place::LowerJustOut | Place::LowerWithinTol) && !(l < lo) {
        return None;
    }
    if matches!(p, Place::UpperJustOut | Place::UpperWithinTol) && !(h > hi) {
        return None;
    }
    if l.is_finite() && h.is_finite() && r > 0.0 && r.is_finite() {
        Some((l, h))
    } else {
        None
    }
}

struct Case {
    dt: usize,
    conv: Conv,
}

struct Built {
    text: String,
    /// (blockname, item name, line) -> expected to be reported
    expected: BTreeSet<(String, String, u32)>,
    /// everything that may legitimately be reported or not (placements that could not be built are left out entirely)
    subjects: BTreeSet<(String, String, u32)>,
    skipped: u64,
    nonfinite: bool,
}

fn build(c: &Case) -> Built {
    let (dtname, rlo, rhi) = DATATYPES[c.dt];
    let convname = if matches!(c.conv, Conv::None) { "NO_COMPU_METHOD" } else { "CM" };
    let mut t = String::new();
    let mut line = 1u32;
    let mut push = |t: &mut String, s: &str| -> u32 {
        let l = line;
        t.push_str(s);
        line += s.matches('\n').count() as u32;
        l
    };
    // a first module whose conversion has the same name and the same position as the one under test, but another rule
    // (nothing computed for one module may be used for another)
    push(&mut t, "ASAP2_VERSION 1 71\n/begin PROJECT p \"\"\n/begin MODULE m0 \"\"\n/begin COMPU_METHOD CM \"\" LINEAR \"%6.2\" \"\" COEFFS_LINEAR 1000 5 /end COMPU_METHOD\n");
    match place(1000.0 * rlo + 5.0, 1000.0 * rhi + 5.0, Place::Inside) {
        Some((l0, h0)) if (1000.0 * rlo).is_finite() && (1000.0 * rhi).is_finite() => {
            push(&mut t, &format!("/begin MEASUREMENT M0 \"\" {dtname} CM 1 0 {} {} /end MEASUREMENT\n/end MODULE\n", flt(l0), flt(h0)));
        }
        _ => {
            push(&mut t, "/end MODULE\n");
        }
    }
    push(&mut t, "/begin MODULE m \"\"\n");
    push(&mut t, &c.conv.cm_text());
    push(
        &mut t,
        &format!(
            "/begin RECORD_LAYOUT RL FNC_VALUES 1 {dtname} COLUMN_DIR DIRECT AXIS_PTS_X 2 {dtname} INDEX_INCR DIRECT AXIS_PTS_Y 3 {dtname} INDEX_INCR DIRECT AXIS_PTS_Z 4 {dtname} INDEX_INCR DIRECT AXIS_PTS_4 5 {dtname} INDEX_INCR DIRECT AXIS_PTS_5 6 {dtname} INDEX_INCR DIRECT /end RECORD_LAYOUT\n"
        ),
    );
    let mut expected = BTreeSet::new();
    let mut subjects = BTreeSet::new();
    let mut skipped = 0u64;
    let range = c.conv.range(rlo, rhi);
    let (elo, ehi, finite) = match range {
        Some((a, b)) => (a, b, a.is_finite() && b.is_finite()),
        None => (rlo, rhi, true), // not evaluated: place relative to the raw range, expect no report
    };
    if !finite {
        return Built { text: t, expected, subjects, skipped: 1, nonfinite: true };
    }
    // an "inside" pair for elements that are only carriers
    let inside = place(elo, ehi, Place::Inside);
    for (pi, p) in PLACES.iter().enumerate() {
        if *p == Place::Exact && !matches!(c.conv, Conv::None | Conv::Identical | Conv::Tab(_)) {
            // exact boundaries are only meaningful where no arithmetic is involved
            continue;
        }
        let Some((l, h)) = place(elo, ehi, *p) else {
            skipped += 1;
            continue;
        };
        let out = !matches!(p, Place::Inside | Place::Exact | Place::LowerWithinTol | Place::UpperWithinTol | Place::ZeroInside) && c.conv.evaluated();
        let (ls, hs) = (flt(l), flt(h));
        let mut reg = |block: &str, name: String, line: u32, expected: &mut BTreeSet<(String, String, u32)>, subjects: &mut BTreeSet<(String, String, u32)>| {
            let k = (block.to_string(), name, line);
            subjects.insert(k.clone());
            if out {
                expected.insert(k);
            }
        };
        let l0 = push(&mut t, &format!("/begin MEASUREMENT M{pi} \"\" {dtname} {convname} 1 0 {ls} {hs} /end MEASUREMENT\n"));
        reg("MEASUREMENT", format!("M{pi}"), l0, &mut expected, &mut subjects);
        let l0 = push(&mut t, &format!("/begin CHARACTERISTIC C{pi} \"\" VALUE 0x0 RL 0 {convname} {ls} {hs} /end CHARACTERISTIC\n"));
        reg("CHARACTERISTIC", format!("C{pi}"), l0, &mut expected, &mut subjects);
        let l0 = push(&mut t, &format!("/begin AXIS_PTS A{pi} \"\" 0x0 NO_INPUT_QUANTITY RL 0 {convname} 4 {ls} {hs} /end AXIS_PTS\n"));
        reg("AXIS_PTS", format!("A{pi}"), l0, &mut expected, &mut subjects);
        let l0 = push(&mut t, &format!("/begin TYPEDEF_MEASUREMENT TM{pi} \"\" {dtname} {convname} 1 0 {ls} {hs} /end TYPEDEF_MEASUREMENT\n"));
        reg("TYPEDEF_MEASUREMENT", format!("TM{pi}"), l0, &mut expected, &mut subjects);
        let l0 = push(&mut t, &format!("/begin TYPEDEF_CHARACTERISTIC TC{pi} \"\" VALUE RL 0 {convname} {ls} {hs} /end TYPEDEF_CHARACTERISTIC\n"));
        reg("TYPEDEF_CHARACTERISTIC", format!("TC{pi}"), l0, &mut expected, &mut subjects);
        // the same elements with EXTENDED_LIMITS whose verdict is the opposite one (inside where the declared limits are outside,
        // far outside where they are inside): the declared limits are what is checked
        let decoy = if out { inside } else { place(elo, ehi, Place::BothOut) };
        if let Some((dl, dh)) = decoy {
            let (dls, dhs) = (flt(dl), flt(dh));
            let l0 = push(&mut t, &format!("/begin CHARACTERISTIC CX{pi} \"\" VALUE 0x0 RL 0 {convname} {ls} {hs} EXTENDED_LIMITS {dls} {dhs} /end CHARACTERISTIC\n"));
            reg("CHARACTERISTIC", format!("CX{pi}"), l0, &mut expected, &mut subjects);
            let l0 = push(&mut t, &format!("/begin AXIS_PTS AX{pi} \"\" 0x0 NO_INPUT_QUANTITY RL 0 {convname} 4 {ls} {hs} EXTENDED_LIMITS {dls} {dhs} /end AXIS_PTS\n"));
            reg("AXIS_PTS", format!("AX{pi}"), l0, &mut expected, &mut subjects);
            let l0 = push(&mut t, &format!("/begin TYPEDEF_CHARACTERISTIC TCX{pi} \"\" VALUE RL 0 {convname} {ls} {hs} EXTENDED_LIMITS {dls} {dhs} /end TYPEDEF_CHARACTERISTIC\n"));
            reg("TYPEDEF_CHARACTERISTIC", format!("TCX{pi}"), l0, &mut expected, &mut subjects);
            if let Some((il, ih)) = inside {
                let l0 = push(&mut t, &format!("/begin CHARACTERISTIC CAX{pi} \"\" CURVE 0x0 RL 0 {convname} {} {}\n", flt(il), flt(ih)));
                subjects.insert(("CHARACTERISTIC".to_string(), format!("CAX{pi}"), l0));
                let la = push(&mut t, &format!("/begin AXIS_DESCR STD_AXIS NO_INPUT_QUANTITY {convname} 4 {ls} {hs} EXTENDED_LIMITS {dls} {dhs} /end AXIS_DESCR\n"));
                reg("AXIS_DESCR", format!("CAX{pi}"), la, &mut expected, &mut subjects);
                push(&mut t, "/end CHARACTERISTIC\n");
            }
        }
        // standard axes 1..5: a CUBE_5 whose own limits are inside, each AXIS_DESCR on its own line
        if let Some((il, ih)) = inside {
            for (kind, prefix) in [("CHARACTERISTIC", "CA"), ("TYPEDEF_CHARACTERISTIC", "TCA")] {
                let head = if kind == "CHARACTERISTIC" {
                    format!("/begin CHARACTERISTIC {prefix}{pi} \"\" CUBE_5 0x0 RL 0 {convname} {} {}\n", flt(il), flt(ih))
                } else {
                    format!("/begin TYPEDEF_CHARACTERISTIC {prefix}{pi} \"\" CUBE_5 RL 0 {convname} {} {}\n", flt(il), flt(ih))
                };
                let l0 = push(&mut t, &head);
                // the element itself is a subject (its own limits are inside: never expected)
                subjects.insert((kind.to_string(), format!("{prefix}{pi}"), l0));
                for _k in 0..5 {
                    let la = push(&mut t, &format!("/begin AXIS_DESCR STD_AXIS NO_INPUT_QUANTITY {convname} 4 {ls} {hs} /end AXIS_DESCR\n"));
                    reg("AXIS_DESCR", format!("{prefix}{pi}"), la, &mut expected, &mut subjects);
                }
                push(&mut t, &format!("/end {kind}\n"));
            }
        }
    }
    // mixed axis kinds: the STD_AXIS under test is the k-th axis, the others are FIX_AXIS / COM_AXIS, and
    // only dimension k of the record layout has the data type under test (the others a contrasting one),
    // so that taking the limits of the wrong dimension is visible
    let contrast = if dtname == "UBYTE" { "SLONG" } else { "UBYTE" };
    let dims = ["X", "Y", "Z", "4", "5"];
    for k in 0..5 {
        // (the function values have the widest type: the limits that are "inside" for the type under test are inside for it as
        // well, and taking the values' type for an axis of the same conversion is visible)
        let mut rl = format!("/begin RECORD_LAYOUT RLM{k} FNC_VALUES 1 FLOAT64_IEEE COLUMN_DIR DIRECT");
        for (d, dn) in dims.iter().enumerate() {
            rl.push_str(&format!(" AXIS_PTS_{dn} {} {} INDEX_INCR DIRECT", d + 2, if d == k { dtname } else { contrast }));
        }
        rl.push_str(" /end RECORD_LAYOUT\n");
        push(&mut t, &rl);
    }
    if let Some((il, ih)) = inside {
        let lref = push(&mut t, &format!("/begin AXIS_PTS AREF \"\" 0x0 NO_INPUT_QUANTITY RL 0 {convname} 4 {} {} /end AXIS_PTS\n", flt(il), flt(ih)));
        subjects.insert(("AXIS_PTS".to_string(), "AREF".to_string(), lref));
        for (pi, p) in PLACES.iter().enumerate() {
            if *p == Place::Exact {
                continue;
            }
            let Some((l, h)) = place(elo, ehi, *p) else { continue };
            let out = !matches!(p, Place::Inside | Place::LowerWithinTol | Place::UpperWithinTol | Place::ZeroInside) && c.conv.evaluated();
            for k in 0..5 {
                let name = format!("CM{k}_{pi}");
                let l0 = push(&mut t, &format!("/begin CHARACTERISTIC {name} \"\" CUBE_5 0x0 RLM{k} 0 {convname} {} {}\n", flt(il), flt(ih)));
                subjects.insert(("CHARACTERISTIC".to_string(), name.clone(), l0));
                for a in 0..5 {
                    if a == k {
                        let la = push(&mut t, &format!("/begin AXIS_DESCR STD_AXIS NO_INPUT_QUANTITY {convname} 4 {} {} /end AXIS_DESCR\n", flt(l), flt(h)));
                        let key = ("AXIS_DESCR".to_string(), name.clone(), la);
                        subjects.insert(key.clone());
                        if out {
                            expected.insert(key);
                        }
                    } else if a % 2 == 0 {
                        // a FIX_AXIS with limits far outside everything: never limit-checked
                        let la = push(&mut t, "/begin AXIS_DESCR FIX_AXIS NO_INPUT_QUANTITY NO_COMPU_METHOD 4 -1e30 1e30 FIX_AXIS_PAR 0 1 4 /end AXIS_DESCR\n");
                        subjects.insert(("AXIS_DESCR".to_string(), name.clone(), la));
                    } else {
                        let la = push(&mut t, "/begin AXIS_DESCR COM_AXIS NO_INPUT_QUANTITY NO_COMPU_METHOD 4 -1e30 1e30 AXIS_PTS_REF AREF /end AXIS_DESCR\n");
                        subjects.insert(("AXIS_DESCR".to_string(), name.clone(), la));
                    }
                }
                push(&mut t, "/end CHARACTERISTIC\n");
            }
        }
    }
    push(&mut t, "/end MODULE\n/end PROJECT\n");
    Built { text: t, expected, subjects, skipped, nonfinite: false }
}

fn observe(text: &str) -> Result<BTreeSet<(String, String, u32)>, String> {
    match load(text, None, true) {
        Loaded::Ok(f, log) => {
            if !log.is_empty() {
                return Err(format!("generated module produced warnings: {}", log[0]));
            }
            let before = format!("{f:?}");
            let rep = vcore::explore::guard(|| f.check()).map_err(|p| format!("panic: {p}"))?;
            if format!("{f:?}") != before {
                return Err("check() modified the model".into());
            }
            let mut s = BTreeSet::new();
            for e in rep {
                if let A2lError::LimitCheckError { item_name, blockname, line, .. } = e {
                    s.insert((blockname, item_name, line));
                }
            }
            Ok(s)
        }
        Loaded::Err(e) => Err(format!("generated module does not load: {e}")),
        Loaded::Panic(p) => Err(format!("panic while loading: {p}")),
    }
}

struct Outcome {
    evals: u64,
    skipped: u64,
    nonfinite: bool,
    subjects: u64,
    expected_errors: u64,
    viol: Vec<(String, String, Value)>,
    machinery: Option<String>,
    hash: u64,
}

fn eval(c: &Case) -> Outcome {
    let b = build(c);
    let mut o = Outcome {
        evals: 1,
        skipped: b.skipped,
        nonfinite: b.nonfinite,
        subjects: b.subjects.len() as u64,
        expected_errors: b.expected.len() as u64,
        viol: vec![],
        machinery: None,
        hash: fnv1a(b.text.as_bytes()),
    };
    if b.nonfinite {
        return o;
    }
    match observe(&b.text) {
        Err(e) => {
            if e.starts_with("panic") {
                o.viol.push((format!("C12/panic {}", vcore::explore::panic_key(&e)), e, Value::Null));
            } else {
                o.machinery = Some(e);
            }
        }
        Ok(actual) => {
            let (dtname, _, _) = DATATYPES[c.dt];
            // (one violation per key and case: the replay data holds the whole module)
            let mut keys_seen = std::collections::HashSet::new();
            for k in b.subjects.iter() {
                let exp = b.expected.contains(k);
                let act = actual.contains(k);
                if exp != act {
                    let kind = if act { "false-report" } else { "missed-report" };
                    let key = format!("C12/{kind}/{}/{}", k.0, c.conv.class());
                    if !keys_seen.insert(key.clone()) {
                        continue;
                    }
                    o.viol.push((
                        key,
                        format!(
                            "{} {} (line {}) with {dtname} and {}: LimitCheckError {} but the declared limits are {} the closed-form range",
                            k.0,
                            k.1,
                            k.2,
                            c.conv.name(),
                            if act { "reported" } else { "not reported" },
                            if exp { "outside" } else { "inside" }
                        ),
                        Value::Null,
                    ));
                }
            }
            for k in actual.iter() {
                if !b.subjects.contains(k) {
                    if !keys_seen.insert(format!("C12/unexpected-subject/{}", k.0)) {
                        continue;
                    }
                    o.viol.push((
                        format!("C12/unexpected-subject/{}", k.0),
                        format!("LimitCheckError for {k:?} which is not an element under test"),
                        Value::Null,
                    ));
                }
            }
        }
    }
    o
}

pub fn run(tier: &str) -> Run {
    let mut run = Run::new("C12", tier);
    let thorough = crate::util::wide(tier);
    let convs = conversions(thorough);
    let mut cases = Vec::new();
    for dt in 0..DATATYPES.len() {
        for c in &convs {
            cases.push(Case { dt, conv: c.clone() });
        }
    }
    let res = par_map(cases.len(), &|i| eval(&cases[i]), &|i| {
        println!("MACHINERY-ERROR: C12 case {i} hangs");
        std::process::exit(2);
    });
    let mut subjects = 0u64;
    let mut exp_err = 0u64;
    for (i, o) in res.into_iter().enumerate() {
        run.evaluations += o.evals;
        run.transitions += 2 * o.evals; // load + check
        run.states.insert(o.hash);
        if o.nonfinite {
            run.outcome("skipped: expected range not finite");
        } else {
            run.nontrivial.insert(o.hash);
            run.outcome(&format!("conversion {}", cases[i].conv.class()));
        }
        run.outcome_n("placements not representable (skipped)", o.skipped);
        subjects += o.subjects;
        exp_err += o.expected_errors;
        if let Some(m) = o.machinery {
            run.machinery(format!("case {i} ({} {}): {m}", DATATYPES[cases[i].dt].0, cases[i].conv.name()));
        }
        for (k, w, _) in o.viol {
            // (the replay data is the grid point; the module is rebuilt from it)
            if run.viol_count.contains_key(&k) {
                run.violation(k, w, Value::Null);
            } else {
                let b = build(&cases[i]);
                run.violation(k, w, json!({"text": b.text, "expected": b.expected.iter().collect::<Vec<_>>(), "subjects": b.subjects.iter().collect::<Vec<_>>()}));
            }
        }
    }
    run.outcome_n("element limit verdicts compared", subjects);
    run.outcome_n("verdicts where an error is expected", exp_err);
    run.require("element limit verdicts compared", 10_000);
    run.require("verdicts where an error is expected", 3_000);
    run.extra.insert("bounds".into(), json!({"datatypes": 11, "conversions": convs.len(), "placements": 9, "elements_per_placement": "MEASUREMENT, CHARACTERISTIC, AXIS_PTS, TYPEDEF_MEASUREMENT, TYPEDEF_CHARACTERISTIC, 5 STD_AXIS AXIS_DESCR each in CHARACTERISTIC and TYPEDEF_CHARACTERISTIC"}));
    run.rule = "full grid datatype x conversion (coefficient grid of both signs) ; per grid point one generated module holding every limit-checked element kind at 9 placements of the declared limits (inside by 1% of the range, lower/upper/both outside by max(1% of range, 10x documented tolerance), exactly on the raw range, lower / upper outside by 100x and by 1/100 of the documented tolerance); distinct = distinct module text; non-trivial = expected range finite".into();
    run.sample(json!(build(&Case { dt: 3, conv: Conv::Linear(-1.0, 0.0) }).text));
    run.assumptions = vec![
        "the verdict between 1/100 and 100 x the documented tolerance is not examined".into(),
        "RAT_FUNC with b == 0 excluded (statement: b != 0)".into(),
    ];
    run
}

pub fn replay(v: &Value) -> Result<String, String> {
    let text = v["text"].as_str().ok_or("no text")?;
    let conv = |x: &Value| -> BTreeSet<(String, String, u32)> {
        x.as_array()
            .map(|a| {
                a.iter()
                    .filter_map(|e| {
                        let e = e.as_array()?;
                        Some((e[0].as_str()?.to_string(), e[1].as_str()?.to_string(), e[2].as_u64()? as u32))
                    })
                    .collect()
            })
            .unwrap_or_default()
    };
    let expected = conv(&v["expected"]);
    let subjects = conv(&v["subjects"]);
    let actual = observe(text)?;
    for k in &subjects {
        if expected.contains(k) != actual.contains(k) {
            return Err(format!("{k:?}: expected report = {}, actual = {}", expected.contains(k), actual.contains(k)));
        }
    }
    Ok(format!("{} verdicts agree", subjects.len()))
}
