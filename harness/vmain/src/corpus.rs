//! enumerated document corpora shared by C01..C07, C20

use vcore::docgen::*;
use vcore::grammar::*;

#[derive(Clone)]
pub struct CDoc {
    /// human-readable description of the choice vector
    pub label: String,
    pub doc: Doc,
    /// path to the element under test
    pub path: Vec<usize>,
    pub deviations: usize,
}

pub fn grammar() -> Grammar {
    vcore::grammar::frozen()
}

/// tags in a deterministic order, root excluded
pub fn tags(g: &Grammar) -> Vec<String> {
    let mut v: Vec<String> = Vec::new();
    for e in &g.elements {
        if e.special == Special::Root {
            continue;
        }
        for t in &e.tags {
            v.push(t.clone());
        }
    }
    v
}

/// 0 deviations: the carrier of every tag
pub fn carriers(g: &Grammar) -> Vec<CDoc> {
    let mut gen = Gen::new(g);
    let mut out = Vec::new();
    for t in tags(g) {
        if !gen.path.contains_key(&t) {
            continue;
        }
        let (doc, path) = gen.carrier(&t);
        out.push(CDoc { label: format!("carrier({t})"), doc, path, deviations: 0 });
    }
    out
}

/// every (parent tag, child ref) slot: carrier(parent) with the child present `count` times
pub fn opt_docs(g: &Grammar, count: usize) -> Vec<CDoc> {
    let mut gen = Gen::new(g);
    let mut out = Vec::new();
    for (ptag, r) in all_slots(g) {
        if !gen.path.contains_key(&ptag) {
            continue;
        }
        let chain = gen.path[&ptag].clone();
        let v = gen.version_for(&chain, &[(ptag.clone(), r.tag.clone())]);
        let (mut doc, path) = gen.carrier_v(&ptag, v, 1);
        let have = doc.root.at(&path).children.iter().filter(|c| c.tag == r.tag).count();
        for _ in have..count {
            let child = gen.min_node(&r.tag, v, 1);
            doc.root.at_mut(&path).children.push(child);
        }
        let mut p2 = path.clone();
        let idx = doc.root.at(&path).children.iter().position(|c| c.tag == r.tag).unwrap();
        p2.push(idx);
        out.push(CDoc { label: format!("opt{count}({ptag},{})", r.tag), doc, path: p2, deviations: count });
    }
    out
}

/// every element with an open-ended value list, with 0, 3, 4, 5, 8 and 17 entries (the other families use 1 or 2)
pub fn seq_len_docs(g: &Grammar) -> Vec<CDoc> {
    let mut gen = Gen::new(g);
    let mut out = Vec::new();
    for t in tags(g) {
        if !gen.path.contains_key(&t) || !g.elem(&t).items.iter().any(|i| matches!(i, vcore::grammar::Item::Seq { .. })) {
            continue;
        }
        let chain = gen.path.get(&t).cloned().unwrap_or_default();
        let v = gen.version_for(&chain, &[]);
        for n in [0usize, 3, 4, 5, 8, 17] {
            let (doc, path) = gen.carrier_v(&t, v, n);
            out.push(CDoc { label: format!("carrier({t}) with {n} list entries"), doc, path, deviations: 0 });
        }
    }
    out
}

/// repeatable named sub-blocks whose name need not be unique: an INSTANCE has one OVERWRITE per axis of a component, all of them
/// carry the component's name and differ in the axis number. Three blocks of one name, and two names interleaved.
pub fn same_name_docs(g: &Grammar) -> Vec<CDoc> {
    let mut gen = Gen::new(g);
    let mut out = Vec::new();
    for (ptag, ctag) in [("INSTANCE", "OVERWRITE")] {
        if !gen.path.contains_key(ptag) {
            continue;
        }
        for (label, names) in [("same name x3", vec!["ov", "ov", "ov"]), ("two names interleaved", vec!["ov", "pw", "ov", "pw"]), ("same name, another one first", vec!["pw", "ov", "ov"])] {
            let chain = gen.path[ptag].clone();
            let v = gen.version_for(&chain, &[(ptag.to_string(), ctag.to_string())]);
            let (mut doc, path) = gen.carrier_v(ptag, v, 1);
            doc.root.at_mut(&path).children.retain(|c| c.tag != ctag);
            for (k, n) in names.iter().enumerate() {
                let mut child = gen.min_node(ctag, v, 1);
                child.params[0].text = n.to_string();
                child.params[1].text = format!("{}", k + 1);
                // every optional sub-element of the block once, so that the blocks differ in more than the number
                let e = g.elem(ctag).clone();
                for r in &e.refs {
                    if r.in_version(v) && child.child(&r.tag).is_none() && (k + r.tag.len()) % 2 == 0 {
                        let c = gen.min_node(&r.tag, v, 1);
                        child.children.push(c);
                    }
                }
                doc.root.at_mut(&path).children.push(child);
            }
            out.push(CDoc { label: format!("same-name({ptag},{ctag}: {label})"), doc, path, deviations: 0 });
        }
    }
    out
}

/// all pairs of optional children inside one block
pub fn opt_pair_docs(g: &Grammar, only_parents: Option<&[&str]>) -> Vec<CDoc> {
    let mut gen = Gen::new(g);
    let mut out = Vec::new();
    let mut seen = std::collections::HashSet::new();
    for e in &g.elements {
        if e.special == Special::Root || e.refs.len() < 2 {
            continue;
        }
        let ptag = e.tags[0].clone();
        if !seen.insert(ptag.clone()) || !gen.path.contains_key(&ptag) {
            continue;
        }
        if let Some(only) = only_parents {
            if !only.contains(&ptag.as_str()) {
                continue;
            }
        }
        let chain = gen.path[&ptag].clone();
        for i in 0..e.refs.len() {
            for j in (i + 1)..e.refs.len() {
                let (a, b) = (&e.refs[i], &e.refs[j]);
                let v = gen.version_for(&chain, &[(ptag.clone(), a.tag.clone()), (ptag.clone(), b.tag.clone())]);
                if !a.in_version(v) || !b.in_version(v) {
                    continue;
                }
                let (mut doc, path) = gen.carrier_v(&ptag, v, 1);
                for r in [a, b] {
                    if doc.root.at(&path).child(&r.tag).is_none() {
                        let child = gen.min_node(&r.tag, v, 1);
                        doc.root.at_mut(&path).children.push(child);
                    }
                }
                out.push(CDoc { label: format!("opt-pair({ptag},{},{})", a.tag, b.tag), doc, path, deviations: 2 });
            }
        }
    }
    out
}

/// every enum-typed parameter x every other item of its enum (in a version where the item exists)
pub fn enum_docs(g: &Grammar) -> Vec<CDoc> {
    let mut gen = Gen::new(g);
    let mut out = Vec::new();
    for t in tags(g) {
        if !gen.path.contains_key(&t) {
            continue;
        }
        let e = g.elem(&t).clone();
        if e.tags[0] != t {
            continue; // one representative per multi-tag definition
        }
        let chain = gen.path[&t].clone();
        let base_v = gen.version_for(&chain, &[]);
        let (doc0, path) = gen.carrier_v(&t, base_v, 1);
        let n = doc0.root.at(&path).clone();
        for (pi, p) in n.params.iter().enumerate() {
            if let PType::Enum(en) = &p.ty {
                for it in &g.enumdef(en).items {
                    if it.name == p.text {
                        continue;
                    }
                    // choose a version in which both the chain and the item exist
                    let v = (0..6).rev().find(|v| it.in_version(*v) && gen.version_for(&chain, &[]) >= *v && chain_ok(&gen, &chain, *v));
                    let Some(v) = v else { continue };
                    let (mut doc, path) = gen.carrier_v(&t, v, 1);
                    doc.root.at_mut(&path).params[pi].text = it.name.clone();
                    out.push(CDoc { label: format!("enum({t},{},{})", p.field, it.name), doc, path, deviations: 1 });
                }
            }
        }
    }
    out
}

pub fn chain_ok(gen: &Gen, chain: &[String], v: usize) -> bool {
    let mut parent = "A2L_FILE".to_string();
    for t in chain {
        if let Some(r) = gen.g.elem(&parent).refs.iter().find(|r| &r.tag == t) {
            if !r.in_version(v) {
                return false;
            }
        }
        parent = t.clone();
    }
    true
}

/// a handful of richer documents: a module with many element kinds and nested content
pub fn rich_docs(g: &Grammar) -> Vec<CDoc> {
    let mut gen = Gen::new(g);
    let mut out = Vec::new();
    let sets: [&[&str]; 4] = [
        &["MEASUREMENT", "CHARACTERISTIC", "COMPU_METHOD", "GROUP", "RECORD_LAYOUT"],
        &["AXIS_PTS", "COMPU_VTAB", "FUNCTION", "UNIT", "USER_RIGHTS", "MOD_COMMON"],
        &["A2ML", "IF_DATA", "MEASUREMENT", "MOD_PAR", "FRAME"],
        &["TYPEDEF_STRUCTURE", "INSTANCE", "TRANSFORMER", "BLOB", "VARIANT_CODING", "COMPU_TAB", "COMPU_VTAB_RANGE"],
    ];
    for (si, set) in sets.iter().enumerate() {
        let (mut doc, path) = gen.carrier_v("MODULE", 5, 2);
        for t in set.iter() {
            let mut n = gen.min_node(t, 5, 2);
            // one level of optional children, each once
            let e = g.elem(t).clone();
            for r in &e.refs {
                if r.in_version(5) && n.child(&r.tag).is_none() && r.tag != "IF_DATA" {
                    let c = gen.min_node(&r.tag, 5, 2);
                    n.children.push(c);
                }
            }
            doc.root.at_mut(&path).children.push(n);
            if e.is_named() && t != &"A2ML" {
                let n2 = gen.min_node(t, 5, 1);
                doc.root.at_mut(&path).children.push(n2);
            }
        }
        out.push(CDoc { label: format!("rich({si})"), doc, path, deviations: 0 });
    }
    out
}

pub fn set_version(doc: &mut Doc, v: usize) {
    let (maj, min) = VERSIONS[v];
    doc.version = v;
    if let Some(ver) = doc.root.child_mut("ASAP2_VERSION") {
        ver.params[0].text = maj.to_string();
        ver.params[1].text = min.to_string();
    }
}

pub fn unknown_node(block: bool, tag: &str, payload: &str) -> Node {
    Node {
        tag: tag.to_string(),
        block,
        params: vec![],
        children: vec![],
        raw: if payload.is_empty() { None } else { Some(payload.to_string()) },
        end_tag: None,
        known: false,
    }
}

/// replacement tokens of another lexical class for a parameter of type `ty`
pub fn wrong_class_tokens(ty: &PType) -> Vec<(&'static str, &'static str)> {
    match ty {
        PType::Ident => vec![("str", "\"x\""), ("num", "7")],
        PType::Str => vec![("num", "7"), ("ident", "xyz")],
        PType::Float => vec![("ident", "xyz"), ("str", "\"x\""), ("badnum", "1e")],
        PType::Enum(_) => vec![("str", "\"x\""), ("num", "7"), ("unknown-item", "NOT_AN_ITEM")],
        _ => vec![("ident", "xyz"), ("str", "\"x\""), ("fraction", "1.5")],
    }
}

/// single deviations applied to the element under test of `base`
pub fn deviations(g: &Grammar, base: &CDoc) -> Vec<CDoc> {
    let mut out = Vec::new();
    if base.path.is_empty() {
        return out;
    }
    let node = base.doc.root.at(&base.path).clone();
    if !node.known {
        return out;
    }
    let e = g.elem(&node.tag);
    if e.special != Special::None {
        return out;
    }
    let mk = |label: String, f: &dyn Fn(&mut Node)| -> CDoc {
        let mut d = base.doc.clone();
        f(d.root.at_mut(&base.path));
        CDoc { label: format!("{} + {label}", base.label), doc: d, path: base.path.clone(), deviations: base.deviations + 1 }
    };
    for (pi, p) in node.params.iter().enumerate() {
        out.push(mk(format!("delete-param({})", p.field), &|n| {
            n.params.remove(pi);
        }));
        for (cls, tok) in wrong_class_tokens(&p.ty) {
            out.push(mk(format!("param-class({},{cls})", p.field), &|n| {
                n.params[pi].text = tok.to_string();
            }));
        }
    }
    // only the /begin is missing (the /end and its tag are there), and only the /end is missing
    if node.block && base.path.len() >= 2 {
        let (parent, idx) = (base.path[..base.path.len() - 1].to_vec(), base.path[base.path.len() - 1]);
        let mut d = base.doc.clone();
        d.root.at_mut(&base.path).block = false;
        d.root.at_mut(&parent).children.insert(idx + 1, unknown_node(false, "/end", &node.tag));
        out.push(CDoc { label: format!("{} + begin-missing", base.label), doc: d, path: base.path.clone(), deviations: base.deviations + 1 });
    }
    if !node.block && base.path.len() >= 2 {
        // a keyword element followed by a stray /end TAG
        let (parent, idx) = (base.path[..base.path.len() - 1].to_vec(), base.path[base.path.len() - 1]);
        let mut d = base.doc.clone();
        d.root.at_mut(&parent).children.insert(idx + 1, unknown_node(false, "/end", &node.tag));
        out.push(CDoc { label: format!("{} + stray-end", base.label), doc: d, path: base.path.clone(), deviations: base.deviations + 1 });
    }
    // an extra scalar behind the fixed parameters
    out.push(mk("extra-token".into(), &|n| {
        n.params.push(Param { text: "\"extra\"".into(), kind: TKind::Str, ty: PType::Str, field: "__extra".into(), item: usize::MAX, sub: 0 });
    }));
    out.push(mk("flip-block-form".into(), &|n| n.block = !n.block));
    if node.block {
        out.push(mk("wrong-end-tag".into(), &|n| n.end_tag = Some("WRONG_TAG".into())));
    }
    if !e.refs.is_empty() {
        out.push(mk("unknown-block".into(), &|n| n.children.insert(0, unknown_node(true, "UNKNOWN_TAG", ""))));
        out.push(mk("unknown-block-last".into(), &|n| n.children.push(unknown_node(true, "UNKNOWN_TAG", "1 \"s\" x"))));
    }
    out
}

pub fn missing_required(g: &Grammar) -> Vec<CDoc> {
    let mut gen = Gen::new(g);
    let mut out = Vec::new();
    let (doc, _) = gen.carrier_v("PROJECT", 5, 1);
    let mut d1 = doc.clone();
    d1.root.child_mut("PROJECT").unwrap().children.retain(|c| c.tag != "MODULE");
    out.push(CDoc { label: "missing(PROJECT,MODULE)".into(), doc: d1, path: vec![], deviations: 1 });
    let mut d2 = doc.clone();
    d2.root.children.retain(|c| c.tag != "PROJECT");
    out.push(CDoc { label: "missing(A2L_FILE,PROJECT)".into(), doc: d2, path: vec![], deviations: 1 });
    let mut d3 = doc;
    d3.root.children.retain(|c| c.tag != "ASAP2_VERSION");
    out.push(CDoc { label: "missing(A2L_FILE,ASAP2_VERSION)".into(), doc: d3, path: vec![], deviations: 1 });
    out
}
