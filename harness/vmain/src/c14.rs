//! C14 — sort() is a pure reordering into the documented canonical order.

use crate::modgen::*;
use crate::util::*;
use serde_json::{json, Value};
use std::collections::BTreeMap;
use vcore::docgen::*;
use vcore::explore::{fnv1a, guard, par_map};
use vcore::grammar::Grammar;
use vcore::interp;
use vcore::reftok;
use vcore::report::Run;

const KINDS: [&str; 6] = ["MEASUREMENT", "CHARACTERISTIC", "COMPU_METHOD", "GROUP", "RECORD_LAYOUT", "UNIT"];
const NAMES: [&str; 4] = ["aa", "ab", "b", "ba"];

pub const ALL_LIST_KINDS: [&str; 22] = [
    "AXIS_PTS", "BLOB", "CHARACTERISTIC", "COMPU_METHOD", "COMPU_TAB", "COMPU_VTAB", "COMPU_VTAB_RANGE", "FRAME", "FUNCTION", "GROUP", "INSTANCE",
    "MEASUREMENT", "RECORD_LAYOUT", "TRANSFORMER", "TYPEDEF_AXIS", "TYPEDEF_BLOB", "TYPEDEF_CHARACTERISTIC", "TYPEDEF_MEASUREMENT", "TYPEDEF_STRUCTURE",
    "UNIT", "IF_DATA", "USER_RIGHTS",
];

fn ns_of(kind: &str) -> &'static str {
    match kind {
        "MEASUREMENT" | "CHARACTERISTIC" | "AXIS_PTS" | "BLOB" | "INSTANCE" => "obj",
        "COMPU_TAB" | "COMPU_VTAB" | "COMPU_VTAB_RANGE" => "tab",
        "TYPEDEF_AXIS" | "TYPEDEF_BLOB" | "TYPEDEF_CHARACTERISTIC" | "TYPEDEF_MEASUREMENT" | "TYPEDEF_STRUCTURE" => "typedef",
        "COMPU_METHOD" => "cm",
        "GROUP" => "group",
        "RECORD_LAYOUT" => "rl",
        "UNIT" => "unit",
        "FRAME" => "frame",
        "FUNCTION" => "function",
        "TRANSFORMER" => "transformer",
        _ => "other",
    }
}

/// module children (tag, name) in the order of the text
pub fn module_order(g: &Grammar, text: &str) -> Result<Vec<Vec<(String, String)>>, String> {
    let lex = reftok::lex(text).map_err(|e| format!("output not lexable: {e}"))?;
    let acc = interp::recognise(g, &lex).map_err(|r| format!("output outside the grammar: {:?} {}", r.class, r.detail))?;
    let mut out = Vec::new();
    for p in acc.root.children.iter().filter(|c| c.tag == "PROJECT") {
        for m in p.children.iter().filter(|c| c.tag == "MODULE") {
            let mut v = Vec::new();
            for c in &m.children {
                let e = g.elem(&c.tag);
                // (RECORD_LAYOUT has the name as its only fixed parameter)
                let first_is_name = matches!(e.items.first(), Some(vcore::grammar::Item::Single { ty: vcore::grammar::PType::Ident, name }) if name == "name");
                let name = if e.is_named() || first_is_name || c.tag == "USER_RIGHTS" { c.params.first().map(|p| lex.tokens[p.0].text.clone()).unwrap_or_default() } else { String::new() };
                v.push((c.tag.clone(), name));
            }
            out.push(v);
        }
    }
    Ok(out)
}

pub fn check_sort(g: &Grammar, text: &str) -> Result<Vec<(&'static str, String)>, String> {
    check_sort_hist(g, text, 0)
}

/// histories in front of the sort() that is judged: 1 = sort(), then the first element of each list renamed (through
/// `rename_item`) to a name that belongs at the end; 2 = sort(), the last element renamed to a name that belongs further
/// in front; 3 = sort(), write, load, rename as in 1; 4 = sort(), a clone of the last element pushed under a name that
/// belongs in front. The state reached is then sorted and judged like a freshly loaded file.
pub const PRE_HISTORIES: [&str; 5] = ["", "sort + rename first to last", "sort + rename last forward", "sort + reload + rename first to last", "sort + push a clone that belongs in front"];

fn pre_history(f: &mut a2lfile::A2lFile, pre: u8) -> Result<(), String> {
    if pre == 0 {
        return Ok(());
    }
    guard(std::panic::AssertUnwindSafe(|| f.sort())).map_err(|p| format!("panic: {p}"))?;
    if pre == 3 {
        let t = write(f).map_err(|p| format!("panic: {p}"))?;
        match load(&t, None, false) {
            Loaded::Ok(f2, _) => *f = f2,
            _ => return Err("machinery: sorted file does not load".into()),
        }
    }
    for m in f.project.module.iter_mut() {
        macro_rules! edit {
            ($l:expr, $k:expr) => {{
                let n = $l.len();
                if n >= 2 {
                    match pre {
                        1 | 3 => {
                            $l.rename_item(0, &format!("zz{}", $k));
                        }
                        2 => {
                            $l.rename_item(n - 1, &format!("aaa{}", $k));
                        }
                        _ => {
                            let mut c = $l[n - 1].clone();
                            a2lfile::A2lObjectNameSetter::set_name(&mut c, format!("aaa{}", $k));
                            $l.push(c);
                        }
                    }
                }
            }};
        }
        edit!(m.measurement, "a");
        edit!(m.characteristic, "b");
        edit!(m.compu_method, "c");
        edit!(m.group, "d");
        edit!(m.record_layout, "e");
        edit!(m.unit, "f");
        edit!(m.axis_pts, "g");
        edit!(m.function, "h");
        edit!(m.compu_vtab, "i");
    }
    Ok(())
}

pub fn check_sort_hist(g: &Grammar, text: &str, pre: u8) -> Result<Vec<(&'static str, String)>, String> {
    let mut f = match load(text, None, false) {
        Loaded::Ok(f, _) => f,
        Loaded::Err(e) => return Err(format!("machinery: generated file does not load: {e}")),
        Loaded::Panic(p) => return Err(format!("panic: {p}")),
    };
    pre_history(&mut f, pre)?;
    let mut out = Vec::new();
    let snaps_before: Vec<_> = f.project.module.iter().map(|m| vcore::dbgtree::parse(&format!("{m:?}")).map(|d| vcore::refsites::snapshot(&d))).collect();
    guard(|| f.sort()).map_err(|p| format!("panic: {p}"))?;
    if let Err(w) = crate::c08::index_coherent(&f) {
        out.push(("name-index-incoherent-after-sort", w));
    }
    // (1) pure permutation, per list
    for (mi, m) in f.project.module.iter().enumerate() {
        let after = vcore::dbgtree::parse(&format!("{m:?}")).map(|d| vcore::refsites::snapshot(&d)).map_err(|e| format!("machinery: {e}"))?;
        // module order may change, so match modules by name
        let Some(before) = snaps_before.iter().flatten().find(|s| {
            let mut a: Vec<String> = s.elems.iter().map(|e| format!("{}/{}", e.list, e.name)).collect();
            let mut b: Vec<String> = after.elems.iter().map(|e| format!("{}/{}", e.list, e.name)).collect();
            a.sort();
            b.sort();
            a == b
        }) else {
            out.push(("elements-changed", format!("module {mi}: the set of (list, name) pairs differs after sort()")));
            continue;
        };
        let mut bm: BTreeMap<String, Vec<String>> = BTreeMap::new();
        for e in &before.elems {
            bm.entry(e.list.clone()).or_default().push(e.dv.canon());
        }
        let mut am: BTreeMap<String, Vec<String>> = BTreeMap::new();
        for e in &after.elems {
            am.entry(e.list.clone()).or_default().push(e.dv.canon());
        }
        for (l, v) in bm.iter_mut() {
            v.sort();
            let mut w = am.remove(l).unwrap_or_default();
            w.sort();
            if *v != w {
                out.push(("content-changed", format!("list {l} does not hold the same elements after sort()")));
            }
        }
    }
    // (2) grouped by kind, ascending by name within a kind
    let t1 = write(&f).map_err(|p| format!("panic: {p}"))?;
    match module_order(g, &t1) {
        Err(e) => out.push(("output-invalid", e)),
        Ok(mods) => {
            for (mi, kids) in mods.iter().enumerate() {
                let mut seen: Vec<&str> = Vec::new();
                for (i, (tag, name)) in kids.iter().enumerate() {
                    if i > 0 && kids[i - 1].0 == *tag {
                        if !name.is_empty() && kids[i - 1].1.as_str() > name.as_str() {
                            out.push(("not-ascending", format!("module {mi}: {tag} {} is written before {tag} {name}", kids[i - 1].1)));
                        }
                    } else {
                        if seen.contains(&tag.as_str()) {
                            out.push(("not-grouped", format!("module {mi}: elements of kind {tag} are not contiguous in the written file: {:?}", kids.iter().map(|k| format!("{} {}", k.0, k.1)).collect::<Vec<_>>())));
                        }
                        seen.push(tag);
                    }
                }
            }
        }
    }
    // (2b) the MODULEs of the PROJECT are elements of a kind as well: ascending by name in the file and in the list
    {
        use a2lfile::A2lObjectName;
        let in_file: Vec<String> = t1.split("/begin MODULE").skip(1).filter_map(|r| r.split_whitespace().next().map(|x| x.to_string())).collect();
        let in_list: Vec<String> = f.project.module.iter().map(|m| m.get_name().to_string()).collect();
        if in_file.windows(2).any(|w| w[0] > w[1]) {
            out.push(("not-ascending", format!("the MODULEs are written in the order {in_file:?}")));
        }
        if in_list.windows(2).any(|w| w[0] > w[1]) {
            out.push(("not-ascending", format!("the MODULE list is in the order {in_list:?}")));
        }
    }
    // (3) reload: equal model with equal list order
    match load(&t1, None, false) {
        Loaded::Ok(f2, _) => {
            if f2 != f {
                out.push(("reload-differs", "loading the sorted file gives a different model".into()));
            } else {
                // same list order: names per list (Debug of IF_DATA contains layout data, so names are compared)
                let order = |x: &a2lfile::A2lFile| -> Vec<Vec<(String, String)>> {
                    x.project
                        .module
                        .iter()
                        .map(|m| vcore::dbgtree::parse(&format!("{m:?}")).map(|d| vcore::refsites::snapshot(&d).elems.iter().map(|e| (e.list.clone(), e.name.clone())).collect()).unwrap_or_default())
                        .collect()
                };
                if order(&f2) != order(&f) {
                    out.push(("reload-order-differs", "loading the sorted file gives the same elements in a different list order".into()));
                }
            }
            let t2 = write(&f2).unwrap_or_default();
            if t2 != t1 {
                out.push(("sorted-text-not-stable", "writing the reloaded sorted file gives a different text".into()));
            }
        }
        Loaded::Err(e) => out.push(("reload-fails", format!("the sorted file cannot be loaded: {e}"))),
        Loaded::Panic(p) => return Err(format!("panic: {p}")),
    }
    // (4) idempotent
    let dbg1 = vcore::dbgtree::canon_debug(&format!("{f:?}"));
    guard(|| f.sort()).map_err(|p| format!("panic: {p}"))?;
    if vcore::dbgtree::canon_debug(&format!("{f:?}")) != dbg1 {
        out.push(("second-sort-changes-model", "sorting a second time changes the model".into()));
    }
    let t3 = write(&f).map_err(|p| format!("panic: {p}"))?;
    if t3 != t1 {
        out.push(("second-sort-changes-text", "sorting a second time changes the written text".into()));
    }
    Ok(out)
}

struct Case14 {
    label: String,
    class: String,
    text: String,
}

fn elem_for(kind: &str, name: &str, variant: usize) -> ESpec {
    let content = if variant % 2 == 0 { "c1" } else { "c2" };
    if kind == "IF_DATA" || kind == "USER_RIGHTS" {
        e(kind, name, content)
    } else {
        e(kind, name, content)
    }
}

fn build(g: &Grammar, thorough: bool) -> Vec<Case14> {
    let mut out = Vec::new();
    // all sequences of up to L elements over 6 kinds x 4 names, duplicate-free per namespace
    let maxlen = if thorough { 4 } else { 3 };
    let opts: Vec<(usize, usize)> = (0..KINDS.len()).flat_map(|k| (0..NAMES.len()).map(move |n| (k, n))).collect();
    let mut seqs: Vec<Vec<usize>> = vec![vec![]];
    let mut frontier: Vec<Vec<usize>> = vec![vec![]];
    for _ in 0..maxlen {
        let mut next = Vec::new();
        for s in &frontier {
            for o in 0..opts.len() {
                // duplicate-free within the namespace
                let (k, n) = opts[o];
                if s.iter().any(|p| ns_of(KINDS[opts[*p].0]) == ns_of(KINDS[k]) && opts[*p].1 == n) {
                    continue;
                }
                let mut s2 = s.clone();
                s2.push(o);
                next.push(s2);
            }
        }
        seqs.extend(next.iter().cloned());
        frontier = next;
    }
    for s in seqs {
        let elems: Vec<ESpec> = s.iter().map(|o| elem_for(KINDS[opts[*o].0], NAMES[opts[*o].1], 0)).collect();
        let label = s.iter().map(|o| format!("{} {}", KINDS[opts[*o].0], NAMES[opts[*o].1])).collect::<Vec<_>>().join(", ");
        out.push(Case14 { label: format!("seq [{label}]"), class: "sequence".into(), text: file_text(g, "m", &elems) });
    }
    // every ordered pair of list kinds (two elements each, names descending), with and without comments
    for a in ALL_LIST_KINDS {
        for b in ALL_LIST_KINDS {
            let mk = |kind: &str, n: &str, i: usize| if kind == "IF_DATA" { e("IF_DATA", "", "") } else { elem_for(kind, n, i) };
            let elems = vec![mk(a, "zb", 0), mk(b, "ya", 1), mk(a, "xa", 1), mk(b, "wb", 0)];
            let text = file_text(g, "m", &elems);
            out.push(Case14 { label: format!("pair {a} / {b}"), class: "kind-pair".into(), text: text.clone() });
            // comments between the elements
            let with_comments = text.replace("\n    /begin ", "\n    /* c */\n    /begin ");
            out.push(Case14 { label: format!("pair {a} / {b} with comments"), class: "kind-pair+comments".into(), text: with_comments });
        }
    }
    // singletons in every position of a 3-element module
    let singles = ["A2ML", "MOD_COMMON", "MOD_PAR", "VARIANT_CODING"];
    for s in singles {
        for pos in 0..4 {
            let mut gen = Gen::new(g);
            let (mut doc, path) = gen.carrier_v("MODULE", 5, 0);
            let mut kids: Vec<Node> = vec![build_elem(&mut gen, g, &e("MEASUREMENT", "zz", "c1")), build_elem(&mut gen, g, &e("COMPU_METHOD", "mm", "c1")), build_elem(&mut gen, g, &e("MEASUREMENT", "aa", "c1"))];
            gen.reset();
            let sn = gen.min_node(s, 5, 1);
            kids.insert(pos, sn);
            doc.root.at_mut(&path).children = kids;
            out.push(Case14 { label: format!("singleton {s} at position {pos}"), class: "singleton".into(), text: doc.text() });
        }
    }
    // two modules, in both orders, each unsorted
    for order in [["mb", "ma"], ["ma", "mb"]] {
        let mut gen = Gen::new(g);
        let (mut doc, _) = gen.carrier_v("PROJECT", 5, 0);
        let p = doc.root.child_mut("PROJECT").unwrap();
        p.children.clear();
        for mn in order {
            gen.reset();
            let mut m = gen.min_node("MODULE", 5, 0);
            m.params[0].text = mn.to_string();
            m.children.push(build_elem(&mut gen, g, &e("MEASUREMENT", "zz", "c1")));
            m.children.push(build_elem(&mut gen, g, &e("UNIT", "u", "c1")));
            m.children.push(build_elem(&mut gen, g, &e("MEASUREMENT", "aa", "c1")));
            p.children.push(m);
        }
        out.push(Case14 { label: format!("two modules {order:?}"), class: "two-modules".into(), text: doc.text() });
    }
    // comments directly inside PROJECT (sort() keeps those) at every position between its children, with the closing
    // /end PROJECT on its own line and on the line of the last /end MODULE
    for order in [vec!["mb", "ma"], vec!["ma", "mb"], vec!["only"]] {
        let mut gen = Gen::new(g);
        let (mut doc, _) = gen.carrier_v("PROJECT", 5, 0);
        let p = doc.root.child_mut("PROJECT").unwrap();
        p.children.clear();
        gen.reset();
        let h = gen.min_node("HEADER", 5, 1);
        p.children.push(h);
        for mn in &order {
            gen.reset();
            let mut m = gen.min_node("MODULE", 5, 0);
            m.params[0].text = mn.to_string();
            m.children.push(build_elem(&mut gen, g, &e("MEASUREMENT", "zz", "c1")));
            m.children.push(build_elem(&mut gen, g, &e("MEASUREMENT", "aa", "c1")));
            p.children.push(m);
        }
        let text = doc.text();
        let lines: Vec<&str> = text.lines().collect();
        // positions: in front of every child of PROJECT and in front of /end PROJECT
        let spots: Vec<usize> = lines.iter().enumerate().filter(|(_, l)| l.starts_with("  /begin ") || l.starts_with("/end PROJECT")).map(|(i, _)| i).collect();
        for (si, spot) in spots.iter().enumerate() {
            for (cn, c) in [("line", "  // c"), ("block", "  /* c */"), ("block-multiline", "  /* a\n     b */"), ("line-twice", "  // c\n  // d")] {
                for joined in [false, true] {
                    let mut t = String::new();
                    for (i, l) in lines.iter().enumerate() {
                        if i == *spot {
                            t.push_str(c);
                            t.push('\n');
                        }
                        t.push_str(l);
                        t.push('\n');
                    }
                    if joined {
                        // (only possible when the comment is not the last thing in front of /end PROJECT)
                        if lines[*spot].starts_with("/end PROJECT") {
                            continue;
                        }
                        t = t.replace("\n/end PROJECT", " /end PROJECT");
                    }
                    out.push(Case14 { label: format!("project-level comment {cn} at child position {si} of modules {order:?}, /end PROJECT {}", if joined { "on the line of /end MODULE" } else { "on its own line" }), class: format!("project-comment:{cn}"), text: t });
                }
            }
        }
    }
    // long lists (sorting algorithms change their strategy with the length): n elements of one kind in several arrangements
    // (rotated, reversed, multiplicative permutation, adjacent pairs swapped, two rotated blocks, already sorted)
    for kind in ["MEASUREMENT", "COMPU_METHOD", "TYPEDEF_AXIS", "GROUP", "USER_RIGHTS"] {
        for n in if thorough { vec![8usize, 20, 21, 22, 25, 33, 64, 129] } else { vec![20usize, 21, 25, 64] } {
            let perms: Vec<(&str, Vec<usize>)> = vec![
                ("rotated", (0..n).map(|i| (i + 1) % n).collect()),
                ("rotated-back", (0..n).map(|i| (i + n - 1) % n).collect()),
                ("reversed", (0..n).rev().collect()),
                ("times-7", (0..n).map(|i| (i * 7 + 3) % n).collect::<Vec<_>>()),
                ("pairs-swapped", (0..n).map(|i| if i % 2 == 0 { (i + 1).min(n - 1) } else { i - 1 }).collect()),
                ("two-blocks", (0..n).map(|i| if i < n / 2 { (i + 3) % (n / 2) } else { n / 2 + (i - n / 2 + 5) % (n - n / 2) }).collect()),
                ("sorted", (0..n).collect()),
            ];
            for (pn, perm) in perms {
                // a permutation? (times-7 is one only when 7 does not divide n; pairs-swapped repeats the last index for odd n)
                let mut seen = vec![false; n];
                let ok = perm.iter().all(|i| !std::mem::replace(&mut seen[*i], true));
                if !ok {
                    continue;
                }
                let elems: Vec<ESpec> = perm.iter().map(|i| elem_for(kind, &format!("n{i:03}"), *i)).collect();
                out.push(Case14 { label: format!("{n} x {kind}, {pn}"), class: format!("long-list:{pn}"), text: file_text(g, "m", &elems) });
            }
        }
    }
    // named lists inside elements (sort() leaves them alone; whatever it does, the file has to reload to the sorted model)
    {
        let elems = vec![
            e("MEMORY_SEGMENT", "zz", "c1"),
            e("MEMORY_SEGMENT", "aa", "c1"),
            e("MEMORY_SEGMENT", "mm", "c1"),
            e("TYPEDEF_STRUCTURE", "ts", "c1").kid(ks("STRUCTURE_COMPONENT", &[("name", "zc")])).kid(ks("STRUCTURE_COMPONENT", &[("name", "ac")])).kid(ks("STRUCTURE_COMPONENT", &[("name", "mc")])),
            e("INSTANCE", "in", "c1").set("type_ref", "ts").kid(ks("OVERWRITE", &[("name", "zc"), ("axis_number", "1")])).kid(ks("OVERWRITE", &[("name", "ac"), ("axis_number", "1")])),
            e("MEASUREMENT", "zm", "c1"),
            e("MEASUREMENT", "am", "c1"),
        ];
        out.push(Case14 { label: "named lists inside MOD_PAR, TYPEDEF_STRUCTURE and INSTANCE in descending order".into(), class: "nested-lists".into(), text: file_text(g, "m", &elems) });
    }
    // modules with and without an A2ML block, in every order of two and three (the MODULE list is ordered by name only)
    for order in [vec![("ma", false), ("mb", true)], vec![("mb", true), ("ma", false)], vec![("ma", true), ("mb", false)], vec![("mb", false), ("ma", true)], vec![("mc", false), ("mb", true), ("ma", false)], vec![("ma", true), ("mb", true)]] {
        let mut gen = Gen::new(g);
        let (mut doc, _) = gen.carrier_v("PROJECT", 5, 0);
        let p = doc.root.child_mut("PROJECT").unwrap();
        p.children.clear();
        for (mn, with_a2ml) in &order {
            gen.reset();
            let mut m = gen.min_node("MODULE", 5, 0);
            m.params[0].text = mn.to_string();
            m.children.push(build_elem(&mut gen, g, &e("MEASUREMENT", "zz", "c1")));
            if *with_a2ml {
                gen.reset();
                let mut a = gen.min_node("A2ML", 5, 0);
                a.raw = Some("block \"IF_DATA\" struct { uint; };".to_string());
                m.children.push(a);
            }
            m.children.push(build_elem(&mut gen, g, &e("MEASUREMENT", "aa", "c1")));
            p.children.push(m);
        }
        out.push(Case14 { label: format!("modules with / without A2ML {order:?}"), class: "modules-a2ml".into(), text: doc.text() });
    }
    // IF_DATA and the A2ML block that describes it in every order inside one module and across two modules
    for (label, mods) in [
        ("IF_DATA behind its A2ML block", vec![vec!["A", "I", "M"]]),
        ("IF_DATA in front of its A2ML block", vec![vec!["I", "A", "M"]]),
        ("IF_DATA in the module behind the module with the A2ML block", vec![vec!["A", "M"], vec!["I", "M"]]),
        ("IF_DATA in the module in front of the module with the A2ML block", vec![vec!["I", "M"], vec!["A", "M"]]),
    ] {
        let mut gen = Gen::new(g);
        let (mut doc, _) = gen.carrier_v("PROJECT", 5, 0);
        let p = doc.root.child_mut("PROJECT").unwrap();
        p.children.clear();
        for (mi, kids) in mods.iter().enumerate() {
            gen.reset();
            let mut m = gen.min_node("MODULE", 5, 0);
            m.params[0].text = format!("m{mi}");
            for k in kids {
                match *k {
                    "A" => {
                        gen.reset();
                        let mut a = gen.min_node("A2ML", 5, 0);
                        a.raw = Some("block \"IF_DATA\" taggedunion { \"ZZ\" uint; };".to_string());
                        m.children.push(a);
                    }
                    "I" => {
                        gen.reset();
                        let mut i = gen.min_node("IF_DATA", 5, 0);
                        i.raw = Some("ZZ 1".to_string());
                        m.children.push(i);
                    }
                    _ => m.children.push(build_elem(&mut gen, g, &e("MEASUREMENT", "zz", "c1"))),
                }
            }
            p.children.push(m);
        }
        out.push(Case14 { label: label.to_string(), class: format!("ifdata-a2ml-order:{}", label.replace(' ', "-")), text: doc.text() });
    }
    // a module whose A2ML block the library cannot interpret (reported as a warning when loading non-strictly; the text is kept
    // as it is) and two module-level IF_DATA blocks of which only one fits a valid A2ML block, next to unsorted elements
    for (label, a2ml) in [("no IF_DATA block", "struct S { uint; };"), ("unknown type word", "block \"IF_DATA\" strukt { uint; };"), ("valid", "block \"IF_DATA\" taggedunion { \"ZZ\" uint; };")] {
        for ifdatas in [vec![], vec!["ZZ 1"], vec!["QQ x", "ZZ 1"], vec!["ZZ 1", "QQ x"], vec!["QQ x", "ZZ 1", "QQ y", "ZZ 2"]] {
            let mut body = format!("    /begin A2ML\n      {a2ml}\n    /end A2ML\n");
            for i in &ifdatas {
                body.push_str(&format!("    /begin IF_DATA {i}\n    /end IF_DATA\n"));
            }
            for n in ["b", "aa", "ab"] {
                body.push_str(&format!("    /begin MEASUREMENT {n} \"\" UBYTE NO_COMPU_METHOD 0 0 0 255\n    /end MEASUREMENT\n"));
            }
            let text = format!("ASAP2_VERSION 1 71\n/begin PROJECT p \"\"\n  /begin MODULE m \"\"\n{body}  /end MODULE\n/end PROJECT\n");
            out.push(Case14 { label: format!("A2ML block ({label}) with module-level IF_DATA {ifdatas:?} and unsorted elements"), class: "a2ml-ifdata".into(), text });
        }
    }
    // the rich documents of the corpus and HEADER / version elements
    for d in crate::corpus::rich_docs(g) {
        out.push(Case14 { label: d.label.clone(), class: "rich".into(), text: d.doc.text() });
    }
    out
}

pub fn run(tier: &str) -> Run {
    let mut run = Run::new("C14", tier);
    let g = crate::corpus::grammar();
    let cases = build(&g, tier == "thorough");
    let res = par_map(cases.len(), &|i| check_sort(&g, &cases[i].text), &|i| {
        println!("MACHINERY-ERROR: C14 case hangs: {}", cases[i].label);
        std::process::exit(2);
    });
    for (i, r) in res.into_iter().enumerate() {
        run.evaluations += 1;
        run.transitions += 5;
        let h = fnv1a(cases[i].text.as_bytes());
        if run.states.insert(h) {
            run.nontrivial.insert(h);
        }
        match r {
            Err(m) if m.starts_with("machinery") => run.machinery(format!("{}: {m}", cases[i].label)),
            Err(p) => run.violation(format!("C14/panic {}", vcore::explore::panic_key(p.trim_start_matches("panic: "))), format!("{}: {p}", cases[i].label), json!({"text": cases[i].text})),
            Ok(vs) => {
                if vs.is_empty() {
                    run.outcome(&format!("{}: sorted correctly", cases[i].class));
                }
                for (o, w) in vs {
                    run.outcome(&format!("{}: violation", cases[i].class));
                    run.violation(format!("C14/{o}/{}", cases[i].class), format!("{}: {w}", cases[i].label), json!({"text": cases[i].text}));
                }
            }
        }
        if i % 50021 == 9 {
            run.sample(json!({"label": cases[i].label, "text": short(&cases[i].text, 500)}));
        }
    }
    // the same documents reached through a history: sorted, edited through the list API (rename_item, push), then sorted again
    {
        let hist: Vec<(usize, u8)> = (0..cases.len()).filter(|i| cases[*i].class == "sequence" || cases[*i].class.starts_with("long") || cases[*i].class == "rich" || cases[*i].class == "kind-pair").flat_map(|i| (1..PRE_HISTORIES.len() as u8).map(move |p| (i, p))).collect();
        let hres = par_map(hist.len(), &|k| check_sort_hist(&g, &cases[hist[k].0].text, hist[k].1), &|k| {
            println!("MACHINERY-ERROR: C14 history case hangs: {}", cases[hist[k].0].label);
            std::process::exit(2);
        });
        for (k, r) in hres.into_iter().enumerate() {
            let (i, pre) = hist[k];
            run.evaluations += 1;
            run.transitions += 7;
            run.states.insert(fnv1a(format!("{}|{pre}", cases[i].text).as_bytes()));
            let pn = PRE_HISTORIES[pre as usize];
            match r {
                Err(m) if m.starts_with("machinery") => run.machinery(format!("{} after [{pn}]: {m}", cases[i].label)),
                Err(p) => run.violation(format!("C14/panic {}", vcore::explore::panic_key(p.trim_start_matches("panic: "))), format!("{} after [{pn}]: {p}", cases[i].label), json!({"text": cases[i].text, "pre": pre})),
                Ok(vs) => {
                    if vs.is_empty() {
                        run.outcome("history: sorted correctly");
                    }
                    for (o, w) in vs {
                        run.outcome("history: violation");
                        run.violation(format!("C14/{o}/history:{}/{}", pn.replace(' ', "-"), cases[i].class), format!("{} after [{pn}]: {w}", cases[i].label), json!({"text": cases[i].text, "pre": pre}));
                    }
                }
            }
        }
        run.require("history: sorted correctly", 5000);
    }
    run.require("sequence: sorted correctly", 5000);
    run.require("kind-pair: sorted correctly", 400);
    run.rule = "all duplicate-free sequences of up to 3 (thorough 4) elements over 6 kinds x the names {aa, ab, b, ba}; every ordered pair of the 22 module-level list kinds (two unsorted elements each) with and without comments; each singleton at every position; two modules in both orders; comments (4 shapes) directly inside PROJECT at every child position x /end PROJECT on its own line / on the line of the last /end MODULE; the rich corpus documents. Oracle: every list holds the same elements (content) after sort(); in the written text each kind is contiguous and names ascend within a kind; the written file reloads to an equal model in equal list order and is a textual fixpoint; a second sort() changes neither model nor text.".into();
    run.assumptions = vec!["names are lower-case ASCII without digits, so every reasonable reading of 'alphabetical' agrees".into()];
    run
}

pub fn replay(v: &Value) -> Result<String, String> {
    let g = crate::corpus::grammar();
    let vs = check_sort_hist(&g, v["text"].as_str().ok_or("no text")?, v["pre"].as_u64().unwrap_or(0) as u8)?;
    if vs.is_empty() {
        Ok("sorted correctly".into())
    } else {
        Err(vs.iter().map(|v| format!("{}: {}", v.0, v.1)).collect::<Vec<_>>().join(" || "))
    }
}
