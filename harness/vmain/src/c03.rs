//! C03 — loading is total: no panic, overflow or hang on any input, in any configuration.

use crate::corpus;
use crate::util::*;
use serde_json::{json, Value};
use vcore::docgen::*;
use vcore::explore::{fnv1a, guard, panic_key, par_map};
use vcore::report::Run;

pub const VALID_SPEC: &str = r#"block "IF_DATA" taggedunion if_data { "VX" struct { uint; }; "T" taggedstruct { ("A" uint)*; block "B" struct { char[4]; }; }; };"#;

#[derive(Debug, Clone, Copy, PartialEq)]
pub enum Entry {
    Str,
    Fragment,
    File,
}

#[derive(Debug, Clone, Copy)]
pub struct Config {
    pub strict: bool,
    /// 0 = None, 1 = valid, 2 = invalid ("x")
    pub spec: u8,
    pub entry: Entry,
}

impl Config {
    fn spec_string(&self) -> Option<String> {
        match self.spec {
            0 => None,
            1 => Some(VALID_SPEC.to_string()),
            _ => Some("x".to_string()),
        }
    }
    fn name(&self) -> String {
        format!("strict={} spec={} entry={:?}", self.strict, ["none", "valid", "invalid"][self.spec as usize], self.entry)
    }
}

pub fn all_configs(with_file: bool) -> Vec<Config> {
    let mut v = Vec::new();
    for strict in [false, true] {
        for spec in 0..3u8 {
            for entry in [Entry::Str, Entry::Fragment, Entry::File] {
                if entry == Entry::Fragment && strict {
                    continue; // load_fragment has no strict mode
                }
                if entry == Entry::File && !with_file {
                    continue;
                }
                v.push(Config { strict, spec, entry });
            }
        }
    }
    v
}

fn scratch_dir() -> std::path::PathBuf {
    let base = std::env::var("VERIF_SCRATCH").unwrap_or_else(|_| if std::path::Path::new("/dev/shm").is_dir() { "/dev/shm".into() } else { std::env::temp_dir().to_string_lossy().into_owned() });
    let d = std::path::PathBuf::from(base).join(format!("verif-c03-{}", std::process::id()));
    let _ = std::fs::create_dir_all(&d);
    for (name, content) in include_files() {
        let _ = std::fs::write(d.join(name), content);
    }
    d
}

/// fixed files next to the scratch main file: the targets of the "include trees" family
fn include_files() -> Vec<(&'static str, String)> {
    let meas = |n: &str, d: &str| format!("/begin MEASUREMENT {n} \"{d}\" UBYTE NO_COMPU_METHOD 0 0 0 255\n/end MEASUREMENT\n");
    vec![
        ("inc_short.a2l", "/* s */\n".to_string()),
        ("inc_long.a2l", format!("{}{}{}", meas("l1", "a rather long description é of the first"), meas("l2", "second 😀"), meas("l3", "third element of the long file"))),
        ("inc_nest.a2l", format!("{}/include inc_short.a2l\n{}", meas("n1", "x"), meas("n2", "y"))),
        ("inc_nest2.a2l", format!("/include \"inc_nest.a2l\"\n{}", meas("nn", "two levels"))),
        ("inc_empty.a2l", String::new()),
        ("inc_self.a2l", "/include inc_self.a2l\n".to_string()),
        ("inc_bad.a2l", "/begin MEASUREMENT trunc \"".to_string()),
        ("inc_ifdata.a2l", "/begin IF_DATA Z /begin Q 1 0x2 /end Q 2.5 \"s\"\n/end IF_DATA\n".to_string()),
        ("inc_tail.a2l", format!("{}/include inc_long.a2l", meas("t1", "include directive is the last token"))),
    ]
}

/// returns Err(panic text) if the call panicked; Ok(short outcome) otherwise
pub fn call(bytes: &[u8], cfg: &Config, dir: &std::path::Path, slot: usize) -> Result<&'static str, String> {
    match cfg.entry {
        Entry::File => {
            let p = dir.join(format!("f{slot}.a2l"));
            std::fs::write(&p, bytes).map_err(|e| format!("machinery: cannot write scratch file: {e}"))?;
            guard(|| match a2lfile::load(&p, cfg.spec_string(), cfg.strict) {
                Ok(_) => "ok",
                Err(_) => "err",
            })
        }
        Entry::Str => {
            let Ok(text) = std::str::from_utf8(bytes) else { return Ok("not-utf8") };
            guard(|| match a2lfile::load_from_string(text, cfg.spec_string(), cfg.strict) {
                Ok(_) => "ok",
                Err(_) => "err",
            })
        }
        Entry::Fragment => {
            let Ok(text) = std::str::from_utf8(bytes) else { return Ok("not-utf8") };
            guard(|| match a2lfile::load_fragment(text, cfg.spec_string()) {
                Ok(_) => "ok",
                Err(_) => "err",
            })
        }
    }
}

pub const SOUP_UNITS: [&str; 23] = [
    "/begin", "/end", "/include", "A2ML", "IF_DATA", "PROJECT", "MODULE", "ASAP2_VERSION", "X", "\"", "\"s\"", "/*", "*/", "//", "\n", "0", "0x", "-", "1e", "é", "😀", "MEASUREMENT", "1 71",
];

pub const A2ML_UNITS: [&str; 24] = [
    "struct", "taggedstruct", "taggedunion", "enum", "block", "\"T\"", "\"", "{", "}", "(", ")", "*", ";", "[", "]", "2", "uint", "char", "S", "=", ",", "/*", "//", "/include",
];

const BYTE_ALPHABET: [u8; 14] = [0x00, b'A', b'/', b'*', b'"', b'\\', b'\n', b'\r', b' ', b'0', b'x', b'-', 0xC3, 0xF0];

/// a family of inputs enumerated by index
pub struct Family {
    pub name: String,
    pub count: usize,
    pub gen: Box<dyn Fn(usize) -> Vec<u8> + Sync>,
    pub configs: Vec<Config>,
}

fn seq_family(name: &str, units: Vec<String>, max_len: usize, sep: &'static str, wrap: Option<(String, String)>, configs: Vec<Config>) -> Family {
    // index -> sequence (all lengths 0..=max_len)
    let n = units.len();
    let mut count = 0usize;
    let mut pow = 1usize;
    let mut offsets = vec![0usize];
    for _ in 0..=max_len {
        count += pow;
        offsets.push(count);
        pow *= n;
    }
    Family {
        name: name.to_string(),
        count,
        gen: Box::new(move |mut i| {
            let mut len = 0;
            while i >= offsets[len + 1] {
                len += 1;
            }
            i -= offsets[len];
            let mut parts = Vec::with_capacity(len);
            for _ in 0..len {
                parts.push(units[i % n].as_str());
                i /= n;
            }
            let body = parts.join(sep);
            match &wrap {
                Some((a, b)) => format!("{a}{body}{b}").into_bytes(),
                None => body.into_bytes(),
            }
        }),
        configs,
    }
}

fn doc_texts(thorough: bool) -> Vec<String> {
    let g = corpus::grammar();
    let mut docs = corpus::carriers(&g);
    docs.extend(corpus::rich_docs(&g));
    if thorough {
        docs.extend(corpus::opt_docs(&g, 1));
    }
    let mut v: Vec<String> = docs.iter().map(|d| d.doc.text()).collect();
    // IF_DATA flavoured documents
    let mut c = Vec::new();
    crate::c01::ifdata_cases(&g, &mut c);
    v.extend(c.into_iter().step_by(if thorough { 1 } else { 4 }).map(|c| c.text));
    v
}

fn doc_tokens(thorough: bool) -> Vec<Vec<RTok>> {
    let g = corpus::grammar();
    let mut docs = corpus::carriers(&g);
    docs.extend(corpus::rich_docs(&g));
    if thorough {
        docs.extend(corpus::opt_docs(&g, 1));
    }
    docs.iter().map(|d| d.doc.tokens()).collect()
}

pub fn families(thorough: bool, deep: bool) -> Vec<Family> {
    let mut f: Vec<Family> = Vec::new();
    let str_cfgs = all_configs(false);
    let one = vec![Config { strict: false, spec: 0, entry: Entry::Str }];
    let two = vec![Config { strict: false, spec: 1, entry: Entry::Str }, Config { strict: true, spec: 0, entry: Entry::Str }];
    let file_cfgs = vec![Config { strict: false, spec: 0, entry: Entry::File }, Config { strict: true, spec: 1, entry: Entry::File }];
    // (1) all byte strings up to length 2, strings over the byte alphabet, through load()
    f.push(Family {
        name: "bytes<=2".into(),
        count: 1 + 256 + 65536,
        gen: Box::new(|i| {
            if i == 0 {
                vec![]
            } else if i <= 256 {
                vec![(i - 1) as u8]
            } else {
                let j = i - 257;
                vec![(j / 256) as u8, (j % 256) as u8]
            }
        }),
        configs: file_cfgs.clone(),
    });
    let alpha: Vec<String> = BYTE_ALPHABET.iter().map(|b| unsafe { String::from_utf8_unchecked(vec![*b]) }).collect();
    // (raw bytes: built as byte vectors, not strings)
    let maxl = if deep { 6 } else if thorough { 5 } else { 4 };
    {
        let n = BYTE_ALPHABET.len();
        let mut count = 0usize;
        let mut pow = 1usize;
        let mut offsets = vec![0usize];
        for _ in 0..=maxl {
            count += pow;
            offsets.push(count);
            pow *= n;
        }
        let _ = alpha;
        f.push(Family {
            name: format!("byte-alphabet<={maxl}"),
            count,
            gen: Box::new(move |mut i| {
                let mut len = 0;
                while i >= offsets[len + 1] {
                    len += 1;
                }
                i -= offsets[len];
                let mut v = Vec::with_capacity(len);
                for _ in 0..len {
                    v.push(BYTE_ALPHABET[i % n]);
                    i /= n;
                }
                v
            }),
            configs: file_cfgs.clone(),
        });
    }
    // (2) token soups
    let units: Vec<String> = SOUP_UNITS.iter().map(|s| s.to_string()).collect();
    let k = if deep { 5 } else if thorough { 4 } else { 3 };
    f.push(seq_family(&format!("soup<={k} spaced"), units.clone(), k, " ", None, str_cfgs.clone()));
    f.push(seq_family(&format!("soup<={k} unspaced"), units.clone(), k, "", None, str_cfgs.clone()));
    f.push(seq_family(&format!("soup<={} spaced, one config", k + 1), units.clone(), k + 1, " ", None, one.clone()));
    // soups inside a valid frame, so that deeper parser code is reached
    let pre = "ASAP2_VERSION 1 71 /begin PROJECT p \"\" /begin MODULE m \"\" ".to_string();
    let post = " /end MODULE /end PROJECT".to_string();
    f.push(seq_family(&format!("soup<={k} inside MODULE"), units.clone(), k, " ", Some((pre.clone(), post.clone())), two.clone()));
    let pre_if = format!("{pre}/begin A2ML {VALID_SPEC} /end A2ML /begin IF_DATA ");
    let post_if = format!(" /end IF_DATA{post}");
    let mut if_units: Vec<String> = units.clone();
    if_units.extend(["VX", "T", "A", "B", "/begin B", "/end B", "1", "65536", "\"abcdefgh\""].iter().map(|s| s.to_string()));
    f.push(seq_family(&format!("soup<={k} inside IF_DATA"), if_units, k, " ", Some((pre_if, post_if)), two.clone()));
    {
        let mut u2 = units.clone();
        u2.extend(["/begin A2ML", "/end A2ML", "/begin IF_DATA", "/end IF_DATA", "/begin MEASUREMENT", " "].iter().map(|s| s.to_string()));
        f.push(seq_family(&format!("soup<={k} inside MODULE, unspaced"), u2, k, "", Some((pre.clone(), post.clone())), one.clone()));
    }
    {
        let pre_if = format!("{pre}/begin A2ML {VALID_SPEC} /end A2ML /begin IF_DATA ");
        let post_if = format!(" /end IF_DATA{post}");
        let mut if_units: Vec<String> = units.clone();
        if_units.extend(["VX", "T", "1", "/begin B", "/end B", "/begin A2ML", "/end A2ML", "/begin IF_DATA", "/end IF_DATA", " "].iter().map(|s| s.to_string()));
        f.push(seq_family(&format!("soup<={k} inside IF_DATA, unspaced"), if_units, k, "", Some((pre_if, post_if)), two.clone()));
    }
    // error-context windows: an error-triggering construct, k bytes of padding, a multi-byte
    // character, more text - the multi-byte character sits at every offset 0..24 behind the construct
    {
        let triggers: Vec<&'static str> = vec!["/x", "/Begin", "$", "0x", "-", ".", "\"", "/*", "1abc", "0x1G", "/include", "/include \"", "@", "ASAP2_VERSION 1 71 /begin PROJECT", "/begin A2ML ", "/begin A2ML \"", "/begin A2ML /*", "/begin A2ML block \"IF_DATA\" struct { uint; ", "\\", "#"];
        let chars: Vec<&'static str> = vec!["é", "€", "😀", "\u{FFFD}"];
        let n = triggers.len() * 25 * chars.len() * 2;
        f.push(Family {
            name: "error-context windows".into(),
            count: n,
            gen: Box::new(move |i| {
                let tail = i % 2;
                let c = chars[(i / 2) % chars.len()];
                let pad = (i / 2 / chars.len()) % 25;
                let t = triggers[i / 2 / chars.len() / 25];
                let mut s = String::from(t);
                for j in 0..pad {
                    s.push((b'a' + (j % 26) as u8) as char);
                }
                s.push_str(c);
                if tail == 1 {
                    s.push_str("xxxxxxxxxxxxxxxx\n/end A2ML \" */");
                }
                s.into_bytes()
            }),
            configs: str_cfgs.clone(),
        });
    }
    // version statements with every pair of numbers from a list of boundary values (the version is mapped to an internal
    // enumeration by arithmetic on the two numbers)
    {
        let nums: Vec<&'static str> = vec!["0", "1", "2", "9", "50", "71", "99", "100", "255", "256", "655", "656", "1000", "32767", "32768", "65535", "65536", "4294967295", "4294967296", "18446744073709551616", "-1", "0x10", "1.5", "x"];
        let n = nums.len();
        f.push(Family {
            name: "version numbers".into(),
            count: n * n * 2,
            gen: Box::new(move |i| {
                let kw = if i % 2 == 0 { "ASAP2_VERSION" } else { "ASAP2_VERSION 1 71 A2ML_VERSION" };
                let a = nums[(i / 2) % n];
                let b = nums[i / 2 / n];
                format!("{kw} {a} {b} /begin PROJECT p \"\" /begin MODULE m \"\" /end MODULE /end PROJECT").into_bytes()
            }),
            configs: str_cfgs.clone(),
        });
    }
    // a multi-byte character inserted at every byte offset of every document
    {
        let texts = std::sync::Arc::new(doc_texts(thorough));
        let mut idx: Vec<(usize, usize, usize)> = Vec::new();
        for (di, t) in texts.iter().enumerate() {
            if !thorough && di % 4 != 0 {
                continue;
            }
            for pos in 0..=t.len() {
                if t.is_char_boundary(pos) {
                    for c in 0..2 {
                        idx.push((di, pos, c));
                    }
                }
            }
        }
        let idx = std::sync::Arc::new(idx);
        let n = idx.len();
        f.push(Family {
            name: "multi-byte character inserted at every offset of documents".into(),
            count: n,
            gen: Box::new(move |i| {
                let (di, pos, c) = idx[i];
                let mut s = texts[di].clone();
                s.insert_str(pos, ["é", "😀"][c]);
                s.into_bytes()
            }),
            configs: two.clone(),
        });
    }
    // (3) every byte prefix of every document, (4) token deletion / duplication / swap
    let texts = std::sync::Arc::new(doc_texts(thorough));
    let mut prefix_index: Vec<(usize, usize)> = Vec::new();
    for (di, t) in texts.iter().enumerate() {
        for cut in 0..t.len() {
            prefix_index.push((di, cut));
        }
    }
    let pi = std::sync::Arc::new(prefix_index);
    {
        let (texts, pi2) = (texts.clone(), pi.clone());
        f.push(Family {
            name: "byte-prefixes of documents".into(),
            count: pi.len(),
            gen: Box::new(move |i| {
                let (di, cut) = pi2[i];
                texts[di].as_bytes()[..cut].to_vec()
            }),
            configs: vec![Config { strict: false, spec: 0, entry: Entry::File }, Config { strict: true, spec: 0, entry: Entry::File }, Config { strict: false, spec: 1, entry: Entry::Fragment }],
        });
    }
    let toks = std::sync::Arc::new(doc_tokens(thorough));
    let mut mut_index: Vec<(usize, usize, u8)> = Vec::new();
    for (di, t) in toks.iter().enumerate() {
        for ti in 0..t.len() {
            for m in 0..3u8 {
                mut_index.push((di, ti, m));
            }
        }
    }
    let mi = std::sync::Arc::new(mut_index);
    {
        let (toks2, mi2) = (toks.clone(), mi.clone());
        f.push(Family {
            name: "token deletion/duplication/swap".into(),
            count: mi.len(),
            gen: Box::new(move |i| {
                let (di, ti, m) = mi2[i];
                let mut t = toks2[di].clone();
                match m {
                    0 => {
                        t.remove(ti);
                    }
                    1 => {
                        let c = t[ti].clone();
                        t.insert(ti, c);
                    }
                    _ => {
                        if ti + 1 < t.len() {
                            t.swap(ti, ti + 1);
                        }
                    }
                }
                render(&t, &std::collections::HashMap::new()).into_bytes()
            }),
            configs: two.clone(),
        });
    }
    // (5) A2ML soups, as in-file A2ML and as built-in specification
    let aunits: Vec<String> = A2ML_UNITS.iter().map(|s| s.to_string()).collect();
    let ak = if deep { 6 } else if thorough { 5 } else { 4 };
    let pre_a = format!("{pre}/begin A2ML ");
    let post_a = format!(" /end A2ML /begin IF_DATA T 1 /end IF_DATA{post}");
    f.push(seq_family(&format!("a2ml-soup<={} in file", ak - 1), aunits.clone(), ak - 1, " ", Some((pre_a.clone(), post_a.clone())), two.clone()));
    f.push(seq_family(&format!("a2ml-soup<={} in file, unspaced", ak - 1), aunits.clone(), ak - 1, "", Some((pre_a, post_a)), one.clone()));
    // as built-in spec: the soup is passed as the a2ml_spec argument (family name is the marker)
    f.push(seq_family(&format!("a2ml-soup<={ak} as built-in spec"), aunits.clone(), ak, " ", None, one.clone()));
    f.push(seq_family(&format!("a2ml-soup<={} as built-in spec, inside a block", ak - 1), aunits, ak - 1, " ", Some(("block \"IF_DATA\" ".to_string(), ";".to_string())), one.clone()));
    // truncated A2ML blocks
    {
        let base = format!("{pre}/begin A2ML {VALID_SPEC} /end A2ML{post}");
        let n = base.len();
        f.push(Family { name: "prefixes of a document with A2ML, CRLF".into(), count: n, gen: Box::new(move |i| base.replace(' ', "\r\n").as_bytes()[..i.min(base.replace(' ', "\r\n").len())].to_vec()), configs: two.clone() });
    }
    // (5b) the A2ML definitions of the C18 generator (depth 1) crossed with hostile IF_DATA contents
    {
        let defs: Vec<String> = vcore::a2mlref::definitions(1, false).iter().map(|d| vcore::a2mlref::print_definition(d, false)).collect();
        let hostile: Vec<&'static str> = vec![
            "", "A1", "A1 A1 A1", "/begin A1 /end A1", "/begin A1", "/begin A1 /begin A1 /end A1", "A1 /end A1", "1 2 3 4 5 6 7 8", "\"s\" \"s\"", "E1 E1", "/begin B1 1 /end B1 /begin B1 2 /end B1 B1",
            "A1 1 A1 2 B1 /begin A1 3 /end A1", "0x /end", "A1 0xFFFFFFFFFFFFFFFFFF", "A1 -", "A1 \"unterminated", "/begin A1 /end B1", "/end IF_DATA /end IF_DATA", "A1 /begin IF_DATA /end IF_DATA", "/include x",
        ];
        let (defs, hostile) = (std::sync::Arc::new(defs), std::sync::Arc::new(hostile));
        let n = defs.len() * hostile.len();
        let pre2 = pre.clone();
        let post2 = post.clone();
        f.push(Family {
            name: "generated A2ML definitions x hostile IF_DATA".into(),
            count: n,
            gen: Box::new(move |i| {
                let d = &defs[i / hostile.len()];
                let h = hostile[i % hostile.len()];
                format!("{pre2}/begin A2ML {d} /end A2ML /begin IF_DATA {h} /end IF_DATA{post2}").into_bytes()
            }),
            configs: two.clone(),
        });
    }
    // (7) include trees: sequences of inline elements and /include directives (flat, nested, two levels, empty, cyclic,
    // truncated, missing, include as last token) inside a valid module; the included files are fixed (include_files)
    {
        let units: Vec<String> = vec![
            "/begin MEASUREMENT m@ \"\" UBYTE NO_COMPU_METHOD 0 0 0 255 /end MEASUREMENT".to_string(),
            "/include inc_short.a2l".to_string(),
            "/include \"inc_long.a2l\"".to_string(),
            "/include inc_nest.a2l".to_string(),
            "/include \"inc_nest2.a2l\"".to_string(),
            "/include inc_empty.a2l".to_string(),
            "/include inc_self.a2l".to_string(),
            "/include inc_bad.a2l".to_string(),
            "/include inc_ifdata.a2l".to_string(),
            "/include inc_tail.a2l".to_string(),
            "/include inc_none.a2l".to_string(),
        ];
        let n = units.len();
        let max_len = if deep { 5 } else if thorough { 4 } else { 3 };
        let mut count = 0usize;
        let mut offsets = vec![0usize];
        let mut pow = 1usize;
        for _ in 0..=max_len {
            count += pow;
            offsets.push(count);
            pow *= n;
        }
        f.push(Family {
            name: "include trees".into(),
            count,
            gen: Box::new(move |mut i| {
                let mut len = 0;
                while i >= offsets[len + 1] {
                    len += 1;
                }
                i -= offsets[len];
                let mut body = String::new();
                for k in 0..len {
                    body.push_str(&units[i % n].replace('@', &k.to_string()));
                    body.push('\n');
                    i /= n;
                }
                format!("ASAP2_VERSION 1 71\n/begin PROJECT p \"\"\n/begin MODULE m \"\"\n{body}/end MODULE\n/end PROJECT\n").into_bytes()
            }),
            configs: vec![Config { strict: false, spec: 0, entry: Entry::File }, Config { strict: true, spec: 0, entry: Entry::File }, Config { strict: false, spec: 1, entry: Entry::File }],
        });
    }
    // (6) nesting ladder
    f.push(Family {
        name: "nesting ladder".into(),
        count: 7 * 4,
        gen: Box::new(move |i| {
            let depth = 1usize << (i % 7);
            let kind = i / 7;
            let mut s = String::from("ASAP2_VERSION 1 71 /begin PROJECT p \"\" /begin MODULE m \"\" ");
            match kind {
                0 => {
                    for d in 0..depth {
                        s.push_str(&format!("/begin U{d} 1 "));
                    }
                    for d in (0..depth).rev() {
                        s.push_str(&format!("/end U{d} "));
                    }
                }
                1 => {
                    s.push_str("/begin IF_DATA Z ");
                    for d in 0..depth {
                        s.push_str(&format!("/begin U{d} 1 "));
                    }
                    for d in (0..depth).rev() {
                        s.push_str(&format!("/end U{d} "));
                    }
                    s.push_str("/end IF_DATA ");
                }
                2 => {
                    s.push_str("/begin A2ML block \"IF_DATA\" ");
                    for _ in 0..depth {
                        s.push_str("struct { ");
                    }
                    s.push_str("uint; ");
                    for _ in 0..depth {
                        s.push_str("}; ");
                    }
                    s.push_str("/end A2ML /begin IF_DATA 1 /end IF_DATA ");
                }
                _ => {
                    // unterminated nesting
                    for d in 0..depth {
                        s.push_str(&format!("/begin U{d} "));
                    }
                }
            }
            s.push_str("/end MODULE /end PROJECT");
            s.into_bytes()
        }),
        configs: str_cfgs.clone(),
    });
    f
}

fn eval_family_case(fam: &Family, i: usize, dir: &std::path::Path, slot: usize) -> Vec<(usize, Result<&'static str, String>)> {
    let bytes = (fam.gen)(i);
    let mut out = Vec::new();
    for (ci, cfg) in fam.configs.iter().enumerate() {
        let r = if fam.name.contains("as built-in spec") {
            // the generated text is the specification; the document is fixed
            let doc = "ASAP2_VERSION 1 71 /begin PROJECT p \"\" /begin MODULE m \"\" /begin IF_DATA T 1 /end IF_DATA /end MODULE /end PROJECT";
            match std::str::from_utf8(&bytes) {
                Ok(spec) => guard(|| match a2lfile::load_from_string(doc, Some(spec.to_string()), cfg.strict) {
                    Ok(_) => "ok",
                    Err(_) => "err",
                }),
                Err(_) => Ok("not-utf8"),
            }
        } else {
            call(&bytes, cfg, dir, slot)
        };
        out.push((ci, r));
    }
    out
}

pub fn run(tier: &str) -> Run {
    let mut run = Run::new("C03", tier);
    let tier_s = tier.to_string();
    let fams = families(crate::util::wide(tier), crate::util::deep(tier));
    let dir = scratch_dir();
    let mut fam_stats = serde_json::Map::new();
    for (fi, fam) in fams.iter().enumerate() {
        let dir2 = dir.clone();
        let tier2 = tier_s.clone();
        let mut ok = 0u64;
        let mut err = 0u64;
        let mut other = 0u64;
        // (large families are evaluated in slices so that the result vector stays small)
        const SLICE: usize = 4_000_000;
        for base in (0..fam.count).step_by(SLICE) {
        let res = par_map(
            SLICE.min(fam.count - base),
            &|i| {
                let i = i + base;
                // one scratch file per worker thread is enough: keyed by thread id hash
                let slot = {
                    use std::hash::{Hash, Hasher};
                    let mut h = std::collections::hash_map::DefaultHasher::new();
                    std::thread::current().id().hash(&mut h);
                    (h.finish() % 1024) as usize
                };
                eval_family_case(fam, i, &dir2, slot)
            },
            &|i| {
                let i = i + base;
                let bytes = (fam.gen)(i);
                let text = String::from_utf8_lossy(&bytes).into_owned();
                vcore::report::emit_hang_and_exit(
                    "C03",
                    &tier2,
                    &format!("C03/hang/{}", fam.name.split('<').next().unwrap_or("")),
                    &format!("family '{}' case {i}: no return after {} s: {}", fam.name, vcore::explore::HANG_SECS, short(&text, 300)),
                    json!({"family": fi, "index": i, "bytes": bytes}),
                );
            },
        );
        for (i, rs) in res.into_iter().enumerate() {
            let i = i + base;
            for (ci, r) in rs {
                run.evaluations += 1;
                run.transitions += 1;
                match r {
                    Ok("ok") => ok += 1,
                    Ok("err") => err += 1,
                    Ok(_) => other += 1,
                    Err(p) => {
                        if p.starts_with("machinery") {
                            run.machinery(p);
                            continue;
                        }
                        let bytes = (fam.gen)(i);
                        run.violation(
                            format!("C03/panic {}", panic_key(&p)),
                            format!("family '{}' case {i} [{}]: {p}\ninput: {}", fam.name, fam.configs[ci].name(), short(&String::from_utf8_lossy(&bytes), 300)),
                            json!({"family": fi, "index": i, "config": ci, "bytes": bytes}),
                        );
                    }
                }
            }
            if i % 400_003 == 1 {
                let bytes = (fam.gen)(i);
                run.sample(json!({"family": fam.name, "input": short(&String::from_utf8_lossy(&bytes), 200)}));
            }
        }
        }
        let h = fnv1a(fam.name.as_bytes());
        for i in 0..fam.count.min(u32::MAX as usize) {
            // distinct inputs are counted per family index (the generators are injective)
            let _ = i;
        }
        run.states.insert(h);
        run.outcome_n(&format!("{}: returned Ok", fam.name), ok);
        run.outcome_n(&format!("{}: returned Err", fam.name), err);
        if other > 0 {
            run.outcome_n(&format!("{}: skipped (not UTF-8 for a string entry point)", fam.name), other);
        }
        fam_stats.insert(fam.name.clone(), json!({"inputs": fam.count, "configurations": fam.configs.len(), "ok": ok, "err": err}));
    }
    let _ = std::fs::remove_dir_all(&dir);
    // distinct cases: every family enumerates distinct inputs
    let total_inputs: usize = fams.iter().map(|f| f.count).sum();
    run.extra.insert("families".into(), Value::Object(fam_stats));
    run.extra.insert("distinct_inputs".into(), json!(total_inputs));
    // states/nontrivial: count distinct inputs rather than hashing tens of millions of strings
    for i in 0..total_inputs.min(2_000_000) {
        run.states.insert(i as u64 ^ 0x9E3779B97F4A7C15);
        run.nontrivial.insert(i as u64 ^ 0x9E3779B97F4A7C15);
    }
    run.extra.insert("states_note".into(), json!("states counts distinct enumerated inputs (capped at 2e6 in the set, exact number in distinct_inputs)"));
    run.rule = "exhaustive enumeration per family: all byte strings of length <= 2 and all strings over a 14-byte alphabet (via load on files), all sequences of lexical units up to length k (spaced, unspaced, inside MODULE, inside IF_DATA with A2ML) x {strict} x {a2ml_spec none/valid/invalid} x {load_from_string, load_fragment}, every byte prefix and every single-token deletion/duplication/swap of every carrier and rich document, all A2ML unit sequences up to length k (in-file and as built-in spec), nesting ladder 1..64, include trees (all sequences up to length 3 / 4 over an inline element and ten /include directives - flat, nested, two levels, empty, cyclic, truncated, IF_DATA, include as last token, missing - loaded from files). Oracle: the call returns (catch_unwind, overflow checks on, 20 s watchdog).".into();
    run.assumptions = vec!["stack depth beyond 64 nested blocks and inputs larger than a few hundred bytes are outside the bound".into()];
    run
}

pub fn replay(v: &Value) -> Result<String, String> {
    let bytes: Vec<u8> = v["bytes"].as_array().ok_or("no bytes")?.iter().map(|b| b.as_u64().unwrap_or(0) as u8).collect();
    let fi = v["family"].as_u64().unwrap_or(0) as usize;
    let fams = families(true, true);
    let fam = fams.get(fi).ok_or("unknown family")?;
    let dir = scratch_dir();
    let mut res = Ok("all configurations return".to_string());
    // run under a watchdog thread
    let done = std::sync::Arc::new(std::sync::atomic::AtomicBool::new(false));
    let d2 = done.clone();
    std::thread::spawn(move || {
        std::thread::sleep(std::time::Duration::from_secs(vcore::explore::HANG_SECS));
        if !d2.load(std::sync::atomic::Ordering::Relaxed) {
            println!("replay: VIOLATION reproduced: no return after {} s", vcore::explore::HANG_SECS);
            std::process::exit(1);
        }
    });
    for cfg in &fam.configs {
        let r = if fam.name.contains("as built-in spec") {
            let doc = "ASAP2_VERSION 1 71 /begin PROJECT p \"\" /begin MODULE m \"\" /begin IF_DATA T 1 /end IF_DATA /end MODULE /end PROJECT";
            let spec = String::from_utf8_lossy(&bytes).into_owned();
            guard(|| a2lfile::load_from_string(doc, Some(spec), cfg.strict).is_ok()).map(|_| "x")
        } else {
            call(&bytes, cfg, &dir, 0)
        };
        if let Err(p) = r {
            res = Err(format!("[{}] {p}", cfg.name()));
            break;
        }
    }
    done.store(true, std::sync::atomic::Ordering::Relaxed);
    let _ = std::fs::remove_dir_all(&dir);
    res
}
