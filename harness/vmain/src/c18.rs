//! C18 — IF_DATA is interpreted exactly as the applicable A2ML definition says.
//! "programs" = A2ML definitions enumerated from a grammar-based generator; for each one all
//! conforming instances (bounded) and their single-token deviations are run through the real loader.

use crate::util::*;
use serde_json::{json, Value};
use vcore::a2mlref::*;
use vcore::explore::{fnv1a, guard, par_map};
use vcore::reftok::{self, Kind, NumVal};
use vcore::report::Run;

pub use vcore::ifdoc::{doc_text, payloads_of, ptok_kind, tok_equal};

fn has_str(t: &Ty) -> bool {
    match t {
        Ty::Str(_) => true,
        Ty::Array(i, _) | Ty::Seq(i) => has_str(i),
        Ty::Struct(ms) => ms.iter().any(has_str),
        Ty::TaggedStruct(items) | Ty::TaggedUnion(items) => items.iter().any(|i| i.item.as_ref().map_or(false, has_str)),
        _ => false,
    }
}

fn has_float(t: &Ty) -> bool {
    match t {
        Ty::Scalar(Sc::Float) => true,
        Ty::Array(i, _) | Ty::Seq(i) => has_float(i),
        Ty::Struct(ms) => ms.iter().any(has_float),
        Ty::TaggedStruct(items) | Ty::TaggedUnion(items) => items.iter().any(|i| i.item.as_ref().map_or(false, has_float)),
        _ => false,
    }
}

#[derive(Debug, Clone, Copy, PartialEq)]
pub enum Expect {
    Valid,
    Invalid,
    DontCare,
}

pub struct Job {
    pub def_idx: usize,
    pub def_text: String,
    pub float_tol: bool,
    /// the definition has a char[n] member: in non-strict mode the library reads an identifier in
    /// such a position as the string it stands for (documented leniency), also when a strict reading
    /// would take it as the next tag
    pub has_str: bool,
    /// 0 = in file, 1 = built-in, 2 = both
    pub mode: u8,
    pub payload: Vec<PTok>,
    pub expect: Expect,
    pub kind: &'static str,
    /// a block comment written in front of payload token i (i = len: behind the last one)
    pub comment_at: Option<usize>,
}

pub fn eval(j: &Job) -> Result<&'static str, (String, String)> {
    let payload = match j.comment_at {
        None => render_payload(&j.payload),
        Some(at) => {
            let mut parts: Vec<String> = j.payload.iter().map(|t| t.text()).collect();
            parts.insert(at.min(parts.len()), "/* c */".to_string());
            parts.join(" ")
        }
    };
    let text = doc_text(if j.mode != 1 { Some(&j.def_text) } else { None }, &[payload.clone()]);
    let spec = if j.mode != 0 { Some(j.def_text.as_str()) } else { None };
    let v = |o: &str, w: String| Err((o.to_string(), w));
    let (f, _log) = match load(&text, spec, false) {
        Loaded::Ok(f, l) => (f, l),
        Loaded::Err(e) => {
            return match j.expect {
                Expect::DontCare => Ok("dont-care: rejected"),
                _ => v("load-fails", format!("a structurally balanced IF_DATA makes the load fail: {e}")),
            }
        }
        Loaded::Panic(p) => return v("panic", p),
    };
    let m = &f.project.module[0];
    if m.if_data.len() != 1 {
        return v("machinery", format!("{} IF_DATA blocks loaded", m.if_data.len()));
    }
    let valid = m.if_data[0].ifdata_valid;
    match j.expect {
        Expect::Valid if !valid => return v("conforming-flagged-invalid", format!("payload [{payload}] conforms to the definition but ifdata_valid is false")),
        Expect::Invalid if valid => return v("nonconforming-flagged-valid", format!("payload [{payload}] does not conform to the definition under any reading but ifdata_valid is true")),
        _ => {}
    }
    // conforming content is conforming in strict mode as well (there a diagnostic is an error for the attempt), and gives no
    // diagnostic in either mode
    if j.expect == Expect::Valid {
        // (with char[n] members the non-strict reader tries an identifier as a string and logs that: documented leniency)
        if let Some(e) = _log.first().filter(|_| !j.has_str) {
            return v("conforming-content-diagnosed", format!("payload [{payload}] conforms to the definition, non-strict loading reports: {e}"));
        }
        match load(&text, spec, true) {
            Loaded::Ok(fs, ls) => {
                if !fs.project.module[0].if_data.first().map(|i| i.ifdata_valid).unwrap_or(false) {
                    return v("conforming-flagged-invalid", format!("payload [{payload}] conforms to the definition but ifdata_valid is false in strict mode"));
                }
                if let Some(e) = ls.first() {
                    return v("conforming-content-diagnosed", format!("payload [{payload}] conforms to the definition, strict loading reports: {e}"));
                }
            }
            Loaded::Err(e) => return v("load-fails", format!("conforming payload [{payload}] makes strict loading fail: {e}")),
            Loaded::Panic(p) => return v("panic", p),
        }
    }
    // values survive load and write
    let t1 = write(&f).map_err(|p| ("panic".to_string(), p))?;
    let pl = payloads_of(&t1).map_err(|e| ("output-invalid".to_string(), e))?;
    let want: Vec<(Kind, String)> = j.payload.iter().map(ptok_kind).collect();
    let got = pl.first().cloned().unwrap_or_default();
    let same = want.len() == got.len() && want.iter().zip(got.iter()).all(|(a, b)| tok_equal(a, b, j.float_tol, j.expect == Expect::DontCare || j.has_str));
    if !same {
        return v(
            if valid { "valid-payload-changed" } else { "invalid-payload-changed" },
            format!("payload [{payload}] is written back as [{}]", got.iter().map(|x| x.1.clone()).collect::<Vec<_>>().join(" ")),
        );
    }
    // reload: equal model, same validity
    match load(&t1, spec, false) {
        Loaded::Ok(f2, _) => {
            // (a comment in front of an identifier switches off the library's lenient reading "identifier in place of a
            // string", so with char[n] members the comment-free output may be read differently, with the same tokens
            // and the same validity: model equality is not demanded for that combination)
            // (.. and content that does not conform as written but was accepted with a logged "identifier in place of a string" is
            // written back with that word quoted, after which a string repetition in front of it reads it as one more item: the
            // lenient reading of non-conforming content, not C18's subject)
            let lenient_reading = j.has_str && j.expect != Expect::Valid && !_log.is_empty();
            if f2 != f && !(j.comment_at.is_some() && j.has_str) && !lenient_reading {
                return v("reload-differs", format!("payload [{payload}]: the written file loads to a different model"));
            }
            if f2.project.module[0].if_data[0].ifdata_valid != valid && !lenient_reading {
                return v("reload-validity-differs", format!("payload [{payload}]: validity changes after write and reload"));
            }
        }
        Loaded::Err(e) => return v("reload-fails", format!("payload [{payload}]: {e}")),
        Loaded::Panic(p) => return v("panic", p),
    }
    Ok(match (j.expect, valid) {
        (Expect::Valid, _) => "conforming: valid, preserved",
        (Expect::Invalid, _) => "non-conforming: invalid, preserved",
        (Expect::DontCare, true) => "dont-care: valid",
        (Expect::DontCare, false) => "dont-care: invalid",
    })
}

fn deviations(inst: &[PTok]) -> Vec<(Vec<PTok>, &'static str)> {
    let mut out = Vec::new();
    let alts = [PTok::Num("1".into()), PTok::Num("1.5".into()), PTok::Num("70000".into()), PTok::Str("\"zz\"".into()), PTok::Ident("QQ".into()), PTok::Str("\"much too long\"".into()), PTok::Num("3.5e38".into())];
    for i in 0..inst.len() {
        let mut d = inst.to_vec();
        d.remove(i);
        out.push((d, "delete"));
        let mut d = inst.to_vec();
        d.insert(i, inst[i].clone());
        out.push((d, "duplicate"));
        for a in &alts {
            if std::mem::discriminant(a) == std::mem::discriminant(&inst[i]) && a.text() == inst[i].text() {
                continue;
            }
            if matches!(inst[i], PTok::Begin | PTok::End) {
                continue;
            }
            let mut d = inst.to_vec();
            d[i] = a.clone();
            out.push((d, "replace"));
        }
    }
    // a block written as keyword item: /begin TAG .. /end TAG -> TAG ..
    for i in 0..inst.len() {
        if inst[i] != PTok::Begin {
            continue;
        }
        let mut depth = 0i32;
        for j in i..inst.len() {
            match inst[j] {
                PTok::Begin => depth += 1,
                PTok::End => {
                    depth -= 1;
                    if depth == 0 {
                        let mut d = inst.to_vec();
                        if j + 1 < d.len() {
                            d.remove(j + 1);
                        }
                        d.remove(j);
                        d.remove(i);
                        out.push((d, "unblock"));
                        break;
                    }
                }
                _ => {}
            }
        }
    }
    // a keyword item written as block: TAG v1 .. vk -> /begin TAG v1 .. vk /end TAG (k = 0..4, not across /begin or /end)
    for i in 0..inst.len() {
        let PTok::Ident(tag) = &inst[i] else { continue };
        if i > 0 && matches!(inst[i - 1], PTok::Begin | PTok::End) {
            continue;
        }
        for k in 0..=4usize {
            if i + k >= inst.len() || inst[i + 1..=i + k].iter().any(|t| matches!(t, PTok::Begin | PTok::End)) {
                break;
            }
            let mut d = inst[..i].to_vec();
            d.push(PTok::Begin);
            d.extend(inst[i..=i + k].iter().cloned());
            d.push(PTok::End);
            d.push(PTok::Ident(tag.clone()));
            d.extend(inst[i + k + 1..].iter().cloned());
            out.push((d, "block"));
        }
    }
    // an extra token at the end
    for a in &alts[..2] {
        let mut d = inst.to_vec();
        d.push(a.clone());
        out.push((d, "append"));
    }
    out
}

fn cleanup_check(def_text: &str, mode: u8, good: &[Vec<PTok>], bad: &[PTok]) -> Result<(), (String, String)> {
    let payloads: Vec<String> = vec![render_payload(&good[0]), render_payload(bad), render_payload(&good[good.len() - 1])];
    let text = doc_text(if mode != 1 { Some(def_text) } else { None }, &payloads);
    let spec = if mode != 0 { Some(def_text) } else { None };
    let mut f = match load(&text, spec, false) {
        Loaded::Ok(f, _) => f,
        Loaded::Err(e) => return Err(("load-fails".into(), format!("{e}"))),
        Loaded::Panic(p) => return Err(("panic".into(), p)),
    };
    let flags: Vec<bool> = f.project.module[0].if_data.iter().map(|i| i.ifdata_valid).collect();
    if flags != vec![true, false, true] {
        return Err(("cleanup-precondition".into(), format!("validity flags of [valid, invalid, valid] blocks are {flags:?}")));
    }
    let keep: Vec<a2lfile::IfData> = f.project.module[0].if_data.iter().filter(|i| i.ifdata_valid).cloned().collect();
    guard(|| f.ifdata_cleanup()).map_err(|p| ("panic".to_string(), p))?;
    if f.project.module[0].if_data != keep {
        return Err(("cleanup-wrong-set".into(), format!("ifdata_cleanup() left {} blocks, expected exactly the 2 valid ones", f.project.module[0].if_data.len())));
    }
    Ok(())
}


// ------------------------------------------------------------------------------------------------
// ifdata_cleanup() on every list that can hold IF_DATA blocks: all patterns of valid / invalid blocks

pub const CLEANUP_DEF: &str = "block \"IF_DATA\" taggedunion if_data {\n  \"ZZ\" uint;\n  \"YY\" struct { uint; char[4]; };\n};";
const CLEANUP_PAYLOADS: [(&str, bool); 4] = [("ZZ 1", true), ("YY 2 \"ab\"", true), ("ZZ x", false), ("QQ 1 /begin R 2 /end R", false)];

pub struct CleanupCase {
    pub label: String,
    pub parent: String,
    /// 0 = definition in the file, 1 = built-in, 2 = no definition at all (every block is invalid)
    pub mode: u8,
    pub text: String,
    /// the same document without the blocks that must be removed
    pub expected_text: String,
    pub pattern: Vec<usize>,
}

pub fn cleanup_cases(g: &vcore::grammar::Grammar, thorough: bool) -> Vec<CleanupCase> {
    use vcore::docgen::*;
    let mut out = Vec::new();
    let parents: Vec<String> = g.all_tags().into_iter().filter(|t| g.get_elem(t).map(|e| e.refs.iter().any(|r| r.tag == "IF_DATA" && r.in_version(5))).unwrap_or(false)).collect();
    let maxlen = if thorough { 4 } else { 3 };
    let mut patterns: Vec<Vec<usize>> = Vec::new();
    let mut frontier: Vec<Vec<usize>> = vec![vec![]];
    for _ in 0..maxlen {
        let mut next = Vec::new();
        for f in &frontier {
            for k in 0..CLEANUP_PAYLOADS.len() {
                let mut t = f.clone();
                t.push(k);
                next.push(t);
            }
        }
        patterns.extend(next.iter().cloned());
        frontier = next;
    }
    for parent in &parents {
        for mode in 0..3u8 {
            for pat in &patterns {
                let build = |keep_all: bool| -> String {
                    let mut gen = Gen::new(g);
                    let (mut doc, path) = gen.carrier_v(parent, 5, 1);
                    // the MODULE on the path
                    let mut mp = Vec::new();
                    for i in 0..=path.len() {
                        if doc.root.at(&path[..i]).tag == "MODULE" {
                            mp = path[..i].to_vec();
                        }
                    }
                    if mode == 0 {
                        gen.reset();
                        let mut a = gen.min_node("A2ML", 5, 0);
                        a.raw = Some(CLEANUP_DEF.to_string());
                        doc.root.at_mut(&mp).children.insert(0, a);
                    }
                    let mut path2 = path.clone();
                    if mode == 0 && path.len() > mp.len() {
                        // the A2ML block was inserted in front of the module's children
                        path2[mp.len()] += 1;
                    }
                    for k in pat {
                        let (pl, valid) = CLEANUP_PAYLOADS[*k];
                        if !keep_all && !(valid && mode != 2) {
                            continue;
                        }
                        gen.reset();
                        let mut n = gen.min_node("IF_DATA", 5, 0);
                        n.raw = Some(pl.to_string());
                        doc.root.at_mut(&path2).children.push(n);
                    }
                    doc.text()
                };
                out.push(CleanupCase { label: format!("{parent} with IF_DATA blocks {pat:?}, definition {}", ["in the file", "built-in", "absent"][mode as usize]), parent: parent.clone(), mode, text: build(true), expected_text: build(false), pattern: pat.clone() });
            }
        }
    }
    out
}

pub fn eval_cleanup(c: &CleanupCase) -> Result<&'static str, (String, String)> {
    let spec = if c.mode == 1 { Some(CLEANUP_DEF) } else { None };
    let v = |o: &str, w: String| Err((o.to_string(), w));
    let mut f = match load(&c.text, spec, false) {
        Loaded::Ok(f, _) => f,
        Loaded::Err(e) => return v("machinery", format!("document does not load: {e}\n{}", short(&c.text, 600))),
        Loaded::Panic(p) => return v("panic", p),
    };
    let want = match load(&c.expected_text, spec, false) {
        Loaded::Ok(f, _) => f,
        _ => return v("machinery", "expected document does not load".into()),
    };
    guard(std::panic::AssertUnwindSafe(|| f.ifdata_cleanup())).map_err(|p| ("panic".to_string(), p))?;
    if f != want {
        let t = write(&f).unwrap_or_default();
        let n_have = t.matches("/begin IF_DATA").count();
        let n_want = c.expected_text.matches("/begin IF_DATA").count();
        return v("cleanup-wrong-set", format!("after ifdata_cleanup() the model is not the model of the document without the invalid blocks ({n_have} IF_DATA blocks left, {n_want} expected)"));
    }
    let t1 = write(&f).map_err(|p| ("panic".to_string(), p))?;
    guard(std::panic::AssertUnwindSafe(|| f.ifdata_cleanup())).map_err(|p| ("panic".to_string(), p))?;
    if write(&f).map_err(|p| ("panic".to_string(), p))? != t1 {
        return v("cleanup-not-idempotent", "a second ifdata_cleanup() changes the output".into());
    }
    match load(&t1, spec, false) {
        Loaded::Ok(f2, _) if f2 == f => {}
        Loaded::Ok(..) => return v("reload-differs", "the cleaned file loads to a different model".into()),
        Loaded::Err(e) => return v("reload-fails", format!("{e}")),
        Loaded::Panic(p) => return v("panic", p),
    }
    Ok("ifdata_cleanup patterns: exactly the invalid blocks removed")
}

pub struct DefPlan {
    pub idx: usize,
    pub top: Ty,
    pub named: bool,
    /// 0 = none; 1..4 = the first nested enum / struct / taggedstruct / taggedunion is declared by name first
    pub hoist: usize,
}

pub fn def_text_of(p: &DefPlan) -> String {
    if p.hoist > 0 {
        if let Some(t) = print_definition_hoisted(&p.top, p.hoist) {
            // every other definition: declarations of the three other kinds under the same name around the hoisted one (each kind
            // has a name space of its own; the reference has to find the declaration of its kind)
            if p.idx % 2 == 0 {
                let decoys = ["", "enum Hoisted { \"DECOY_E\" = 1 };\n", "struct Hoisted { uint; };\n", "taggedstruct Hoisted { \"DECOY_TS\"; };\n", "taggedunion Hoisted { \"DECOY_TU\" uint; };\n"];
                let before: String = (1..5).filter(|k| *k != p.hoist && k % 2 == 1).map(|k| decoys[k]).collect();
                let after: String = (1..5).filter(|k| *k != p.hoist && k % 2 == 0).map(|k| decoys[k]).collect();
                if let Some(pos) = t.find(";\nblock \"IF_DATA\"") {
                    return format!("{before}{}{after}{}", &t[..pos + 2], &t[pos + 2..]);
                }
            }
            return t;
        }
    }
    print_definition(&p.top, p.named)
}

pub fn plans(thorough: bool) -> Vec<DefPlan> {
    let mut defs = definitions(3, true);
    if thorough {
        // depth 4 over a single leaf type
        let known: std::collections::HashSet<String> = defs.iter().map(|d| print_definition(d, false)).collect();
        defs.extend(members_over(4, &[Ty::Scalar(Sc::UInt)]).into_iter().filter(|d| !known.contains(&print_definition(d, false))));
    }
    let mut out = Vec::new();
    for (i, d) in defs.into_iter().enumerate() {

        let nameable = matches!(d, Ty::Struct(_) | Ty::TaggedStruct(_) | Ty::TaggedUnion(_) | Ty::Enum(_));
        // named variants: the top-level type declared by name, or the first nested type of one kind
        if nameable && (i < 40 || i % 4 == 1) {
            out.push(DefPlan { idx: i, named: true, hoist: 0, top: d.clone() });
        }
        let h = 1 + i % 4;
        if (i < 400 || i % 5 == 2) && print_definition_hoisted(&d, h).is_some() {
            out.push(DefPlan { idx: i, named: false, hoist: h, top: d.clone() });
        }
        out.push(DefPlan { idx: i, named: false, hoist: 0, top: d });
    }
    // (no thinning: quick = every definition of depth <= 2, thorough = every definition of depth <= 3)
    // definitions outside the regular enumeration: arrays of arrays / enums / structs, sequences of arrays (all supply modes)
    for (k, d) in extra_definitions().into_iter().enumerate() {
        let idx = 900_000 + k;
        if matches!(d, Ty::Struct(_) | Ty::TaggedStruct(_) | Ty::TaggedUnion(_) | Ty::Enum(_)) {
            out.push(DefPlan { idx, named: true, hoist: 0, top: d.clone() });
        }
        for h in 1..=4 {
            if print_definition_hoisted(&d, h).is_some() {
                out.push(DefPlan { idx, named: false, hoist: h, top: d.clone() });
            }
        }
        out.push(DefPlan { idx, named: false, hoist: 0, top: d });
    }
    out
}

pub fn jobs_for(p: &DefPlan, thorough: bool) -> (Vec<Job>, Option<(Vec<Vec<PTok>>, Vec<PTok>)>) {
    let def_text = def_text_of(p);
    let float_tol = has_float(&p.top);
    let hs = has_str(&p.top);
    let cap = if thorough { 24 } else { 8 };
    let insts = instances(&p.top, cap);
    let modes: Vec<u8> = if p.idx < 60 || p.idx >= 900_000 { vec![0, 1, 2] } else { vec![(p.idx % 3) as u8] };
    let mut jobs = Vec::new();
    let mut first_bad: Option<Vec<PTok>> = None;
    // the comment family uses the first and the longest instance (repetitions with more than one member)
    let longest = insts.iter().enumerate().max_by_key(|(k, i)| (i.len(), usize::MAX - k)).map(|(k, _)| k).unwrap_or(0);
    for mode in &modes {
        for (k, inst) in insts.iter().enumerate() {
            // the enumerator is checked against the matcher: an instance that the strict matcher rejects is a generator bug
            // an IF_DATA block without any content has nothing to interpret: not judged
            let exp = if inst.is_empty() {
                Expect::DontCare
            } else if conforms(&p.top, inst, false) {
                // (conforming under the definition as written; that the library tolerates an identifier in place of a string in
                // non-strict mode must not make it read conforming content differently)
                Expect::Valid
            } else {
                Expect::DontCare
            };
            jobs.push(Job { def_idx: p.idx, def_text: def_text.clone(), float_tol, has_str: hs, mode: *mode, payload: inst.clone(), expect: exp, kind: "instance", comment_at: None });
            if (k == 0 || k == longest) && *mode == modes[0] && exp == Expect::Valid {
                for at in 0..=inst.len() {
                    jobs.push(Job { def_idx: p.idx, def_text: def_text.clone(), float_tol, has_str: hs, mode: *mode, payload: inst.clone(), expect: exp, kind: "instance+comment", comment_at: Some(at) });
                }
            }
            if k < if thorough { 3 } else { 2 } && *mode == modes[0] {
                for (d, kind) in deviations(inst) {
                    if !balanced(&d) {
                        continue;
                    }
                    let exp = if d.is_empty() {
                        Expect::DontCare
                    } else if conforms(&p.top, &d, false) && (!hs || conforms(&p.top, &d, true)) {
                        Expect::Valid
                    } else if !conforms(&p.top, &d, true) {
                        Expect::Invalid
                    } else {
                        Expect::DontCare
                    };
                    // (a tag written twice in front of a string repetition: the first one gets an empty repetition, the second one is
                    // the tolerated duplicate of a non-repeatable tag - a documented leniency, not judged)
                    let exp = if kind == "duplicate" && hs && exp == Expect::Invalid { Expect::DontCare } else { exp };
                    if exp == Expect::Invalid && first_bad.is_none() && !d.is_empty() {
                        first_bad = Some(d.clone());
                    }
                    jobs.push(Job { def_idx: p.idx, def_text: def_text.clone(), float_tol, has_str: hs, mode: *mode, payload: d, expect: exp, kind, comment_at: None });
                }
            }
        }
    }
    let nonempty: Vec<Vec<PTok>> = insts.iter().filter(|i| !i.is_empty() && conforms(&p.top, i, false) && (!hs || conforms(&p.top, i, true))).cloned().collect();
    let cleanup = match (nonempty.is_empty(), first_bad) {
        (false, Some(b)) => Some((nonempty, b)),
        _ => None,
    };
    (jobs, cleanup)
}

pub fn run(tier: &str) -> Run {
    let mut run = Run::new("C18", tier);
    let thorough = tier == "thorough";
    let tier_s = tier.to_string();
    let ps = plans(thorough);
    let mut programs = 0u64;
    const CHUNK: usize = 20_000;
    for chunk_start in (0..ps.len()).step_by(CHUNK) {
    let chunk_len = CHUNK.min(ps.len() - chunk_start);
    let res = par_map(
        chunk_len,
        &|i| {
            let i = i + chunk_start;
            let (jobs, cleanup) = jobs_for(&ps[i], thorough);
            let mut outcomes: Vec<(usize, Result<&'static str, (String, String)>)> = Vec::new();
            for (k, j) in jobs.iter().enumerate() {
                outcomes.push((k, eval(j)));
            }
            let cl = cleanup.as_ref().map(|(good, bad)| cleanup_check(&jobs[0].def_text, jobs[0].mode, good, bad));
            (jobs, outcomes, cl)
        },
        &|i| {
            let i = i + chunk_start;
            let def = def_text_of(&ps[i]);
            vcore::report::emit_hang_and_exit(
                "C18",
                &tier_s,
                "C18/hang/definition whose repeated member can match without consuming input",
                &format!("definition {}: no return after {} s: {}", ps[i].idx, vcore::explore::HANG_SECS, def),
                json!({"def_idx": ps[i].idx, "def": def, "hang": true}),
            );
        },
    );
    for (pi, (jobs, outcomes, cl)) in res.into_iter().enumerate() {
        let pi = pi + chunk_start;
        programs += 1;
        run.states.insert(fnv1a(jobs.first().map(|j| j.def_text.as_str()).unwrap_or("").as_bytes()));
        for (k, r) in outcomes {
            run.evaluations += 1;
            run.transitions += 3;
            let j = &jobs[k];
            let h = fnv1a(format!("{}|{}|{}|{:?}", j.def_text, j.mode, render_payload(&j.payload), j.comment_at).as_bytes());
            run.nontrivial.insert(h);
            match r {
                Ok(o) => run.outcome(o),
                Err((o, w)) if o == "machinery" => run.machinery(w),
                Err((o, w)) => {
                    run.outcome("violation");
                    let key = if o == "panic" { format!("C18/panic {}", vcore::explore::panic_key(&w)) } else { format!("C18/{o}/{}/{}", j.kind, shape_of(&ps[pi].top)) };
                    run.violation(key, format!("definition [{}] supplied {}: {w}", j.def_text.replace('\n', " "), ["in the file", "as built-in spec", "in the file and built-in"][j.mode as usize]), json!({"def": j.def_text, "mode": j.mode, "payload": j.payload.iter().map(|p| p.text()).collect::<Vec<_>>(), "expect": format!("{:?}", j.expect), "float_tol": j.float_tol, "has_str": j.has_str, "comment_at": j.comment_at}));
                }
            }
        }
        match cl {
            Some(Ok(())) => run.outcome("ifdata_cleanup: exactly the valid blocks remain"),
            Some(Err((o, w))) => {
                run.violation(format!("C18/{o}/{}", shape_of(&ps[pi].top)), format!("definition [{}]: {w}", jobs[0].def_text.replace('\n', " ")), json!({"def": jobs[0].def_text, "cleanup": true}));
            }
            None => {}
        }
        if pi % 1501 == 3 {
            run.sample(json!({"definition": jobs.first().map(|j| j.def_text.clone()), "instances": jobs.iter().take(3).map(|j| render_payload(&j.payload)).collect::<Vec<_>>()}));
        }
    }
    }
    run.extra.insert("programs".into(), json!(programs));
    run.extra.insert("disagreements_checked".into(), json!(run.evaluations));
    run.require("conforming: valid, preserved", 5000);
    run.require("non-conforming: invalid, preserved", 5000);
    {
        let g = crate::corpus::grammar();
        let cc = cleanup_cases(&g, thorough);
        let cres = par_map(cc.len(), &|i| eval_cleanup(&cc[i]), &|i| {
            println!("MACHINERY-ERROR: C18 cleanup pattern case hangs: {}", cc[i].label);
            std::process::exit(2);
        });
        for (i, r) in cres.into_iter().enumerate() {
            run.evaluations += 1;
            run.transitions += 6;
            run.states.insert(fnv1a(cc[i].text.as_bytes()));
            match r {
                Ok(o) => run.outcome(o),
                Err((o, w)) if o == "machinery" => run.machinery(format!("{}: {w}", cc[i].label)),
                Err((o, w)) => {
                    let key = if o == "panic" { format!("C18/panic {}", vcore::explore::panic_key(&w)) } else { format!("C18/{o}/patterns/{}", cc[i].parent) };
                    run.violation(key, format!("{}: {w}", cc[i].label), json!({"cleanup_pattern": {"parent": cc[i].parent, "mode": cc[i].mode, "pattern": cc[i].pattern}}));
                }
            }
        }
        run.require("ifdata_cleanup patterns: exactly the invalid blocks removed", 1000);
    }
    run.require("ifdata_cleanup: exactly the valid blocks remain", 300);
    run.rule = "programs = A2ML definitions from the generator (14 leaf types incl. all 10 scalars, char[n], enums with/without values, 1- and 2-dimensional arrays; arrays of enums / structs / arrays, sequences of arrays; structs; taggedstruct / taggedunion items in the forms tag, tag member, block, repeated, repeated block, tag (member)*; nesting depth <= 3 (thorough: also <= 4 over the leaf type uint), no thinning; named type referenced later; top-level (member)*); per definition all instances of the enumerator (cap 8 / 24) under the supply modes in-file / built-in / both, and for the first instances every single-token deletion, duplication, replacement by another lexical class and appended token that keeps /begin-/end balanced, every block written as keyword item and every keyword item with its next 0..4 values written as block. Oracle: strict reference matcher accepts => ifdata_valid and payload tokens preserved (integer notation kept, floats at the precision of the type); lenient matcher rejects => load succeeds, ifdata_valid false, payload preserved; in between (identifier for string, over-long string, duplicate non-repeatable tag) don't care; reload equal; ifdata_cleanup() keeps exactly the valid blocks. Cleanup patterns: every element kind that can hold IF_DATA (11) x every sequence of <= 3 (thorough 4) blocks over {2 valid, 2 invalid payloads} x definition {in the file, built-in, absent}: after ifdata_cleanup() the model equals the model of the same document written without the invalid blocks, a second call changes nothing, the result reloads equal.".into();
    run
}

fn shape_of(t: &Ty) -> String {
    match t {
        Ty::Scalar(s) => s.kw().to_string(),
        Ty::Str(_) => "char[n]".into(),
        Ty::Array(i, _) => format!("{}[]", shape_of(i)),
        Ty::Enum(_) => "enum".into(),
        Ty::Struct(ms) => format!("struct{{{}}}", ms.iter().map(shape_of).collect::<Vec<_>>().join(";")),
        Ty::Seq(i) => format!("({})*", shape_of(i)),
        Ty::TaggedStruct(items) | Ty::TaggedUnion(items) => {
            let k = if matches!(t, Ty::TaggedStruct(_)) { "ts" } else { "tu" };
            format!(
                "{k}{{{}}}",
                items
                    .iter()
                    .map(|i| format!("{}{}{}", if i.block { "block " } else { "" }, i.item.as_ref().map(shape_of).unwrap_or_else(|| "-".into()), if i.repeat { "*" } else { "" }))
                    .collect::<Vec<_>>()
                    .join(";")
            )
        }
    }
}

pub fn replay(v: &Value) -> Result<String, String> {
    if let Some(cp) = v.get("cleanup_pattern") {
        let g = crate::corpus::grammar();
        let parent = cp["parent"].as_str().ok_or("no parent")?;
        let mode = cp["mode"].as_u64().ok_or("no mode")? as u8;
        let pattern: Vec<usize> = cp["pattern"].as_array().ok_or("no pattern")?.iter().map(|x| x.as_u64().unwrap_or(0) as usize).collect();
        let c = cleanup_cases(&g, true).into_iter().find(|c| c.parent == parent && c.mode == mode && c.pattern == pattern).ok_or("case not found")?;
        return eval_cleanup(&c).map(|s| s.to_string()).map_err(|(o, w)| format!("{o}: {w}"));
    }
    let def = v["def"].as_str().ok_or("no def")?.to_string();
    if v["hang"].as_bool().unwrap_or(false) || v["cleanup"].as_bool().unwrap_or(false) {
        // re-run the whole plan of this definition under a watchdog
        let done = std::sync::Arc::new(std::sync::atomic::AtomicBool::new(false));
        let d2 = done.clone();
        std::thread::spawn(move || {
            std::thread::sleep(std::time::Duration::from_secs(vcore::explore::HANG_SECS));
            if !d2.load(std::sync::atomic::Ordering::Relaxed) {
                println!("replay: VIOLATION reproduced: no return after {} s", vcore::explore::HANG_SECS);
                std::process::exit(1);
            }
        });
        for p in plans(true) {
            if def_text_of(&p) == def {
                let (jobs, cleanup) = jobs_for(&p, true);
                for j in &jobs {
                    if let Err((o, w)) = eval(j) {
                        return Err(format!("{o}: {w}"));
                    }
                }
                if let Some((good, bad)) = cleanup {
                    cleanup_check(&def, jobs[0].mode, &good, &bad).map_err(|(o, w)| format!("{o}: {w}"))?;
                }
                done.store(true, std::sync::atomic::Ordering::Relaxed);
                return Ok("all instances and deviations of the definition behave as specified".into());
            }
        }
        return Err("definition not found".into());
    }
    let payload: Vec<PTok> = v["payload"]
        .as_array()
        .ok_or("no payload")?
        .iter()
        .filter_map(|x| x.as_str())
        .map(|s| match s {
            "/begin" => PTok::Begin,
            "/end" => PTok::End,
            s if s.starts_with('"') => PTok::Str(s.to_string()),
            s if s.chars().next().map_or(false, |c| c.is_ascii_digit() || c == '-' || c == '+' || c == '.') => PTok::Num(s.to_string()),
            s => PTok::Ident(s.to_string()),
        })
        .collect();
    let expect = match v["expect"].as_str() {
        Some("Valid") => Expect::Valid,
        Some("Invalid") => Expect::Invalid,
        _ => Expect::DontCare,
    };
    let j = Job { def_idx: 0, def_text: def, has_str: v["has_str"].as_bool().unwrap_or(true), float_tol: v["float_tol"].as_bool().unwrap_or(true), mode: v["mode"].as_u64().unwrap_or(0) as u8, payload, expect, kind: "replay", comment_at: v["comment_at"].as_u64().map(|x| x as usize) };
    eval(&j).map(|s| s.to_string()).map_err(|(o, w)| format!("{o}: {w}"))
}
