//! C01 — save/reload stability: load(write(M)) == M and write reaches a byte-exact fixpoint.

use crate::corpus::{self, CDoc};
use crate::util::*;
use serde_json::{json, Value};
use std::collections::HashMap;
use vcore::docgen::*;
use vcore::explore::{fnv1a, par_map};
use vcore::grammar::*;
use vcore::report::Run;

pub struct Case {
    pub label: String,
    /// classification of the deviation used in violation keys
    pub class: String,
    pub text: String,
    pub spec: Option<String>,
    /// for cases with two deviations: (class, text) of each deviation applied alone. A failing
    /// pair is attributed to the single deviation that already fails (minimal deviation set).
    pub parts: Vec<(String, String)>,
}

pub enum RT {
    NotAccepted,
    Ok { bytes_t1: usize },
    Viol { oracle: &'static str, what: String },
}

/// the round trip oracle on one accepted text
pub fn roundtrip(text: &str, spec: Option<&str>) -> RT {
    let (m0, _) = match load(text, spec, false) {
        Loaded::Ok(f, l) => (f, l),
        Loaded::Err(_) => return RT::NotAccepted,
        Loaded::Panic(p) => return RT::Viol { oracle: "panic-load", what: p },
    };
    let t1 = match write(&m0) {
        Ok(t) => t,
        Err(p) => return RT::Viol { oracle: "panic-write", what: p },
    };
    let m1 = match load(&t1, spec, false) {
        Loaded::Ok(f, _) => f,
        Loaded::Err(e) => return RT::Viol { oracle: "reload-fails", what: format!("written text cannot be loaded: {e}\n--- written text:\n{}", short(&t1, 600)) },
        Loaded::Panic(p) => return RT::Viol { oracle: "panic-reload", what: p },
    };
    if m1 != m0 {
        let (d0, d1) = (format!("{m0:?}"), format!("{m1:?}"));
        let pos = d0.bytes().zip(d1.bytes()).position(|(a, b)| a != b).unwrap_or(0);
        let s = pos.saturating_sub(60);
        return RT::Viol {
            oracle: "model-differs",
            what: format!(
                "reloaded model differs near: …{}… vs …{}…",
                short(&d0[floor_char(&d0, s)..], 160),
                short(&d1[floor_char(&d1, s.min(d1.len()))..], 160)
            ),
        };
    }
    let t2 = match write(&m1) {
        Ok(t) => t,
        Err(p) => return RT::Viol { oracle: "panic-write", what: p },
    };
    if t2 != t1 {
        // classify: grows on every cycle or settles late
        let m2 = match load(&t2, spec, false) {
            Loaded::Ok(f, _) => f,
            _ => return RT::Viol { oracle: "reload-fails", what: "third load fails".into() },
        };
        let t3 = write(&m2).unwrap_or_default();
        let kind = if t3 == t2 { "text-settles-late" } else { "text-drifts-every-cycle" };
        return RT::Viol {
            oracle: if t3 == t2 { "text-settles-late" } else { "text-drifts" },
            what: format!("{kind}: sizes {} -> {} -> {} -> {} bytes", text.len(), t1.len(), t2.len(), t3.len()),
        };
    }
    RT::Ok { bytes_t1: t1.len() }
}

/// the oracle for a model built through the API: write, reload, compare, write again
pub fn roundtrip_model(m0: &a2lfile::A2lFile) -> RT {
    let t1 = match write(m0) {
        Ok(t) => t,
        Err(p) => return RT::Viol { oracle: "panic-write", what: p },
    };
    let m1 = match load(&t1, None, true) {
        Loaded::Ok(f, log) => {
            // (deprecated elements legitimately produce a deprecation notice in a 1.71 file)
            if log.iter().any(|e| !variant_of(e).ends_with("Deprecated")) {
                return RT::Viol { oracle: "api-model-diagnosed", what: format!("text written from an API-built model produces diagnostics: {}\n{}", log[0], short(&t1, 500)) };
            }
            f
        }
        Loaded::Err(e) => return RT::Viol { oracle: "reload-fails", what: format!("text written from an API-built model cannot be loaded: {e}\n--- written text:\n{}", short(&t1, 600)) },
        Loaded::Panic(p) => return RT::Viol { oracle: "panic-reload", what: p },
    };
    if m1 != *m0 {
        let (d0, d1) = (format!("{m0:?}"), format!("{m1:?}"));
        let pos = d0.bytes().zip(d1.bytes()).position(|(a, b)| a != b).unwrap_or(0);
        let s = pos.saturating_sub(60);
        return RT::Viol { oracle: "model-differs", what: format!("reloaded model differs near: …{}… vs …{}…", short(&d0[floor_char(&d0, s)..], 160), short(&d1[floor_char(&d1, s.min(d1.len()))..], 160)) };
    }
    let t2 = match write(&m1) {
        Ok(t) => t,
        Err(p) => return RT::Viol { oracle: "panic-write", what: p },
    };
    if t2 != t1 {
        return RT::Viol { oracle: "text-drifts", what: format!("second write differs: {} -> {} bytes\n--- first:\n{}\n--- second:\n{}", t1.len(), t2.len(), short(&t1, 400), short(&t2, 400)) };
    }
    RT::Ok { bytes_t1: t1.len() }
}

fn floor_char(s: &str, mut i: usize) -> usize {
    i = i.min(s.len());
    while !s.is_char_boundary(i) {
        i -= 1;
    }
    i
}

pub const WS: [(&str, &str); 7] = [
    ("1sp", " "),
    ("2sp", "  "),
    ("tab", "\t"),
    ("lf", "\n"),
    ("lf2", "\n\n"),
    ("lf3", "\n\n\n"),
    ("crlf", "\r\n"),
];
pub const CM: [(&str, &str); 21] = [
    ("block", " /* c */ "),
    ("block-own-line", "\n/* c */\n"),
    ("block-multiline", "\n/* a\nb */\n"),
    ("block-multiline-indented", "\n    /* a\n       b */\n"),
    ("block-multiline-trailing", " /* a\n\nb */\n"),
    ("block-multiline-tab", "\n\t/* a\n\tb */\n"),
    ("line", " // c\n"),
    ("line-own-line", "\n// c\n"),
    ("block-indented", "\n      /* c */\n"),
    ("block-two", "\n/* a */ /* b */\n"),
    // the line break directly behind the opening / directly in front of the closing delimiter, empty comments, delimiters made of
    // more than one star, a slash directly behind the opening delimiter, CRLF inside and behind a comment
    ("block-banner", "\n/*\n * a\n */\n"),
    ("block-lf-first", " /*\nc */ "),
    ("block-lf-last", "\n/* c\n*/\n"),
    ("block-empty", " /**/ "),
    ("block-stars", "\n/*** c ***/\n"),
    ("block-slash", " /*/ c */ "),
    ("line-empty", " //\n"),
    ("line-crlf", " // c\r\n"),
    ("block-crlf", "\n/* a\r\nb */\r\n"),
    // a block comment whose text holds the marks of the other comment kind, the next token on the same line
    ("block-with-line-marks", " /* see http://a.b//c // d */ "),
    ("line-with-block-marks", " // a /* b */ c\n"),
];

/// role of the gap before token i (for violation keys): what kind of position the layout sits in
pub fn gap_role(toks: &[RTok], i: usize) -> &'static str {
    if i == 0 {
        return "file-start";
    }
    if i >= toks.len() {
        return "file-end";
    }
    match (&toks[i - 1].kind, &toks[i].kind) {
        (_, TKind::Begin) | (_, TKind::Tag) if toks[i].starts_line => {
            if toks[i].depth == 0 {
                "before-file-level-element"
            } else {
                "before-sub-element"
            }
        }
        (TKind::Begin, _) => "after-begin",
        (TKind::End, _) => "after-end",
        (_, TKind::End) => "before-end",
        (_, TKind::Raw) => "before-a2ml-text",
        (_, TKind::Other) | (TKind::Other, _) => "inside-ifdata",
        _ => "between-parameters",
    }
}

pub fn layout_cases(d: &CDoc, ws: bool, cm: bool, out: &mut Vec<Case>) {
    let toks = d.doc.tokens();
    for gap in 0..=toks.len() {
        let role = gap_role(&toks, gap);
        if ws {
            for (n, w) in WS {
                if gap > 0 && gap < toks.len() && *w == default_gap(&toks, gap) {
                    continue;
                }
                let mut g = HashMap::new();
                g.insert(gap, w.to_string());
                out.push(Case { label: format!("{} + ws(gap {gap},{n})", d.label), class: format!("ws:{n}@{role}"), text: render(&toks, &g), spec: None, parts: vec![] });
            }
        }
        if cm {
            for (n, c) in CM {
                let mut g = HashMap::new();
                g.insert(gap, c.to_string());
                out.push(Case { label: format!("{} + cm(gap {gap},{n})", d.label), class: format!("cm:{n}@{role}"), text: render(&toks, &g), spec: None, parts: vec![] });
            }
        }
    }
}

pub fn int_literals(ty: &PType) -> Vec<(String, String)> {
    let (lo, hi) = ty.int_min_max().unwrap();
    let (bits, signed) = ty.int_shape().unwrap();
    let mut v = vec![
        ("zero".to_string(), "0".to_string()),
        ("one".into(), "1".into()),
        ("max".into(), hi.to_string()),
        ("hex-zero".into(), "0x0".into()),
        ("hex-upper".into(), "0xAB".into()),
        ("hex-lower".into(), "0xab".into()),
        ("hex-bigx".into(), "0XAb".into()),
        ("hex-leading-zeros".into(), "0x000A".into()),
        ("dec-leading-zeros".into(), "007".into()),
        ("hex-max".into(), format!("0x{:X}", (1u128 << bits) - 1)),
        ("plus-sign".into(), "+5".into()),
    ];
    if signed {
        v.push(("min".into(), lo.to_string()));
        v.push(("minus-one".into(), "-1".into()));
        v.push(("hex-signbit".into(), format!("0x{:X}", 1u128 << (bits - 1))));
    }
    v
}

pub fn float_literals() -> Vec<(&'static str, &'static str)> {
    vec![
        ("zero", "0"),
        ("neg-zero", "-0.0"),
        ("one", "1"),
        ("tenth", "0.1"),
        ("1e10", "1e10"),
        ("just-above-1e10", "10000000001"),
        ("1.0000000001e10", "1.0000000001e10"),
        ("neg-1e10", "-1e10"),
        ("neg-above-1e10", "-10000000001.5"),
        ("1e-4", "1e-4"),
        ("0.0001", "0.0001"),
        ("9.999e-5", "9.999e-5"),
        ("neg-1e-4", "-0.0001"),
        ("1e300", "1e300"),
        ("1e-300", "1e-300"),
        ("denormal-min", "5e-324"),
        ("f64-max", "1.7976931348623157e308"),
        ("17-digits", "0.30000000000000004"),
        ("17-digits-b", "123456.78901234567"),
        ("upper-E-plus", "1E+3"),
        ("leading-dot", ".5"),
        ("trailing-dot", "5."),
        ("hex-as-float", "0x10"),
        ("hex-32-bit-ones", "0xFFFFFFFF"),
        ("hex-2^32", "0x100000000"),
        ("hex-i64-max", "0x7FFFFFFFFFFFFFFF"),
        ("hex-2^63", "0x8000000000000000"),
        ("hex-64-bit-ones", "0xFFFFFFFFFFFFFFFF"),
        ("overflow-to-inf", "1e999"),
        ("neg-overflow", "-1e999"),
        ("underflow-to-zero", "1e-999"),
        ("long-mantissa", "3.14159265358979323846264338327950288"),
        ("int-beyond-2^53", "9007199254740993"),
    ]
}

pub const STR_UNITS: [(&str, &str); 17] = [
    ("a", "a"),
    ("space", " "),
    ("dq-dq", "\"\""),
    ("bs-dq", "\\\""),
    ("bs-bs", "\\\\"),
    ("bs-sq", "\\'"),
    ("sq", "'"),
    ("bs-n", "\\n"),
    ("bs-r", "\\r"),
    ("bs-t", "\\t"),
    ("bs-x", "\\x"),
    ("raw-tab", "\t"),
    ("raw-lf", "\n"),
    ("e-acute", "é"),
    ("emoji", "😀"),
    ("star-slash", "*/"),
    ("slash-slash", "//"),
];

pub fn string_literals(max_units: usize) -> Vec<(String, String)> {
    let mut out = vec![("empty".to_string(), "\"\"".to_string())];
    let mut cur: Vec<(String, String)> = vec![(String::new(), String::new())];
    for _ in 0..max_units {
        let mut next = Vec::new();
        for (n, s) in &cur {
            for (un, u) in STR_UNITS {
                let nn = if n.is_empty() { un.to_string() } else { format!("{n}+{un}") };
                let ns = format!("{s}{u}");
                out.push((nn.clone(), format!("\"{ns}\"")));
                next.push((nn, ns));
            }
        }
        cur = next;
    }
    out
}

pub fn ident_literals() -> Vec<(String, String)> {
    vec![
        ("dotted".into(), "a.b.c".into()),
        ("indexed".into(), "arr[0][12]".into()),
        ("underscore".into(), "_x_".into()),
        ("mixed".into(), "A1.b[3]._c".into()),
        ("leading-digit".into(), "1abc".into()),
        ("len-1024".into(), "x".repeat(1024)),
        ("len-1025".into(), "x".repeat(1025)),
        ("keyword-like".into(), "begin".into()),
        ("hexlike".into(), "xAB".into()),
    ]
}

/// value-class cases for the parameters of the element under test
pub fn value_cases(d: &CDoc, str_units: usize, out: &mut Vec<Case>) {
    if d.path.is_empty() {
        return;
    }
    let node = d.doc.root.at(&d.path).clone();
    if !node.known || node.raw.is_some() {
        return;
    }
    for (pi, p) in node.params.iter().enumerate() {
        let lits: Vec<(String, String)> = match &p.ty {
            PType::Ident => ident_literals(),
            PType::Str => string_literals(str_units),
            PType::Float => float_literals().into_iter().map(|(a, b)| (a.to_string(), b.to_string())).collect(),
            PType::Enum(_) => continue,
            ity => int_literals(ity),
        };
        let tyname = match &p.ty {
            PType::Ident => "ident".to_string(),
            PType::Str => "string".to_string(),
            PType::Float => "float".to_string(),
            other => format!("{other:?}").to_lowercase(),
        };
        for (n, lit) in lits {
            let mut doc = d.doc.clone();
            doc.root.at_mut(&d.path).params[pi].text = lit;
            out.push(Case { label: format!("{} + val({},{n})", d.label, p.field), class: format!("val:{tyname}:{n}"), text: doc.text(), spec: None, parts: vec![] });
        }
    }
}

pub const IFDATA_A2ML: &str = r#"
    block "IF_DATA" taggedunion if_data {
      "VX" struct { uint; };
      "XCP" struct {
        taggedstruct {
          block "SEG" struct { uchar; uint; ulong; int64; uint64; float; double; char[16]; };
          "FLAG";
          ("REP" uint)*;
          block "NEST" taggedstruct { "A" struct { int; }; block "B" struct { char[8]; enum { "x" = 1, "y" = 2 }; }; };
        };
      };
    };
"#;

pub const IFDATA_PAYLOADS: &[(&str, &str)] = &[
        ("empty", ""),
        ("vx", "VX 1"),
        ("xcp-seg", "XCP /begin SEG 1 0x2 3 -4 0x5 1.5 2.5e10 \"txt\" /end SEG"),
        ("xcp-flag-rep", "XCP FLAG REP 1 REP 0x10"),
        // a float member beyond the range of f32 (finite as f64), the largest f32 / f64
        ("xcp-seg-float-beyond-f32", "XCP /begin SEG 1 2 3 4 5 3.5e38 2.5 \"t\" /end SEG"),
        ("xcp-seg-float-negative-beyond-f32", "XCP /begin SEG 1 2 3 4 5 -1e39 2.5 \"t\" /end SEG"),
        ("xcp-seg-float-max-f32", "XCP /begin SEG 1 2 3 4 5 3.4028234e38 1.7976931348623157e308 \"t\" /end SEG"),
        ("xcp-nest", "XCP /begin NEST A -3 /begin B \"s\" y /end B /end NEST"),
        ("unknown-simple", "ZZZ 1 2.5 \"s\" ident"),
        ("unknown-nested", "ZZZ /begin Q 1 /begin R \"x\" /end R 2 /end Q"),
        ("unknown-hex", "ZZZ 0xFF 0x10 -5"),
        ("unknown-floats", "ZZZ 1e3 2.0 -0.0 1e-300 0.1 1e300 4294967296.0"),
        ("unknown-wide-ints", "ZZZ 4294967295 4294967297 -2147483649 18446744073709551615 0x1FFFFFFFF"),
        ("unknown-bare-values", "1 2.5 \"s\" 7.0"),
        ("unknown-siblings", "ZZZ /begin Q 1 /end Q /begin R 2 /end R TAGX 5 /begin Q 3 /end Q TAGY"),
        ("xcp-siblings", "XCP /begin SEG 1 2 3 4 5 1.5 2.5 \"t\" /end SEG FLAG /begin NEST A 1 /begin B \"s\" x /end B /end NEST REP 7"),
];

/// IF_DATA payloads (interpreted through an in-file A2ML definition and uninterpreted), all on one line or one
/// token per line, with one gap between two payload tokens changed: whitespace shapes (`ws`) and / or comment shapes (`cm`)
pub fn ifdata_gap_cases(ws: bool, cm: bool, out: &mut Vec<Case>) {
    for (pn, pl) in IFDATA_PAYLOADS {
        let ptoks: Vec<&str> = pl.split_whitespace().collect();
        if ptoks.is_empty() {
            continue;
        }
        let mut bt = vec!["/begin", "IF_DATA"];
        bt.extend(ptoks.iter().copied());
        bt.extend(["/end", "IF_DATA"]);
        for with_a2ml in [false, true] {
            let head = vcore::ifdoc::doc_text(with_a2ml.then(|| IFDATA_A2ML.trim()), &[]);
            let head = head.strip_suffix("  /end MODULE\n/end PROJECT\n").unwrap().to_string();
            for (bn, base) in [("one-line", " "), ("line-per-token", "\n      ")] {
                let mut variants: Vec<(String, Option<(usize, String)>)> = vec![(format!("ifdata-{bn}"), None)];
                for gap in 2..bt.len() - 1 {
                    if bt[gap - 1] == "/begin" || bt[gap - 1] == "/end" {
                        continue;
                    }
                    if ws {
                        for (n, w) in WS {
                            if w.trim_matches(' ') == base.trim_matches(' ') {
                                continue;
                            }
                            variants.push((format!("ifdata-ws:{n}@{bn}"), Some((gap, w.to_string()))));
                        }
                    }
                    if cm {
                        // the role of the gap: in front of a block, in front of a value / tag, in front of the final /end
                        let role = if bt[gap] == "/begin" { "before-block" } else if bt[gap] == "/end" { "before-end" } else if gap == 2 { "first" } else { "before-token" };
                        for (n, c) in CM {
                            variants.push((format!("ifdata-cm:{n}@{role}"), Some((gap, c.to_string()))));
                        }
                    }
                }
                for (class, var) in variants {
                    let mut t = head.clone();
                    t.push_str("    ");
                    for (i, tok) in bt.iter().enumerate() {
                        if i > 0 {
                            let default = if bt[i - 1] == "/begin" || bt[i - 1] == "/end" { " " } else { base };
                            t.push_str(match &var {
                                Some((g, w)) if *g == i => w,
                                _ => default,
                            });
                        }
                        t.push_str(tok);
                    }
                    t.push_str("\n  /end MODULE\n/end PROJECT\n");
                    out.push(Case { label: format!("ifdata({pn},a2ml={with_a2ml}) {class} {:?}", var.as_ref().map(|v| v.0)), class, text: t, spec: None, parts: vec![] });
                }
            }
        }
    }
}

pub fn ifdata_cases(g: &Grammar, out: &mut Vec<Case>) {
    let mut gen = Gen::new(g);
    let payloads = IFDATA_PAYLOADS;
    for with_a2ml in [false, true] {
        for builtin in [false, true] {
            for parent in ["MODULE", "MEASUREMENT", "MEMORY_SEGMENT"] {
                for (pn, pl) in payloads {
                    let (mut doc, path) = gen.carrier_v(parent, 5, 1);
                    if with_a2ml {
                        let mut a = gen.min_node("A2ML", 5, 1);
                        a.raw = Some(IFDATA_A2ML.trim().to_string());
                        let mpath = &gen.path["MODULE"].clone();
                        let _ = mpath;
                        // A2ML lives in MODULE
                        let m = doc.root.child_mut("PROJECT").unwrap().child_mut("MODULE").unwrap();
                        m.children.insert(0, a);
                    }
                    // re-resolve the path (MODULE's children may have shifted)
                    let mut ifd = gen.min_node("IF_DATA", 5, 1);
                    ifd.raw = if pl.is_empty() { None } else { Some(pl.to_string()) };
                    let target = if parent == "MODULE" {
                        doc.root.child_mut("PROJECT").unwrap().child_mut("MODULE").unwrap()
                    } else {
                        let mut p = path.clone();
                        if with_a2ml && p.len() >= 3 {
                            p[2] += 1;
                        }
                        doc.root.at_mut(&p)
                    };
                    target.children.push(ifd);
                    out.push(Case {
                        label: format!("ifdata({parent},{pn},a2ml={with_a2ml},builtin={builtin})"),
                        class: format!("ifdata:{pn}:a2ml={with_a2ml}:builtin={builtin}"),
                        text: doc.text(),
                        spec: builtin.then(|| IFDATA_A2ML.to_string()),
                        parts: vec![],
                    });
                }
            }
        }
    }
}

pub fn build_cases(g: &Grammar, thorough: bool) -> Vec<Case> {
    let mut out = Vec::new();
    let carriers = corpus::carriers(g);
    let opt1 = corpus::opt_docs(g, 1);
    let opt2 = corpus::opt_docs(g, 2);
    let rich = corpus::rich_docs(g);
    let mut plain: Vec<CDoc> = carriers.clone();
    plain.extend(opt1.clone());
    plain.extend(opt2);
    plain.extend(corpus::enum_docs(g));
    plain.extend(corpus::same_name_docs(g));
    plain.extend(corpus::seq_len_docs(g));
    plain.extend(rich.clone());
    if thorough {
        plain.extend(corpus::opt_pair_docs(g, None));
    } else {
        plain.extend(corpus::opt_pair_docs(g, Some(&["MEASUREMENT", "MOD_COMMON"])));
    }
    for d in &plain {
        out.push(Case { label: d.label.clone(), class: "grammar".into(), text: d.doc.text(), spec: None, parts: vec![] });
        // the same document with CRLF line ends
        out.push(Case { label: format!("{} + crlf", d.label), class: "crlf-document".into(), text: d.doc.text().replace('\n', "\r\n"), spec: None, parts: vec![] });
    }
    // repeatable children of RECORD_LAYOUT that carry a position (the writer orders the children of a RECORD_LAYOUT by position)
    {
        let rl = g.elem("RECORD_LAYOUT").clone();
        for r in rl.refs.iter().filter(|r| r.repeat && r.in_version(5)) {
            let Some(ke) = g.get_elem(&r.tag) else { continue };
            if !matches!(ke.items.first(), Some(Item::Single { name, .. }) if name == "position") {
                continue;
            }
            for (arr, positions) in [("ascending", vec![3, 5]), ("equal", vec![4, 4]), ("descending", vec![5, 3]), ("descending-3", vec![5, 3, 4])] {
                let mut gen = Gen::new(g);
                let (mut doc, path) = gen.carrier_v("RECORD_LAYOUT", 5, 1);
                for p in &positions {
                    let mut c = gen.min_node(&r.tag, 5, 1);
                    c.params[0].text = p.to_string();
                    doc.root.at_mut(&path).children.push(c);
                }
                out.push(Case { label: format!("RECORD_LAYOUT with {} x {} at positions {positions:?}", positions.len(), r.tag), class: format!("position-order:{}:{}", r.tag, arr.split('-').next().unwrap()), text: doc.text(), spec: None, parts: vec![] });
            }
        }
    }
    for (label, text) in crate::c02::position_docs(g).into_iter().chain(crate::c02::position_mixed_docs(g)) {
        let class = format!("position-order:{}", label.split(':').nth(1).unwrap_or(""));
        out.push(Case { label, class, text, spec: None, parts: vec![] });
    }
    // layout at every gap of every carrier
    for d in &carriers {
        layout_cases(d, true, true, &mut out);
    }
    if thorough {
        for d in &opt1 {
            layout_cases(d, true, true, &mut out);
        }
    }
    for d in &rich {
        layout_cases(d, true, true, &mut out);
    }
    // all pairs of layout deviations on small rich documents
    let pair_docs: Vec<&CDoc> = if thorough { carriers.iter().filter(|c| ["MEASUREMENT", "A2ML", "IF_DATA", "ANNOTATION_TEXT", "FNC_VALUES", "HEADER", "COMPU_VTAB", "VAR_CRITERION"].iter().any(|t| c.label == format!("carrier({t})"))).collect() } else { carriers.iter().filter(|c| c.label == "carrier(A2ML)" || c.label == "carrier(ANNOTATION_TEXT)").collect() };
    for d in pair_docs {
        let toks = d.doc.tokens();
        let mut choices: Vec<(String, String)> = Vec::new();
        for (n, w) in WS {
            choices.push((format!("ws:{n}"), w.to_string()));
        }
        for (n, c) in CM {
            choices.push((format!("cm:{n}"), c.to_string()));
        }
        for g1 in 0..=toks.len() {
            for g2 in (g1 + 1)..=toks.len() {
                for (n1, c1) in &choices {
                    for (n2, c2) in &choices {
                        let mut gm = HashMap::new();
                        gm.insert(g1, c1.clone());
                        gm.insert(g2, c2.clone());
                        let single = |g: usize, c: &String| {
                            let mut m = HashMap::new();
                            m.insert(g, c.clone());
                            render(&toks, &m)
                        };
                        out.push(Case {
                            label: format!("{} + {n1}(gap {g1}) + {n2}(gap {g2})", d.label),
                            class: format!("pair:{n1}@{}+{n2}@{}", gap_role(&toks, g1), gap_role(&toks, g2)),
                            text: render(&toks, &gm),
                            spec: None,
                            parts: vec![(format!("{n1}@{}", gap_role(&toks, g1)), single(g1, c1)), (format!("{n2}@{}", gap_role(&toks, g2)), single(g2, c2))],
                        });
                    }
                }
            }
        }
    }
    // value classes
    for d in &carriers {
        value_cases(d, if thorough { 2 } else { 1 }, &mut out);
    }
    // deep string exploration on representative string parameters
    for t in ["ANNOTATION_TEXT", "SYSTEM_CONSTANT", "HEADER"] {
        if let Some(d) = carriers.iter().find(|c| c.label == format!("carrier({t})")) {
            value_cases(d, if thorough { 3 } else { 2 }, &mut out);
        }
    }
    ifdata_cases(g, &mut out);
    // whitespace and comment shapes at every gap inside IF_DATA payloads
    ifdata_gap_cases(true, true, &mut out);
    // CRLF crossed with A2ML / IF_DATA
    let n = out.len();
    for i in 0..n {
        if out[i].class.starts_with("ifdata:") {
            let c = Case { label: format!("{} + crlf", out[i].label), class: format!("crlf+{}", out[i].class), text: out[i].text.replace('\n', "\r\n"), spec: out[i].spec.clone(), parts: vec![] };
            out.push(c);
        }
    }
    out
}

pub fn run(tier: &str) -> Run {
    let mut run = Run::new("C01", tier);
    let g = corpus::grammar();
    let cases = build_cases(&g, crate::util::wide(tier));
    let res = par_map(cases.len(), &|i| (fnv1a(cases[i].text.as_bytes()), roundtrip(&cases[i].text, cases[i].spec.as_deref())), &|i| {
        println!("MACHINERY-ERROR: C01 case hangs: {}", cases[i].label);
        std::process::exit(2);
    });
    for (i, (h, r)) in res.into_iter().enumerate() {
        run.evaluations += 1;
        let fresh = run.states.insert(h);
        let cls = cases[i].class.split(':').next().unwrap_or("").to_string();
        match r {
            RT::NotAccepted => {
                run.transitions += 1;
                run.outcome(&format!("{cls}: not accepted by the loader (outside the quantifier)"));
            }
            RT::Ok { .. } => {
                run.transitions += 4;
                if fresh {
                    run.nontrivial.insert(h);
                }
                run.outcome(&format!("{cls}: stable"));
            }
            RT::Viol { oracle, what } => {
                run.transitions += 4;
                run.outcome(&format!("{cls}: violation"));
                // minimal deviation set: a pair is attributed to a single deviation that fails alone
                let mut class = cases[i].class.clone();
                for (pc, pt) in &cases[i].parts {
                    if let RT::Viol { oracle: o2, .. } = roundtrip(pt, cases[i].spec.as_deref()) {
                        if o2 == oracle {
                            class = pc.clone();
                            break;
                        }
                    }
                }
                let key = if oracle.starts_with("panic") { format!("C01/{oracle} {}", vcore::explore::panic_key(&what)) } else { format!("C01/{oracle}/{class}") };
                run.violation(key, format!("{}: {what}", cases[i].label), json!({"text": cases[i].text, "spec": cases[i].spec, "label": cases[i].label}));
            }
        }
        if i % 20011 == 7 {
            run.sample(json!({"label": cases[i].label, "text": short(&cases[i].text, 400)}));
        }
    }
    // models built through the API: every (parent, child) slot of the grammar, child once / twice,
    // sequences empty / filled, with and without sort_new_items before writing
    // x value mode of the integer parameters: small positive decimal / negative resp. near the maximum, decimal / the same in
    // hex notation / type minimum resp. maximum in hex notation (the writer emits bit patterns, the loader has to take them back)
    let n_api = crate::gen_builders::N_SLOTS * 8 * 4;
    let api = par_map(
        n_api,
        &|j| {
            let vmode = (j % 4) as u8;
            let j = j / 4;
            crate::gen_builders::set_mode(vmode);
            let slot = j / 8;
            let count = 1 + (j % 2);
            let seqlen = (j / 2) % 2 * 2;
            let sorted = (j / 4) % 2 == 1;
            let built = vcore::explore::guard(|| {
                let (label, mut f) = crate::gen_builders::build_slot(slot, count, seqlen);
                if sorted {
                    f.sort_new_items();
                }
                (label, f)
            });
            match built {
                Err(p) => (format!("api slot {slot}"), RT::Viol { oracle: "panic-build", what: p }),
                Ok((label, f)) => (format!("{label} count={count} seqlen={seqlen} sort_new_items={sorted} ints={}", ["small", "negative/large", "negative/large hex", "min/max hex"][vmode as usize]), roundtrip_model(&f)),
            }
        },
        &|j| {
            println!("MACHINERY-ERROR: C01 api case {j} hangs");
            std::process::exit(2);
        },
    );
    for (j, (label, r)) in api.into_iter().enumerate() {
        run.evaluations += 1;
        run.transitions += 3;
        let h = fnv1a(label.as_bytes());
        run.states.insert(h);
        match r {
            RT::Ok { .. } => {
                run.nontrivial.insert(h);
                run.outcome("api: stable");
            }
            RT::NotAccepted => run.outcome("api: not accepted"),
            RT::Viol { oracle, what } => {
                run.outcome("api: violation");
                let slot = label.split(' ').next().unwrap_or("").to_string();
                let key = if oracle.starts_with("panic") { format!("C01/{oracle} {}", vcore::explore::panic_key(&what)) } else { format!("C01/{oracle}/{slot}") };
                run.violation(key, format!("{label}: {what}"), json!({"api_case": j, "label": label}));
            }
        }
    }
    // a loaded file plus n elements of one kind pushed through the API (no sort_new_items): the
    // writer has to keep n equal-ranked new elements in push order
    let base_text = corpus::rich_docs(&g)[0].doc.text();
    let counts: &[usize] = if crate::util::wide(tier) { &[1, 2, 3, 5, 8, 13, 20, 21, 22, 32, 40, 64, 100, 257] } else { &[1, 3, 8, 21, 40, 64] };
    let mut hist: Vec<(&str, usize, bool)> = Vec::new();
    for kind in crate::c05::LIST_KINDS {
        for n in counts {
            hist.push((kind, *n, false));
            hist.push((kind, *n, true));
        }
    }
    let hres = par_map(
        hist.len(),
        &|j| {
            let (kind, n, from_new) = hist[j];
            let built = vcore::explore::guard(|| {
                let mut f = if from_new { a2lfile::new() } else { a2lfile::load_from_string(&base_text, None, true).unwrap().0 };
                let mut k = 7000u32;
                for _ in 0..n {
                    crate::gen_builders::push_module_item(&mut f, kind, &mut k, 1);
                }
                f
            });
            match built {
                Err(p) => RT::Viol { oracle: "panic-build", what: p },
                Ok(f) => roundtrip_model(&f),
            }
        },
        &|j| {
            println!("MACHINERY-ERROR: C01 history case {j} hangs");
            std::process::exit(2);
        },
    );
    for (j, r) in hres.into_iter().enumerate() {
        let (kind, n, from_new) = hist[j];
        run.evaluations += 1;
        run.transitions += 3 + n as u64;
        let h = fnv1a(format!("push-history {kind} {n} {from_new}").as_bytes());
        run.states.insert(h);
        match r {
            RT::Ok { .. } => {
                run.nontrivial.insert(h);
                run.outcome("push-history: stable");
            }
            RT::NotAccepted => run.outcome("push-history: not accepted"),
            RT::Viol { oracle, what } => {
                run.outcome("push-history: violation");
                let key = if oracle.starts_with("panic") { format!("C01/{oracle} {}", vcore::explore::panic_key(&what)) } else { format!("C01/{oracle}/push-history:{kind}:{}", if from_new { "new-file" } else { "loaded-file" }) };
                run.violation(key, format!("{} + {n} x push {kind}: {what}", if from_new { "a2lfile::new()" } else { "loaded rich(0)" }), json!({"history": {"kind": kind, "n": n, "from_new": from_new}}));
            }
        }
    }
    // loaded documents edited through the API: every scalar field of every element gets a new value, every sequence one more
    // entry (four integer value modes); the edited model is judged by the same oracle
    {
        let mut mdocs: Vec<(String, String)> = Vec::new();
        for d in corpus::carriers(&g).into_iter().chain(corpus::rich_docs(&g)).chain(corpus::opt_docs(&g, 1)) {
            mdocs.push((d.label.clone(), d.doc.text()));
        }
        let mres = par_map(
            mdocs.len() * 4,
            &|j| {
                let vmode = (j % 4) as u8;
                let (_, text) = &mdocs[j / 4];
                let Loaded::Ok(mut f, log) = load(text, None, false) else { return RT::NotAccepted };
                if !log.is_empty() {
                    return RT::NotAccepted;
                }
                crate::gen_builders::set_mode(vmode);
                let mut k = 8000u32;
                let r = vcore::explore::guard(std::panic::AssertUnwindSafe(|| {
                    crate::gen_builders::mutate_Project(&mut f.project, &mut k);
                }));
                crate::gen_builders::set_mode(0);
                match r {
                    Err(p) => RT::Viol { oracle: "panic-build", what: p },
                    Ok(()) => roundtrip_model(&f),
                }
            },
            &|j| {
                println!("MACHINERY-ERROR: C01 edited-document case {j} hangs");
                std::process::exit(2);
            },
        );
        for (j, r) in mres.into_iter().enumerate() {
            run.evaluations += 1;
            run.transitions += 4;
            let label = format!("{} with every field edited (ints {})", mdocs[j / 4].0, ["small", "negative/large", "negative/large, hex builders", "min/max"][j % 4]);
            let h = fnv1a(label.as_bytes());
            run.states.insert(h);
            match r {
                RT::Ok { .. } => {
                    run.nontrivial.insert(h);
                    run.outcome("edited-document: stable");
                }
                RT::NotAccepted => run.outcome("edited-document: not applicable"),
                RT::Viol { oracle, what } => {
                    run.outcome("edited-document: violation");
                    let tag = mdocs[j / 4].0.clone();
                    let key = if oracle.starts_with("panic") { format!("C01/{oracle} {}", vcore::explore::panic_key(&what)) } else { format!("C01/{oracle}/edited-document:{tag}") };
                    run.violation(key, format!("{label}: {what}"), json!({"edited_document": {"text": mdocs[j / 4].1, "mode": j % 4}}));
                }
            }
        }
        run.require("edited-document: stable", 500);
    }
    // operation histories: every sequence of <= depth model operations from every start file
    {
        let w = crate::hist::world(&g);
        let depth = if crate::util::deep(tier) { 3 } else { 2 };
        let seqs = crate::hist::sequences(depth);
        let n_starts = w.starts.len();
        let ores = par_map(seqs.len() * n_starts, &|j| crate::hist::judge(&w, j % n_starts, &seqs[j / n_starts]), &|j| {
            println!("MACHINERY-ERROR: C01 operation history hangs: {} {:?}", w.starts[j % n_starts].0, seqs[j / n_starts]);
            std::process::exit(2);
        });
        for (j, r) in ores.into_iter().enumerate() {
            let (st, sq) = (j % n_starts, &seqs[j / n_starts]);
            let names: Vec<String> = sq.iter().map(crate::hist::act_name).collect();
            run.evaluations += 1;
            run.transitions += 3 + sq.len() as u64;
            let h = fnv1a(format!("op-history {} {names:?}", w.starts[st].0).as_bytes());
            run.states.insert(h);
            match r {
                RT::Ok { .. } => {
                    run.nontrivial.insert(h);
                    run.outcome("op-history: stable");
                    if j % 30011 == 5 {
                        run.sample(json!({"label": format!("{}: {}", w.starts[st].0, names.join(", "))}));
                    }
                }
                RT::NotAccepted => run.outcome("op-history: not applicable"),
                RT::Viol { oracle, what } => {
                    run.outcome("op-history: violation");
                    // shape of the history: operation names without their kind argument
                    let shape: Vec<String> = names.iter().map(|n| n.split(' ').next().unwrap_or("").to_string()).collect();
                    let key = if oracle.starts_with("panic") { format!("C01/{oracle} {}", vcore::explore::panic_key(&what)) } else { format!("C01/{oracle}/op-history:{}", shape.join("+")) };
                    run.violation(key, format!("{} then {}: {what}", w.starts[st].0, names.join(", ")), json!({"op_history": {"start": st, "ops": names}}));
                }
            }
        }
        run.require("op-history: stable", 1000);
    }
    // load_fragment: the content of the MODULE of every carrier, optional-slot and rich document loaded as a fragment;
    // write(path, banner) + load(path)
    let mut fdocs: Vec<(String, String)> = Vec::new();
    for d in corpus::carriers(&g).into_iter().chain(corpus::rich_docs(&g)).chain(corpus::opt_docs(&g, 1)) {
        fdocs.push((d.label.clone(), d.doc.text()));
    }
    let scratch = {
        let base = if std::path::Path::new("/dev/shm").is_dir() { "/dev/shm".to_string() } else { std::env::temp_dir().to_string_lossy().into_owned() };
        let d = std::path::PathBuf::from(base).join(format!("verif-c01-{}", std::process::id()));
        let _ = std::fs::create_dir_all(&d);
        d
    };
    let fres = par_map(
        fdocs.len() * 2,
        &|j| {
            let (_, text) = &fdocs[j / 2];
            if j % 2 == 1 {
                // banner: the written file (with a leading comment) loads to the same model
                let Loaded::Ok(f, _) = load(text, None, false) else { return ("banner", RT::NotAccepted) };
                let path = scratch.join(format!("b{j}.a2l"));
                let r = vcore::explore::guard(|| {
                    f.write(&path, Some("written by the harness")).map_err(|e| e.to_string())?;
                    let (f2, _) = a2lfile::load(&path, None, false).map_err(|e| e.to_string())?;
                    let t = std::fs::read_to_string(&path).map_err(|e| e.to_string())?;
                    Ok::<_, String>((f2, t))
                });
                let _ = std::fs::remove_file(&path);
                return (
                    "banner",
                    match r {
                        Err(p) => RT::Viol { oracle: "panic", what: p },
                        Ok(Err(e)) => RT::Viol { oracle: "reload-fails", what: format!("file written with a banner: {e}") },
                        Ok(Ok((f2, t))) => {
                            if f2 != f {
                                RT::Viol { oracle: "model-differs", what: "file written with a banner loads to a different model".into() }
                            } else if !t.starts_with("/* written by the harness */") || !t.ends_with(&f.write_to_string()) {
                                RT::Viol { oracle: "text-differs", what: format!("file written with a banner is not banner + write_to_string(): {}", short(&t, 200)) }
                            } else {
                                // further save cycles with a banner: load the saved file, save it again with the banner; the
                                // file must not change from the second save on
                                let cyc = vcore::explore::guard(|| {
                                    let mut texts = vec![t.clone()];
                                    let mut cur = f2;
                                    for _ in 0..3 {
                                        cur.write(&path, Some("written by the harness")).map_err(|e| e.to_string())?;
                                        texts.push(std::fs::read_to_string(&path).map_err(|e| e.to_string())?);
                                        cur = a2lfile::load(&path, None, false).map_err(|e| e.to_string())?.0;
                                    }
                                    Ok::<_, String>((texts, cur))
                                });
                                let _ = std::fs::remove_file(&path);
                                match cyc {
                                    Err(p) => RT::Viol { oracle: "panic", what: p },
                                    Ok(Err(e)) => RT::Viol { oracle: "reload-fails", what: format!("banner save cycles: {e}") },
                                    Ok(Ok((texts, cur))) => {
                                        if cur != f {
                                            RT::Viol { oracle: "model-differs", what: "the model changes over save cycles with a banner".into() }
                                        } else if texts[2] != texts[1] || texts[3] != texts[2] {
                                            RT::Viol { oracle: "text-drifts", what: format!("file saved with a banner changes from cycle to cycle: {} -> {} -> {} -> {} bytes", texts[0].len(), texts[1].len(), texts[2].len(), texts[3].len()) }
                                        } else {
                                            RT::Ok { bytes_t1: t.len() }
                                        }
                                    }
                                }
                            }
                        }
                    },
                );
            }
            let Some(a) = text.find("/begin MODULE") else { return ("fragment", RT::NotAccepted) };
            let Some(b) = text.rfind("/end MODULE") else { return ("fragment", RT::NotAccepted) };
            let Some(nl) = text[a..].find('\n') else { return ("fragment", RT::NotAccepted) };
            if a + nl >= b {
                return ("fragment", RT::NotAccepted);
            }
            let frag = &text[a + nl..b];
            let full = match load(text, None, false) {
                Loaded::Ok(f, log) if log.is_empty() => f,
                _ => return ("fragment", RT::NotAccepted),
            };
            let m = match vcore::explore::guard(|| a2lfile::load_fragment(frag, None)) {
                Err(p) => return ("fragment", RT::Viol { oracle: "panic", what: p }),
                Ok(Err(e)) => return ("fragment", RT::Viol { oracle: "fragment-rejected", what: format!("the module content of a valid document is rejected as fragment: {e}") }),
                Ok(Ok(m)) => m,
            };
            let mut m_named = m.clone();
            {
                use a2lfile::{A2lObjectName, A2lObjectNameSetter};
                let n = full.project.module[0].get_name().to_string();
                m_named.set_name(n);
            }
            m_named.long_identifier = full.project.module[0].long_identifier.clone();
            if m_named != full.project.module[0] {
                return ("fragment", RT::Viol { oracle: "fragment-differs", what: "load_fragment yields a different module than loading the whole document".into() });
            }
            let mut f = a2lfile::new();
            f.project.module[0] = m;
            ("fragment", roundtrip_model(&f))
        },
        &|j| {
            println!("MACHINERY-ERROR: C01 fragment case {j} hangs");
            std::process::exit(2);
        },
    );
    let _ = std::fs::remove_dir_all(&scratch);
    for (j, (fam, r)) in fres.into_iter().enumerate() {
        run.evaluations += 1;
        run.transitions += 4;
        let h = fnv1a(format!("{fam} {}", fdocs[j / 2].0).as_bytes());
        run.states.insert(h);
        match r {
            RT::Ok { .. } => {
                run.nontrivial.insert(h);
                run.outcome(&format!("{fam}: stable"));
            }
            RT::NotAccepted => run.outcome(&format!("{fam}: not applicable")),
            RT::Viol { oracle, what } => {
                run.outcome(&format!("{fam}: violation"));
                let tag = fdocs[j / 2].0.clone();
                let key = if oracle.starts_with("panic") { format!("C01/{oracle} {}", vcore::explore::panic_key(&what)) } else { format!("C01/{oracle}/{fam}:{tag}") };
                run.violation(key, format!("{fam} of {tag}: {what}"), json!({"text": fdocs[j / 2].1, "family": fam, "label": tag}));
            }
        }
    }
    run.require("fragment: stable", 100);
    run.require("banner: stable", 100);
    run.require("push-history: stable", 100);
    run.require("api: stable", 500);
    run.require("grammar: stable", 1000);
    run.require("ws: stable", 1000);
    run.require("cm: stable", 1000);
    run.require("val: stable", 1000);
    run.require("ifdata: stable", 50);
    run.rule = "documents = grammar carriers + every optional slot (once, twice, pairs) + every enum item, each also with CRLF; whitespace (7 kinds) and comments (7 kinds) at every gap of every carrier and of rich documents, all pairs on selected documents; every value class at every scalar parameter (ints per width, 28 float notations, all strings of <= k escape units, identifier shapes); IF_DATA x {with/without A2ML} x {built-in spec} x CRLF; 7 whitespace and 10 comment shapes at every gap inside 10 IF_DATA payloads; the MODULE content of every carrier / optional-slot / rich document through load_fragment (equal to the module of the whole document, stable when placed in a new file); every such document written with a banner to a file and loaded from it; every carrier / optional-slot / rich document loaded and then edited through the API in every scalar field of every element (4 integer value modes); operation histories: every sequence of <= 2 (thorough 3) operations over {push x 8 kinds, remove first / last, field edit, sort, sort_new_items, cleanup, ifdata_cleanup, merge_includes, merge_modules with 4 partners (other documents, identical twin, same names with other content), reload} from 5 start files, the resulting model judged by the same oracle. Oracle: t0 -load-> M0 -write-> t1 -load-> M1 -write-> t2: reload ok, M1 == M0, t2 == t1 bytewise (3rd cycle classifies drift). distinct = distinct input text; non-trivial = accepted by the loader".into();
    run.assumptions = vec!["inputs the loader rejects are outside the quantifier and only counted".into()];
    run
}

pub fn replay(v: &Value) -> Result<String, String> {
    if let Some(ed) = v.get("edited_document") {
        let text = ed["text"].as_str().ok_or("no text")?;
        let Loaded::Ok(mut f, _) = load(text, None, false) else { return Ok("not loadable".into()) };
        crate::gen_builders::set_mode(ed["mode"].as_u64().unwrap_or(0) as u8);
        let mut k = 8000u32;
        crate::gen_builders::mutate_Project(&mut f.project, &mut k);
        crate::gen_builders::set_mode(0);
        return match roundtrip_model(&f) {
            RT::Viol { oracle, what } => Err(format!("{oracle}: {what}")),
            _ => Ok("stable".into()),
        };
    }
    if let Some(oh) = v.get("op_history") {
        let g = corpus::grammar();
        let w = crate::hist::world(&g);
        let st = oh["start"].as_u64().ok_or("no start")? as usize;
        let ops: Vec<crate::hist::HAct> = oh["ops"].as_array().ok_or("no ops")?.iter().filter_map(|o| o.as_str().and_then(crate::hist::act_from)).collect();
        return match crate::hist::judge(&w, st, &ops) {
            RT::Ok { bytes_t1 } => Ok(format!("stable, {bytes_t1} bytes")),
            RT::NotAccepted => Ok("not applicable".into()),
            RT::Viol { oracle, what } => Err(format!("{oracle}: {what}")),
        };
    }
    if let Some(j) = v["api_case"].as_u64() {
        let j = j as usize;
        crate::gen_builders::set_mode((j % 4) as u8);
        let j = j / 4;
        let (_, mut f) = crate::gen_builders::build_slot(j / 8, 1 + (j % 2), (j / 2) % 2 * 2);
        if (j / 4) % 2 == 1 {
            f.sort_new_items();
        }
        return match roundtrip_model(&f) {
            RT::Viol { oracle, what } => Err(format!("{oracle}: {what}")),
            _ => Ok("stable".into()),
        };
    }
    if let Some(h) = v.get("history") {
        let kind = h["kind"].as_str().unwrap_or("").to_string();
        let n = h["n"].as_u64().unwrap_or(0) as usize;
        let from_new = h["from_new"].as_bool().unwrap_or(false);
        let g = corpus::grammar();
        let base_text = corpus::rich_docs(&g)[0].doc.text();
        let mut f = if from_new { a2lfile::new() } else { a2lfile::load_from_string(&base_text, None, true).map_err(|e| e.to_string())?.0 };
        let mut k = 7000u32;
        for _ in 0..n {
            crate::gen_builders::push_module_item(&mut f, &kind, &mut k, 1);
        }
        return match roundtrip_model(&f) {
            RT::Viol { oracle, what } => Err(format!("{oracle}: {what}")),
            _ => Ok("stable".into()),
        };
    }
    let text = v["text"].as_str().ok_or("no text")?;
    let spec = v["spec"].as_str();
    match roundtrip(text, spec) {
        RT::NotAccepted => Ok("input not accepted by the loader".into()),
        RT::Ok { bytes_t1 } => Ok(format!("stable ({bytes_t1} bytes)")),
        RT::Viol { oracle, what } => Err(format!("{oracle}: {what}")),
    }
}
