//! C13 — ItemList coherence: explicit-state search of the real ItemList against a vector model.

use a2lfile::{A2lObjectName, A2lObjectNameSetter, ItemList};
use serde_json::{json, Value};
use std::cmp::Ordering;
use vcore::explore::{bfs, fnv1a, guard};
use vcore::report::Run;

#[derive(Clone, Debug, PartialEq)]
pub struct It {
    name: String,
    id: u32,
}
impl A2lObjectName for It {
    fn get_name(&self) -> &str {
        &self.name
    }
}
impl A2lObjectNameSetter for It {
    fn set_name(&mut self, name: String) {
        self.name = name;
    }
}

#[derive(Clone, Debug, PartialEq)]
pub enum Op {
    Push(String),
    Pop,
    SwapRemove(String),
    SwapRemoveIdx(usize),
    RetainAll,
    RetainNone,
    RetainNot(String),
    RetainEvenIdx,
    /// retain with a predicate that renames the element at the index (to a fresh name) and 0: keeps everything, 1: drops the
    /// renamed element, 2: keeps only the renamed element, 3: drops the first element
    RetainRename(usize, String, u8),
    Truncate(usize),
    SortAsc,
    SortDesc,
    Rename(usize, String),
    /// names, shape of the iterator: 0 = exact size hint (Vec), 1 = lower bound 0 (filter), 2 = exact half chained with a filtered half, 3 = no upper bound (from_fn)
    Extend(Vec<String>, u8),
    Clear,
    /// 0 = exact size hint, 1 = through a filter
    Collect(u8),
    CloneIt,
    GetMutEdit(String),
    IterMutEdit,
}

#[derive(Clone)]
pub struct St {
    list: ItemList<It>,
    model: Vec<(String, u32)>,
    next_id: u32,
}

pub fn initial() -> St {
    St { list: ItemList::new(), model: vec![], next_id: 0 }
}

pub fn names(n: usize) -> Vec<String> {
    ["a", "b", "c", "d", "e", "f", "g"][..n].iter().map(|s| s.to_string()).collect()
}

pub fn actions(st: &St, alphabet: &[String]) -> Vec<Op> {
    let len = st.model.len();
    let present: Vec<&String> = st.model.iter().map(|m| &m.0).collect();
    let absent: Vec<&String> = alphabet.iter().filter(|n| !present.contains(n)).collect();
    let mut v = Vec::new();
    for n in &absent {
        v.push(Op::Push((*n).clone()));
    }
    v.push(Op::Pop);
    for n in alphabet {
        v.push(Op::SwapRemove(n.clone()));
        v.push(Op::RetainNot(n.clone()));
        v.push(Op::GetMutEdit(n.clone()));
    }
    for i in 0..=len + 1 {
        v.push(Op::SwapRemoveIdx(i));
        v.push(Op::Truncate(i));
    }
    // arguments far out of range (arithmetic on them must not overflow)
    for i in [len + 7, usize::MAX / 2, usize::MAX - 4, usize::MAX - 1, usize::MAX] {
        v.push(Op::SwapRemoveIdx(i));
        v.push(Op::Truncate(i));
        if let Some(n) = absent.first() {
            v.push(Op::Rename(i, (*n).clone()));
        }
    }
    if let Some(n) = absent.first() {
        for i in 0..len {
            for mode in 0..4u8 {
                v.push(Op::RetainRename(i, (*n).clone(), mode));
            }
        }
    }
    v.push(Op::RetainAll);
    v.push(Op::RetainNone);
    v.push(Op::RetainEvenIdx);
    v.push(Op::SortAsc);
    v.push(Op::SortDesc);
    for i in 0..=len {
        // rename to a fresh name or to its own name (uniqueness is the only precondition)
        for n in &absent {
            v.push(Op::Rename(i, (*n).clone()));
        }
        if i < len {
            v.push(Op::Rename(i, st.model[i].0.clone()));
        }
    }
    v.push(Op::Extend(vec![], 0));
    v.push(Op::Extend(vec![], 1));
    for kind in 0..4u8 {
        if !absent.is_empty() {
            v.push(Op::Extend(vec![absent[0].clone()], kind));
        }
        if absent.len() >= 2 {
            v.push(Op::Extend(vec![absent[0].clone(), absent[1].clone()], kind));
            v.push(Op::Extend(vec![absent[1].clone(), absent[0].clone()], kind));
        }
    }
    v.push(Op::Clear);
    v.push(Op::Collect(0));
    v.push(Op::Collect(1));
    v.push(Op::CloneIt);
    v.push(Op::IterMutEdit);
    v
}

/// apply `op` to the real list and to the model; compare the return values
pub fn step(st: &St, op: &Op) -> Result<St, String> {
    let mut ns = st.clone();
    let r = guard(|| -> Result<(), String> {
        match op {
            Op::Push(n) => {
                let id = ns.next_id;
                ns.next_id += 1;
                ns.list.push(It { name: n.clone(), id });
                ns.model.push((n.clone(), id));
            }
            Op::Pop => {
                let got = ns.list.pop().map(|i| (i.name, i.id));
                let exp = ns.model.pop();
                if got != exp {
                    return Err(format!("pop returned {got:?}, model {exp:?}"));
                }
            }
            Op::SwapRemove(n) => {
                let got = ns.list.swap_remove(n).map(|i| (i.name, i.id));
                let exp = ns.model.iter().position(|m| &m.0 == n).map(|p| ns.model.swap_remove(p));
                if got != exp {
                    return Err(format!("swap_remove({n}) returned {got:?}, model {exp:?}"));
                }
            }
            Op::SwapRemoveIdx(i) => {
                let got = ns.list.swap_remove_idx(*i).map(|i| (i.name, i.id));
                let exp = if *i < ns.model.len() { Some(ns.model.swap_remove(*i)) } else { None };
                if got != exp {
                    return Err(format!("swap_remove_idx({i}) returned {got:?}, model {exp:?}"));
                }
            }
            Op::RetainAll => ns.list.retain(|_| true),
            Op::RetainNone => {
                ns.list.retain(|_| false);
                ns.model.clear();
            }
            Op::RetainNot(n) => {
                ns.list.retain(|i| &i.name != n);
                ns.model.retain(|m| &m.0 != n);
            }
            Op::RetainRename(idx, n, mode) => {
                let mut k = 0usize;
                ns.list.retain(|it| {
                    let here = k == *idx;
                    if here {
                        it.set_name(n.clone());
                    }
                    k += 1;
                    match mode {
                        0 => true,
                        1 => !here,
                        2 => here,
                        _ => k != 1,
                    }
                });
                if *idx < ns.model.len() {
                    ns.model[*idx].0 = n.clone();
                }
                let mut k = 0usize;
                ns.model.retain(|_| {
                    let here = k == *idx;
                    k += 1;
                    match mode {
                        0 => true,
                        1 => !here,
                        2 => here,
                        _ => k != 1,
                    }
                });
            }
            Op::RetainEvenIdx => {
                let mut k = 0;
                ns.list.retain(|_| {
                    k += 1;
                    (k - 1) % 2 == 0
                });
                let mut k = 0;
                ns.model.retain(|_| {
                    k += 1;
                    (k - 1) % 2 == 0
                });
            }
            Op::Truncate(k) => {
                ns.list.truncate(*k);
                ns.model.truncate(*k);
            }
            Op::SortAsc => {
                ns.list.sort_by(|a, b| a.name.cmp(&b.name));
                ns.model.sort_by(|a, b| a.0.cmp(&b.0));
            }
            Op::SortDesc => {
                ns.list.sort_by(|a, b| match a.name.cmp(&b.name) {
                    Ordering::Less => Ordering::Greater,
                    Ordering::Greater => Ordering::Less,
                    o => o,
                });
                ns.model.sort_by(|a, b| b.0.cmp(&a.0));
            }
            Op::Rename(i, n) => {
                ns.list.rename_item(*i, n);
                if *i < ns.model.len() {
                    ns.model[*i].0 = n.clone();
                }
            }
            Op::Extend(v, kind) => {
                let mut items = Vec::new();
                for n in v {
                    let id = ns.next_id;
                    ns.next_id += 1;
                    items.push(It { name: n.clone(), id });
                    ns.model.push((n.clone(), id));
                }
                match kind {
                    0 => ns.list.extend(items),
                    1 => ns.list.extend(items.into_iter().filter(|_| true)),
                    2 => {
                        let second = items.split_off(items.len() / 2);
                        ns.list.extend(items.into_iter().chain(second.into_iter().filter(|_| true)));
                    }
                    _ => {
                        let mut it = items.into_iter();
                        ns.list.extend(std::iter::from_fn(move || it.next()));
                    }
                }
            }
            Op::Clear => {
                ns.list.clear();
                ns.model.clear();
            }
            Op::Collect(kind) => {
                let l = std::mem::take(&mut ns.list);
                ns.list = if *kind == 0 { l.into_iter().collect() } else { l.into_iter().filter(|_| true).collect() };
            }
            Op::CloneIt => {
                let l = ns.list.clone();
                ns.list = l;
            }
            Op::GetMutEdit(n) => {
                // editing a non-name field through get_mut must not disturb anything
                let got = ns.list.get_mut(n).map(|it| {
                    it.id += 1000;
                    it.id
                });
                let exp = ns.model.iter_mut().find(|m| &m.0 == n).map(|m| {
                    m.1 += 1000;
                    m.1
                });
                if got != exp {
                    return Err(format!("get_mut({n}) gave {got:?}, model {exp:?}"));
                }
            }
            Op::IterMutEdit => {
                for it in ns.list.iter_mut() {
                    it.id += 1000;
                }
                for it in &mut ns.list {
                    it.id += 1000;
                }
                for m in ns.model.iter_mut() {
                    m.1 += 2000;
                }
            }
        }
        Ok(())
    });
    match r {
        Ok(Ok(())) => Ok(ns),
        Ok(Err(e)) => Err(format!("return-value: {e}")),
        Err(p) => Err(format!("panic: {p}")),
    }
}

pub fn invariant(st: &St, alphabet: &[String]) -> Result<(), String> {
    let l = &st.list;
    let m = &st.model;
    guard(|| -> Result<(), String> {
        if l.len() != m.len() {
            return Err(format!("len {} vs model {}", l.len(), m.len()));
        }
        if l.is_empty() != m.is_empty() {
            return Err("is_empty disagrees".into());
        }
        let it: Vec<(String, u32)> = l.iter().map(|i| (i.name.clone(), i.id)).collect();
        if &it != m {
            return Err(format!("iteration order {it:?} != model {m:?}"));
        }
        let it2: Vec<(String, u32)> = (&st.list).into_iter().map(|i| (i.name.clone(), i.id)).collect();
        if &it2 != m {
            return Err("IntoIterator for &ItemList order differs".into());
        }
        let it3: Vec<(String, u32)> = l.clone().into_iter().map(|i| (i.name, i.id)).collect();
        if &it3 != m {
            return Err("into_iter order differs".into());
        }
        if l.first().map(|i| i.id) != m.first().map(|x| x.1) || l.last().map(|i| i.id) != m.last().map(|x| x.1) {
            return Err("first/last disagree".into());
        }
        for (i, (n, id)) in m.iter().enumerate() {
            match l.get(n) {
                Some(x) if x.id == *id && &x.name == n => {}
                other => return Err(format!("get({n}) = {other:?}, expected id {id} at position {i}")),
            }
            if l.index(n) != Some(i) {
                return Err(format!("index({n}) = {:?}, expected {i}", l.index(n)));
            }
            if !l.contains_key(n) {
                return Err(format!("contains_key({n}) false"));
            }
            if l[i].id != *id || l[n.as_str()].id != *id {
                return Err(format!("Index impls disagree for {n}"));
            }
            let mut lc = l.clone();
            match lc.get_mut(n) {
                Some(x) if x.id == *id => {}
                _ => return Err(format!("get_mut({n}) wrong")),
            }
        }
        let mut keys: Vec<String> = l.keys().cloned().collect();
        keys.sort();
        let mut exp: Vec<String> = m.iter().map(|x| x.0.clone()).collect();
        exp.sort();
        if keys != exp {
            return Err(format!("keys() = {keys:?}, names = {exp:?}"));
        }
        for n in alphabet {
            if !m.iter().any(|x| &x.0 == n) {
                if l.get(n).is_some() || l.index(n).is_some() || l.contains_key(n) {
                    return Err(format!("absent name {n} is still reachable"));
                }
            }
        }
        // PartialEq with a freshly collected list
        let fresh: ItemList<It> = m.iter().map(|(n, id)| It { name: n.clone(), id: *id }).collect();
        if fresh != *l {
            return Err("PartialEq with an equal list is false".into());
        }
        Ok(())
    })
    .unwrap_or_else(|p| Err(format!("panic in lookup: {p}")))
}

pub fn canon(st: &St) -> String {
    let mut s = String::new();
    for it in st.list.iter() {
        s.push_str(&it.name);
        s.push(',');
    }
    s.push('|');
    let mut keys: Vec<(String, Option<usize>)> =
        st.list.keys().map(|k| (k.clone(), st.list.index(k))).collect();
    keys.sort();
    for (k, i) in keys {
        s.push_str(&format!("{k}={i:?};"));
    }
    s
}

fn key_of(hist: &[Op], err: &str) -> String {
    let last = hist.last().map(|o| format!("{o:?}")).unwrap_or_default();
    let opname = last.split('(').next().unwrap_or("").to_string();
    let class = if err.starts_with("panic") {
        format!("panic {}", vcore::explore::panic_key(err.trim_start_matches("panic: ").trim_start_matches("panic in lookup: ")))
    } else if err.starts_with("return-value") {
        "return-value".to_string()
    } else {
        "incoherent".to_string()
    };
    format!("C13/{opname}/{class}")
}

pub fn run(tier: &str) -> Run {
    let mut run = Run::new("C13", tier);
    let n = if tier == "thorough" { 7 } else { 6 };
    let alphabet = names(n);
    let init = St { list: ItemList::new(), model: vec![], next_id: 0 };
    let al = alphabet.clone();
    let al2 = alphabet.clone();
    let (stats, viol, order) = bfs(
        vec![init.clone()],
        &|s| actions(s, &al),
        &|s, a, _| step(s, a),
        &canon,
        &|s, _| invariant(s, &al2),
        2_000_000,
        64,
    );
    run.evaluations = stats.transitions as u64;
    run.transitions = stats.transitions as u64;
    for k in &order {
        let h = fnv1a(k.as_bytes());
        run.states.insert(h);
        if !k.starts_with('|') {
            run.nontrivial.insert(h);
        }
    }
    // expected number of coherent states: all ordered subsets of the alphabet
    let mut expected = 0usize;
    let mut p = 1usize;
    for k in 0..=n {
        expected += p;
        p *= n - k.min(n - 1).min(n);
        if k == n {
            break;
        }
    }
    // (computed again explicitly to avoid clever arithmetic)
    let mut exp2 = 0usize;
    for k in 0..=n {
        let mut perm = 1usize;
        for j in 0..k {
            perm *= n - j;
        }
        exp2 += perm;
    }
    let _ = expected;
    run.extra.insert("bounds".into(), json!({"names": n, "max_depth_reached": stats.max_depth, "ordered_subsets_of_alphabet": exp2}));
    run.extra.insert("caps".into(), json!({"states": 2_000_000, "hit": stats.cap_hit}));
    if stats.cap_hit {
        run.machinery("state cap hit");
        run.exhaustive = false;
    }
    if viol.is_empty() && stats.states != exp2 {
        run.machinery(format!("reached {} canonical states, expected all {} ordered subsets", stats.states, exp2));
    }
    // second, non-deduplicated exploration to a short depth: same verdicts, all states inside the bfs set
    let depth = if tier == "thorough" { 4 } else { 3 };
    let set: std::collections::HashSet<String> = order.iter().cloned().collect();
    let mut dfs_paths = 0u64;
    let mut dfs_viol = 0u64;
    let mut escaped = 0u64;
    fn dfs(st: &St, d: usize, al: &[String], set: &std::collections::HashSet<String>, paths: &mut u64, viol: &mut u64, escaped: &mut u64) {
        if d == 0 {
            return;
        }
        for a in actions(st, al) {
            *paths += 1;
            match step(st, &a) {
                Err(_) => *viol += 1,
                Ok(ns) => {
                    if invariant(&ns, al).is_err() {
                        *viol += 1;
                        continue;
                    }
                    if !set.contains(&canon(&ns)) {
                        *escaped += 1;
                    }
                    dfs(&ns, d - 1, al, set, paths, viol, escaped);
                }
            }
        }
    }
    dfs(&init, depth, &alphabet, &set, &mut dfs_paths, &mut dfs_viol, &mut escaped);
    run.evaluations += dfs_paths;
    run.transitions += dfs_paths;
    run.extra.insert("dfs_without_dedup".into(), json!({"depth": depth, "paths": dfs_paths, "violating_steps": dfs_viol, "states_outside_bfs_set": escaped}));
    if escaped > 0 {
        run.machinery("non-deduplicated DFS reached a state outside the BFS state set");
    }
    if (dfs_viol > 0) != !viol.is_empty() && viol.iter().any(|v| v.0.len() <= depth) {
        run.machinery("DFS and BFS disagree about the existence of short violations");
    }
    // long lists (sorting and rebuilding strategies may depend on the length): lists of N elements pushed in several
    // arrangements, then every operation sequence of length <= 2, every state checked
    {
        let mut long_paths = 0u64;
        let mut long_states = std::collections::HashSet::new();
        for nn in if tier == "thorough" { vec![20usize, 21, 25, 33, 64] } else { vec![21usize, 25, 64] } {
            let mut al: Vec<String> = (0..nn).map(|i| format!("n{i:03}")).collect();
            al.push("zz1".into());
            al.push("aa0".into());
            let perms: Vec<Vec<usize>> = vec![
                (0..nn).map(|i| (i + 1) % nn).collect(),
                (0..nn).rev().collect(),
                (0..nn).map(|i| (i * 7 + 3) % nn).collect(),
                (0..nn).map(|i| if i < nn / 2 { (i + 3) % (nn / 2) } else { nn / 2 + (i - nn / 2 + 5) % (nn - nn / 2) }).collect(),
                (0..nn).collect(),
            ];
            for perm in perms {
                let mut seen = vec![false; nn];
                if !perm.iter().all(|i| !std::mem::replace(&mut seen[*i], true)) {
                    continue;
                }
                let mut st = init.clone();
                let mut hist: Vec<Op> = Vec::new();
                for i in &perm {
                    let op = Op::Push(al[*i].clone());
                    st = match step(&st, &op) {
                        Ok(s) => s,
                        Err(e) => {
                            hist.push(op.clone());
                            run.violation(key_of(&hist, &e), format!("long list, after {} pushes: {e}", hist.len()), json!({"names": nn, "history": [], "ops": ops_to_json(&hist)}));
                            break;
                        }
                    };
                    hist.push(op);
                }
                if hist.len() != nn {
                    continue;
                }
                // depth-2 exploration from this state
                let first = actions(&st, &al);
                for a1 in &first {
                    long_paths += 1;
                    let mut h1 = hist.clone();
                    h1.push(a1.clone());
                    let s1 = match step(&st, a1).and_then(|s| invariant(&s, &al).map(|_| s)) {
                        Ok(s) => s,
                        Err(e) => {
                            run.violation(format!("{}/long-list", key_of(&h1, &e)), format!("list of {nn} elements, then {a1:?}: {e}"), json!({"names": nn, "history": [format!("{a1:?}")], "ops": ops_to_json(&h1)}));
                            continue;
                        }
                    };
                    long_states.insert(fnv1a(canon(&s1).as_bytes()));
                    // second operation: the order-sensitive ones and lookups by removal
                    for a2 in actions(&s1, &al).into_iter().filter(|o| matches!(o, Op::SortAsc | Op::SortDesc | Op::RetainEvenIdx | Op::Pop | Op::Collect(_) | Op::CloneIt | Op::SwapRemoveIdx(0) | Op::Truncate(1) | Op::Extend(_, 1))) {
                        long_paths += 1;
                        if let Err(e) = step(&s1, &a2).and_then(|s| invariant(&s, &al).map(|_| s)) {
                            let mut h2 = h1.clone();
                            h2.push(a2.clone());
                            run.violation(format!("{}/long-list", key_of(&h2, &e)), format!("list of {nn} elements, then {a1:?}, {a2:?}: {e}"), json!({"names": nn, "history": [format!("{a1:?}"), format!("{a2:?}")], "ops": ops_to_json(&h2)}));
                        }
                    }
                }
            }
        }
        run.evaluations += long_paths;
        run.transitions += long_paths;
        run.extra.insert("long_lists".into(), json!({"paths": long_paths, "distinct_states_after_one_operation": long_states.len()}));
        run.outcome_n("long-list transitions", long_paths);
    }
    for (hist, err) in &viol {
        let key = key_of(hist, err);
        run.outcome("violating-transition");
        run.violation(
            key,
            format!("after {:?}: {err}", hist),
            json!({"names": n, "history": hist.iter().map(|o| format!("{o:?}")).collect::<Vec<_>>(), "ops": ops_to_json(hist)}),
        );
    }
    run.outcome_n("transitions-ok", stats.transitions as u64 - viol.len() as u64);
    run.rule = "bfs over all listed ItemList operations (every argument incl. out-of-range) on the real ItemList; a state is the item order plus the (key,index) pairs of the hidden map; every lookup is checked in every state against a Vec model; long lists: 21 / 25 / 64 (thorough also 20, 33) elements pushed in rotated, reversed, multiplicative, two-block and sorted order, then every operation and every order-sensitive second operation; non-trivial = non-empty list".into();
    run.sample(json!(["Push(a)", "Push(b)", "SwapRemove(b)"]));
    run.sample(json!(order.iter().take(8).collect::<Vec<_>>()));
    run.assumptions = vec![
        "names unique (precondition of the property): push/rename/extend only use names not in the list".into(),
        "Index<&str> on an absent key panics by design (std semantics), not exercised".into(),
    ];
    run
}

fn ops_to_json(h: &[Op]) -> Value {
    Value::Array(
        h.iter()
            .map(|o| match o {
                Op::Push(n) => json!(["push", n]),
                Op::Pop => json!(["pop"]),
                Op::SwapRemove(n) => json!(["swap_remove", n]),
                Op::SwapRemoveIdx(i) => json!(["swap_remove_idx", i]),
                Op::RetainAll => json!(["retain_all"]),
                Op::RetainNone => json!(["retain_none"]),
                Op::RetainNot(n) => json!(["retain_not", n]),
                Op::RetainEvenIdx => json!(["retain_even"]),
                Op::RetainRename(i, n, m) => json!(["retain_rename", i, n, m]),
                Op::Truncate(k) => json!(["truncate", k]),
                Op::SortAsc => json!(["sort_asc"]),
                Op::SortDesc => json!(["sort_desc"]),
                Op::Rename(i, n) => json!(["rename", i, n]),
                Op::Extend(v, k) => json!(["extend", v, k]),
                Op::Clear => json!(["clear"]),
                Op::Collect(k) => json!(["collect", k]),
                Op::CloneIt => json!(["clone"]),
                Op::GetMutEdit(n) => json!(["get_mut_edit", n]),
                Op::IterMutEdit => json!(["iter_mut_edit"]),
            })
            .collect(),
    )
}

fn op_from_json(v: &Value) -> Option<Op> {
    let a = v.as_array()?;
    let s = |i: usize| a.get(i).and_then(|x| x.as_str()).map(|x| x.to_string());
    let u = |i: usize| a.get(i).and_then(|x| x.as_u64()).map(|x| x as usize);
    Some(match a.first()?.as_str()? {
        "push" => Op::Push(s(1)?),
        "pop" => Op::Pop,
        "swap_remove" => Op::SwapRemove(s(1)?),
        "swap_remove_idx" => Op::SwapRemoveIdx(u(1)?),
        "retain_all" => Op::RetainAll,
        "retain_none" => Op::RetainNone,
        "retain_not" => Op::RetainNot(s(1)?),
        "retain_even" => Op::RetainEvenIdx,
        "retain_rename" => Op::RetainRename(u(1)?, s(2)?, u(3).unwrap_or(0) as u8),
        "truncate" => Op::Truncate(u(1)?),
        "sort_asc" => Op::SortAsc,
        "sort_desc" => Op::SortDesc,
        "rename" => Op::Rename(u(1)?, s(2)?),
        "extend" => Op::Extend(a.get(1)?.as_array()?.iter().filter_map(|x| x.as_str().map(|s| s.to_string())).collect(), u(2).unwrap_or(0) as u8),
        "clear" => Op::Clear,
        "collect" => Op::Collect(u(1).unwrap_or(0) as u8),
        "clone" => Op::CloneIt,
        "get_mut_edit" => Op::GetMutEdit(s(1)?),
        "iter_mut_edit" => Op::IterMutEdit,
        _ => return None,
    })
}

pub fn replay(v: &Value) -> Result<String, String> {
    let n = v["names"].as_u64().unwrap_or(4) as usize;
    let alphabet = if n <= 7 {
        names(n)
    } else {
        let mut al: Vec<String> = (0..n).map(|i| format!("n{i:03}")).collect();
        al.push("zz1".into());
        al.push("aa0".into());
        al
    };
    let ops: Vec<Op> = v["ops"].as_array().ok_or("no ops")?.iter().filter_map(op_from_json).collect();
    let mut st = St { list: ItemList::new(), model: vec![], next_id: 0 };
    for (i, op) in ops.iter().enumerate() {
        st = step(&st, op).map_err(|e| format!("step {i} {op:?}: {e}"))?;
        invariant(&st, &alphabet).map_err(|e| format!("after step {i} {op:?}: {e}"))?;
    }
    Ok(format!("{} operations replayed", ops.len()))
}
