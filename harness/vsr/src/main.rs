//! vsr — C13 explored a second time by stateright (explicit-state BFS over the real ItemList).
//! Prints one JSON line: {"names":n,"unique_states":..,"expected":..,"discoveries":[..]}

use stateright::{Checker, Model, Property};
use std::hash::{Hash, Hasher};

#[allow(dead_code)]
#[path = "../../vmain/src/c13.rs"]
mod c13;

#[derive(Clone)]
struct W {
    st: c13::St,
    key: String,
    failed: Option<String>,
}
impl W {
    fn new(st: c13::St, failed: Option<String>) -> W {
        let key = format!("{}{}", c13::canon(&st), if failed.is_some() { "!" } else { "" });
        W { st, key, failed }
    }
}
impl PartialEq for W {
    fn eq(&self, o: &W) -> bool {
        self.key == o.key
    }
}
impl Eq for W {}
impl Hash for W {
    fn hash<H: Hasher>(&self, h: &mut H) {
        self.key.hash(h)
    }
}
impl std::fmt::Debug for W {
    fn fmt(&self, f: &mut std::fmt::Formatter<'_>) -> std::fmt::Result {
        write!(f, "{}", self.key)
    }
}

struct M {
    alphabet: Vec<String>,
}

impl Model for M {
    type State = W;
    type Action = c13::Op;
    fn init_states(&self) -> Vec<W> {
        vec![W::new(c13::initial(), None)]
    }
    fn actions(&self, s: &W, out: &mut Vec<c13::Op>) {
        if s.failed.is_none() {
            out.extend(c13::actions(&s.st, &self.alphabet));
        }
    }
    fn next_state(&self, s: &W, a: c13::Op) -> Option<W> {
        Some(match c13::step(&s.st, &a) {
            Ok(ns) => W::new(ns, None),
            Err(e) => W::new(s.st.clone(), Some(format!("{a:?}: {e}"))),
        })
    }
    fn properties(&self) -> Vec<Property<Self>> {
        vec![Property::<Self>::always("list, name index and model agree", |m, s| s.failed.is_none() && c13::invariant(&s.st, &m.alphabet).is_ok())]
    }
}

fn main() {
    let n: usize = std::env::args().nth(1).and_then(|s| s.parse().ok()).unwrap_or(4);
    let alphabet = c13::names(n);
    let checker = M { alphabet }.checker().threads(std::thread::available_parallelism().map(|n| n.get()).unwrap_or(4)).spawn_bfs().join();
    let mut expected = 0usize;
    for k in 0..=n {
        let mut perm = 1usize;
        for j in 0..k {
            perm *= n - j;
        }
        expected += perm;
    }
    let disc: Vec<String> = checker.discoveries().into_iter().map(|(name, path)| format!("{name}: {:?}", path.into_actions())).collect();
    println!("{}", serde_json::json!({"names": n, "unique_states": checker.unique_state_count(), "expected": expected, "done": checker.is_done(), "discoveries": disc}));
}
