//! I — reference interpreter: a table-driven recogniser for the strict A2L language defined by
//! the frozen grammar G over the tokens of the reference tokenizer T.

use crate::grammar::*;
use crate::reftok::{self, Kind, Lexed, Tok};

#[derive(Debug, Clone, PartialEq, Eq, Hash)]
pub enum Class {
    Lexical,
    MissingVersion,
    BadVersion,
    WrongType,
    IdentForString,
    BadNumber,
    OutOfRange,
    BadEnum,
    BadIdent,
    UnknownTag,
    TooMany,
    Missing,
    NeedsBlock,
    NeedsKeyword,
    EndTag,
    BlockTooNew,
    EnumTooNew,
    Eof,
    Trailing,
    InvalidBegin,
}

#[derive(Debug, Clone)]
pub struct Reject {
    pub class: Class,
    /// index of the significant token at which the problem is detected (tokens.len() for EOF)
    pub at: usize,
    pub detail: String,
}

#[derive(Debug, Clone)]
pub struct INode {
    pub tag: String,
    pub block: bool,
    /// token index of the tag
    pub tag_tok: usize,
    /// token indices of the fixed parameters / sequence entries, with grammar item index
    pub params: Vec<(usize, usize)>,
    pub children: Vec<INode>,
    /// token range [first, last] of the whole element including /begin and /end tag
    pub first_tok: usize,
    pub last_tok: usize,
    /// payload token range for IF_DATA / raw token for A2ML
    pub payload: Option<(usize, usize)>,
}

#[derive(Debug, Clone)]
pub struct Accept {
    pub root: INode,
    pub version: usize,
    pub deprecated: Vec<(usize, String)>,
}

pub struct Interp<'a> {
    g: &'a Grammar,
    t: &'a [Tok],
    pos: usize,
    version: usize,
    deprecated: Vec<(usize, String)>,
}

pub fn int_literal_value(text: &str) -> Option<(i128, bool)> {
    if text.len() > 2 && (text.starts_with("0x") || text.starts_with("0X")) {
        return u64::from_str_radix(&text[2..], 16).ok().map(|v| (v as i128, true));
    }
    let body = text.strip_prefix('+').unwrap_or(text);
    if body.is_empty() {
        return None;
    }
    let digits = body.strip_prefix('-').unwrap_or(body);
    if digits.is_empty() || !digits.chars().all(|c| c.is_ascii_digit()) {
        return None;
    }
    body.parse::<i128>().ok().map(|v| (v, false))
}

pub fn float_literal_ok(text: &str) -> bool {
    if text.starts_with("0x") || text.starts_with("0X") {
        return u64::from_str_radix(&text[2..], 16).is_ok();
    }
    // a literal that overflows to infinity is not representable
    text.parse::<f64>().map_or(false, |v| v.is_finite())
}

impl<'a> Interp<'a> {
    fn rej<T>(&self, class: Class, at: usize, detail: impl Into<String>) -> Result<T, Reject> {
        Err(Reject { class, at, detail: detail.into() })
    }
    fn peek(&self) -> Option<&'a Tok> {
        self.t.get(self.pos)
    }
    fn next(&mut self) -> Result<(usize, &'a Tok), Reject> {
        match self.t.get(self.pos) {
            Some(t) => {
                self.pos += 1;
                Ok((self.pos - 1, t))
            }
            None => self.rej(Class::Eof, self.t.len(), "end of input"),
        }
    }

    fn scalar(&mut self, ty: &PType) -> Result<usize, Reject> {
        let (i, t) = self.next()?;
        match ty {
            PType::Ident => {
                if t.kind != Kind::Ident {
                    return self.rej(Class::WrongType, i, format!("identifier expected, got {:?}", t.kind));
                }
                if t.text.as_bytes()[0].is_ascii_digit() || t.text.len() > 1024 {
                    return self.rej(Class::BadIdent, i, "invalid identifier");
                }
            }
            PType::Str => {
                if t.kind == Kind::Ident {
                    return self.rej(Class::IdentForString, i, "identifier in place of a string");
                }
                if t.kind != Kind::Str {
                    return self.rej(Class::WrongType, i, format!("string expected, got {:?}", t.kind));
                }
            }
            PType::Float => {
                if t.kind != Kind::Num {
                    return self.rej(Class::WrongType, i, format!("number expected, got {:?}", t.kind));
                }
                if !float_literal_ok(&t.text) {
                    return self.rej(Class::BadNumber, i, "malformed float");
                }
            }
            PType::Enum(en) => {
                if t.kind != Kind::Ident {
                    return self.rej(Class::WrongType, i, format!("enum item expected, got {:?}", t.kind));
                }
                let ed = self.g.enumdef(en);
                match ed.items.iter().find(|it| it.name == t.text) {
                    None => return self.rej(Class::BadEnum, i, format!("{} is not an item of {en}", t.text)),
                    Some(it) => {
                        if it.vmin.map_or(false, |m| self.version < m) {
                            return self.rej(Class::EnumTooNew, i, format!("{} is newer than the file version", t.text));
                        }
                        if it.vmax.map_or(false, |m| self.version > m) {
                            self.deprecated.push((i, format!("enum:{}", t.text)));
                        }
                    }
                }
            }
            int => {
                if t.kind != Kind::Num {
                    return self.rej(Class::WrongType, i, format!("number expected, got {:?}", t.kind));
                }
                let Some((v, hex)) = int_literal_value(&t.text) else {
                    return self.rej(Class::BadNumber, i, "malformed integer");
                };
                let (bits, _signed) = int.int_shape().unwrap();
                let (lo, hi) = int.int_min_max().unwrap();
                let ok = if hex { bits == 64 || v < (1i128 << bits) } else { v >= lo && v <= hi };
                if !ok {
                    return self.rej(Class::OutOfRange, i, format!("{} does not fit {int:?}", t.text));
                }
            }
        }
        Ok(i)
    }

    fn element(&mut self, tag: &str, block: bool, tag_tok: usize, first_tok: usize) -> Result<INode, Reject> {
        let e = self.g.elem(tag);
        let mut node = INode {
            tag: tag.to_string(),
            block,
            tag_tok,
            params: vec![],
            children: vec![],
            first_tok,
            last_tok: tag_tok,
            payload: None,
        };
        match e.special {
            Special::A2ml => {
                // raw token (may be absent when the block is empty)
                if let Some(t) = self.peek() {
                    if t.kind == Kind::Raw {
                        node.payload = Some((self.pos, self.pos));
                        self.pos += 1;
                    }
                }
                return self.end_of(node);
            }
            Special::IfData => {
                let start = self.pos;
                let mut balance = 0i32;
                loop {
                    let Some(t) = self.peek() else {
                        return self.rej(Class::Eof, self.t.len(), "end of input inside IF_DATA");
                    };
                    match t.kind {
                        Kind::Begin => balance += 1,
                        Kind::End => {
                            if balance == 0 {
                                break;
                            }
                            balance -= 1;
                        }
                        _ => {}
                    }
                    self.pos += 1;
                }
                if self.pos > start {
                    node.payload = Some((start, self.pos - 1));
                }
                return self.end_of(node);
            }
            _ => {}
        }
        // an identifier list ends at the tag of a *keyword* sub-element (a bare block tag is, by
        // definition, a list member; blocks are introduced by /begin)
        let stop: Vec<&str> = e.refs.iter().filter(|r| !self.g.elem(&r.tag).is_block).map(|r| r.tag.as_str()).collect();
        for (idx, it) in e.items.iter().enumerate() {
            match it {
                Item::Single { ty, .. } => {
                    let i = self.scalar(ty)?;
                    node.params.push((i, idx));
                }
                Item::Array { ty, dim, .. } => {
                    for _ in 0..*dim {
                        let i = self.scalar(ty)?;
                        node.params.push((i, idx));
                    }
                }
                Item::Seq { fields, .. } => loop {
                    let save = self.pos;
                    let save_dep = self.deprecated.len();
                    let mut got = Vec::new();
                    let mut ok = true;
                    for (fty, _) in fields {
                        match self.scalar(fty) {
                            Ok(i) => got.push((i, idx)),
                            Err(_) => {
                                ok = false;
                                break;
                            }
                        }
                    }
                    if ok && fields.len() == 1 && fields[0].0 == PType::Ident {
                        if stop.contains(&self.t[got[0].0].text.as_str()) {
                            ok = false;
                        }
                    }
                    if !ok {
                        self.pos = save;
                        self.deprecated.truncate(save_dep);
                        break;
                    }
                    node.params.extend(got);
                },
            }
        }
        // tagged region
        let mut counts: Vec<usize> = vec![0; e.refs.len()];
        loop {
            if e.refs.is_empty() {
                break;
            }
            let Some(t) = self.peek() else { break };
            let (is_block, tagpos, first) = match t.kind {
                Kind::Begin => {
                    let first = self.pos;
                    match self.t.get(self.pos + 1) {
                        Some(t2) if t2.kind == Kind::Ident => (true, self.pos + 1, first),
                        Some(_) => return self.rej(Class::InvalidBegin, self.pos + 1, "/begin not followed by a tag"),
                        None => return self.rej(Class::Eof, self.t.len(), "/begin at end of input"),
                    }
                }
                Kind::Ident => (false, self.pos, self.pos),
                _ => break,
            };
            let ctag = self.t[tagpos].text.clone();
            let Some(ri) = e.refs.iter().position(|r| r.tag == ctag) else {
                return self.rej(Class::UnknownTag, tagpos, format!("{ctag} is not a sub-element of {tag}"));
            };
            let r = &e.refs[ri];
            let ce = self.g.elem(&ctag);
            if ce.is_block && !is_block {
                return self.rej(Class::NeedsBlock, tagpos, format!("{ctag} must be a block"));
            }
            if !ce.is_block && is_block {
                return self.rej(Class::NeedsKeyword, tagpos, format!("{ctag} must not be a block"));
            }
            if r.vmin.map_or(false, |m| self.version < m) {
                return self.rej(Class::BlockTooNew, tagpos, format!("{ctag} is newer than the file version"));
            }
            if r.vmax.map_or(false, |m| self.version > m) {
                self.deprecated.push((tagpos, ctag.clone()));
            }
            self.pos = tagpos + 1;
            let child = self.element(&ctag, is_block, tagpos, first)?;
            counts[ri] += 1;
            if !r.repeat && counts[ri] > 1 {
                return self.rej(Class::TooMany, tagpos, format!("{ctag} occurs more than once in {tag}"));
            }
            node.last_tok = child.last_tok;
            node.children.push(child);
        }
        for (ri, r) in e.refs.iter().enumerate() {
            if r.required && counts[ri] == 0 {
                return self.rej(Class::Missing, self.pos.min(self.t.len()), format!("{} is missing in {tag}", r.tag));
            }
        }
        if let Some(p) = node.params.last() {
            node.last_tok = node.last_tok.max(p.0);
        }
        self.end_of(node)
    }

    fn end_of(&mut self, mut node: INode) -> Result<INode, Reject> {
        if let Some((_, b)) = node.payload {
            node.last_tok = node.last_tok.max(b);
        }
        if node.block {
            let (i, t) = self.next()?;
            if t.kind != Kind::End {
                return self.rej(Class::WrongType, i, format!("/end {} expected, got {:?} {}", node.tag, t.kind, t.text));
            }
            let (j, t2) = self.next()?;
            if t2.kind != Kind::Ident {
                return self.rej(Class::WrongType, j, "tag expected after /end");
            }
            if t2.text != node.tag {
                return self.rej(Class::EndTag, j, format!("/end {} closes {}", t2.text, node.tag));
            }
            node.last_tok = j;
        }
        Ok(node)
    }
}

/// recognise a whole file
pub fn recognise(g: &Grammar, lexed: &Lexed) -> Result<Accept, Reject> {
    let t = &lexed.tokens;
    if t.iter().any(|x| x.kind == Kind::Include) {
        return Err(Reject { class: Class::Lexical, at: 0, detail: "include directive".into() });
    }
    // version
    let mut version = None;
    if t.len() >= 3 && t[0].kind == Kind::Ident && t[0].text == "ASAP2_VERSION" {
        if let (Some((a, _)), Some((b, _))) = (int_literal_value(&t[1].text), int_literal_value(&t[2].text)) {
            if t[1].kind == Kind::Num && t[2].kind == Kind::Num {
                match VERSIONS.iter().position(|v| v.0 as i128 == a && v.1 as i128 == b) {
                    Some(v) => version = Some(v),
                    None => return Err(Reject { class: Class::BadVersion, at: 1, detail: format!("unknown version {a} {b}") }),
                }
            }
        }
        if version.is_none() {
            return Err(Reject { class: Class::BadVersion, at: 1, detail: "version not parseable".into() });
        }
    }
    let Some(version) = version else {
        return Err(Reject { class: Class::MissingVersion, at: 0, detail: "no ASAP2_VERSION".into() });
    };
    let mut ip = Interp { g, t, pos: 0, version, deprecated: vec![] };
    // the root is a keyword-form pseudo element without a tag
    let root_e = g.elem("A2L_FILE");
    let mut root = INode { tag: "A2L_FILE".into(), block: false, tag_tok: 0, params: vec![], children: vec![], first_tok: 0, last_tok: 0, payload: None };
    let mut counts = vec![0usize; root_e.refs.len()];
    loop {
        let Some(tok) = ip.peek() else { break };
        let (is_block, tagpos, first) = match tok.kind {
            Kind::Begin => match t.get(ip.pos + 1) {
                Some(t2) if t2.kind == Kind::Ident => (true, ip.pos + 1, ip.pos),
                Some(_) => return Err(Reject { class: Class::InvalidBegin, at: ip.pos + 1, detail: "/begin not followed by a tag".into() }),
                None => return Err(Reject { class: Class::Eof, at: t.len(), detail: "/begin at end".into() }),
            },
            Kind::Ident => (false, ip.pos, ip.pos),
            _ => break,
        };
        let ctag = t[tagpos].text.clone();
        let Some(ri) = root_e.refs.iter().position(|r| r.tag == ctag) else {
            return Err(Reject { class: Class::UnknownTag, at: tagpos, detail: format!("{ctag} at file level") });
        };
        let ce = g.elem(&ctag);
        if ce.is_block && !is_block {
            return Err(Reject { class: Class::NeedsBlock, at: tagpos, detail: ctag });
        }
        if !ce.is_block && is_block {
            return Err(Reject { class: Class::NeedsKeyword, at: tagpos, detail: ctag });
        }
        ip.pos = tagpos + 1;
        let child = ip.element(&ctag, is_block, tagpos, first)?;
        counts[ri] += 1;
        if !root_e.refs[ri].repeat && counts[ri] > 1 {
            return Err(Reject { class: Class::TooMany, at: tagpos, detail: ctag });
        }
        root.last_tok = child.last_tok;
        root.children.push(child);
    }
    for (ri, r) in root_e.refs.iter().enumerate() {
        if r.required && counts[ri] == 0 {
            return Err(Reject { class: Class::Missing, at: ip.pos.min(t.len()), detail: r.tag.clone() });
        }
    }
    if ip.pos < t.len() {
        return Err(Reject { class: Class::Trailing, at: ip.pos, detail: format!("extra token {}", t[ip.pos].text) });
    }
    Ok(Accept { root, version, deprecated: ip.deprecated })
}

pub fn recognise_text(g: &Grammar, text: &str) -> Result<Accept, Reject> {
    match reftok::lex(text) {
        Ok(l) => recognise(g, &l),
        Err(e) => Err(Reject { class: Class::Lexical, at: 0, detail: e }),
    }
}
