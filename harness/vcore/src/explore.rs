//! Explorer utilities: panic-safe execution, deterministic parallel enumeration with a hang
//! watchdog, explicit-state BFS, deviation-bounded index enumeration.

use std::cell::RefCell;
use std::collections::{HashMap, VecDeque};
use std::panic::{catch_unwind, AssertUnwindSafe};
use std::sync::atomic::{AtomicBool, AtomicU64, AtomicUsize, Ordering};
use std::sync::Once;
use std::time::{Duration, Instant};

thread_local! {
    static LAST_PANIC: RefCell<Option<String>> = const { RefCell::new(None) };
}
static HOOK: Once = Once::new();

pub fn install_panic_hook() {
    HOOK.call_once(|| {
        std::panic::set_hook(Box::new(|info| {
            let loc = info
                .location()
                .map(|l| {
                    // strip directories so the key does not depend on where /repo lives
                    let f = l.file().rsplit('/').next().unwrap_or(l.file());
                    format!("{}:{}", f, l.line())
                })
                .unwrap_or_default();
            let msg = if let Some(s) = info.payload().downcast_ref::<&str>() {
                (*s).to_string()
            } else if let Some(s) = info.payload().downcast_ref::<String>() {
                s.clone()
            } else {
                "<non-string panic>".to_string()
            };
            LAST_PANIC.with(|p| *p.borrow_mut() = Some(format!("{loc}: {msg}")));
        }));
    });
}

/// run `f`, converting a panic into Err("file:line: message")
pub fn guard<R>(f: impl FnOnce() -> R) -> Result<R, String> {
    install_panic_hook();
    match catch_unwind(AssertUnwindSafe(f)) {
        Ok(r) => Ok(r),
        Err(_) => Err(LAST_PANIC.with(|p| p.borrow_mut().take()).unwrap_or_else(|| "panic".into())),
    }
}

/// "file.rs:LINE: msg" -> "file.rs: msg-prefix" (line numbers shift with unrelated edits)
pub fn panic_key(p: &str) -> String {
    let mut parts = p.splitn(3, ':');
    let file = parts.next().unwrap_or("");
    let _line = parts.next();
    let msg = parts.next().unwrap_or("").trim();
    // drop concrete numbers from the message
    let mut m = String::new();
    let mut last_digit = false;
    for c in msg.chars() {
        if c.is_ascii_digit() {
            if !last_digit {
                m.push('N');
            }
            last_digit = true;
        } else {
            m.push(c);
            last_digit = false;
        }
    }
    // drop the variable tail of slicing / char-boundary messages
    let mut m = m;
    for cut in ["; it is inside", " when slicing", " of `"] {
        if let Some(p) = m.find(cut) {
            m.truncate(p);
        }
    }
    let m: String = m.chars().take(60).collect();
    format!("{file}: {m}")
}

pub fn n_threads() -> usize {
    std::env::var("VERIF_THREADS")
        .ok()
        .and_then(|s| s.parse().ok())
        .unwrap_or_else(|| std::thread::available_parallelism().map(|n| n.get()).unwrap_or(8).min(16))
}

pub const HANG_SECS: u64 = 20;

/// Evaluate `f(i)` for i in 0..n on all cores; results are returned in index order so the
/// outcome is independent of scheduling. A watchdog calls `on_hang(i)` (which should report
/// and exit the process) if a single case runs longer than HANG_SECS.
pub fn par_map<R: Send>(
    n: usize,
    f: &(dyn Fn(usize) -> R + Sync),
    on_hang: &(dyn Fn(usize) + Sync),
) -> Vec<R> {
    let threads = n_threads().min(n.max(1));
    let next = AtomicUsize::new(0);
    let done = AtomicBool::new(false);
    let t0 = Instant::now();
    let inflight: Vec<(AtomicUsize, AtomicU64)> =
        (0..threads).map(|_| (AtomicUsize::new(usize::MAX), AtomicU64::new(0))).collect();
    let chunk = (n / (threads * 64)).clamp(1, 4096);
    let mut parts: Vec<Vec<(usize, R)>> = Vec::new();
    std::thread::scope(|s| {
        let mut handles = Vec::new();
        for t in 0..threads {
            let next = &next;
            let inflight = &inflight;
            let h = std::thread::Builder::new()
                .stack_size(256 << 20)
                .spawn_scoped(s, move || {
                    let mut local = Vec::new();
                    loop {
                        let start = next.fetch_add(chunk, Ordering::Relaxed);
                        if start >= n {
                            break;
                        }
                        for i in start..(start + chunk).min(n) {
                            inflight[t].1.store(t0.elapsed().as_millis() as u64 + 1, Ordering::Relaxed);
                            inflight[t].0.store(i, Ordering::Relaxed);
                            let r = f(i);
                            inflight[t].0.store(usize::MAX, Ordering::Relaxed);
                            local.push((i, r));
                        }
                    }
                    local
                })
                .unwrap();
            handles.push(h);
        }
        // watchdog
        let wd = s.spawn(|| {
            while !done.load(Ordering::Relaxed) {
                std::thread::sleep(Duration::from_millis(200));
                let now = t0.elapsed().as_millis() as u64;
                for slot in inflight.iter() {
                    let i = slot.0.load(Ordering::Relaxed);
                    let st = slot.1.load(Ordering::Relaxed);
                    if i != usize::MAX && st != 0 && now.saturating_sub(st) > HANG_SECS * 1000 {
                        // re-check the same case is still in flight
                        if slot.0.load(Ordering::Relaxed) == i && slot.1.load(Ordering::Relaxed) == st {
                            on_hang(i);
                        }
                    }
                }
            }
        });
        for h in handles {
            parts.push(h.join().expect("worker thread died"));
        }
        done.store(true, Ordering::Relaxed);
        let _ = wd.join();
    });
    let mut all: Vec<(usize, R)> = parts.into_iter().flatten().collect();
    all.sort_by_key(|x| x.0);
    all.into_iter().map(|x| x.1).collect()
}

/// all index vectors with at most k non-zero entries over `arity[i]` alternatives per point
/// (0 = default), simplest first: 0 deviations, then 1, then 2.
pub fn dbx_vectors(arity: &[usize], k: usize) -> Vec<Vec<(usize, usize)>> {
    let mut out = vec![vec![]];
    if k >= 1 {
        for (i, a) in arity.iter().enumerate() {
            for c in 1..*a {
                out.push(vec![(i, c)]);
            }
        }
    }
    if k >= 2 {
        for i in 0..arity.len() {
            for ci in 1..arity[i] {
                for j in (i + 1)..arity.len() {
                    for cj in 1..arity[j] {
                        out.push(vec![(i, ci), (j, cj)]);
                    }
                }
            }
        }
    }
    out
}

/// explicit-state breadth first search. `S` carries the real object; `canon` renders the
/// property-relevant state; returns (#states, #transitions, max depth, violations)
pub struct BfsStats {
    pub states: usize,
    pub transitions: usize,
    pub max_depth: usize,
    pub cap_hit: bool,
}

pub fn bfs<S, A: Clone + std::fmt::Debug>(
    inits: Vec<S>,
    actions: &dyn Fn(&S) -> Vec<A>,
    step: &dyn Fn(&S, &A, &[A]) -> Result<S, String>,
    canon: &dyn Fn(&S) -> String,
    invariant: &dyn Fn(&S, &[A]) -> Result<(), String>,
    max_states: usize,
    max_depth: usize,
) -> (BfsStats, Vec<(Vec<A>, String)>, Vec<String>) {
    let mut seen: HashMap<String, usize> = HashMap::new();
    let mut order: Vec<String> = Vec::new();
    let mut q: VecDeque<(S, Vec<A>)> = VecDeque::new();
    let mut viol = Vec::new();
    let mut stats = BfsStats { states: 0, transitions: 0, max_depth: 0, cap_hit: false };
    for s in inits {
        let k = canon(&s);
        if !seen.contains_key(&k) {
            seen.insert(k.clone(), 0);
            order.push(k);
            if let Err(e) = invariant(&s, &[]) {
                viol.push((vec![], e));
            }
            q.push_back((s, vec![]));
        }
    }
    while let Some((s, hist)) = q.pop_front() {
        stats.max_depth = stats.max_depth.max(hist.len());
        if hist.len() >= max_depth {
            continue;
        }
        for a in actions(&s) {
            stats.transitions += 1;
            let mut h2 = hist.clone();
            h2.push(a.clone());
            match step(&s, &a, &hist) {
                Err(e) => viol.push((h2, e)),
                Ok(ns) => {
                    if let Err(e) = invariant(&ns, &h2) {
                        viol.push((h2.clone(), e));
                        continue;
                    }
                    let k = canon(&ns);
                    if !seen.contains_key(&k) {
                        if seen.len() >= max_states {
                            stats.cap_hit = true;
                            continue;
                        }
                        seen.insert(k.clone(), h2.len());
                        order.push(k);
                        q.push_back((ns, h2));
                    }
                }
            }
        }
    }
    stats.states = seen.len();
    (stats, viol, order)
}

pub fn fnv1a(s: &[u8]) -> u64 {
    let mut h: u64 = 0xcbf29ce484222325;
    for b in s {
        h ^= *b as u64;
        h = h.wrapping_mul(0x100000001b3);
    }
    h
}
