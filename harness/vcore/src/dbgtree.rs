//! R — generic model reader: parse `format!("{:?}", x)` into a tree. Used as a reflection
//! mechanism over the ~185 generated structs (their Debug impls print every value field and
//! skip layout).

#[derive(Debug, Clone, PartialEq)]
pub enum DVal {
    Struct { name: String, fields: Vec<(String, DVal)> },
    Tuple { name: String, items: Vec<DVal> },
    List(Vec<DVal>),
    Map(Vec<(DVal, DVal)>),
    Str(String),
    Num(String),
    /// unit struct / unit variant / true / false / None / inf / NaN
    Ident(String),
}

pub fn parse(s: &str) -> Result<DVal, String> {
    let chars: Vec<char> = s.chars().collect();
    let mut p = Parser { c: &chars, i: 0 };
    let v = p.value()?;
    p.ws();
    if p.i != chars.len() {
        return Err(format!("trailing input at {}", p.i));
    }
    Ok(v)
}

struct Parser<'a> {
    c: &'a [char],
    i: usize,
}

impl<'a> Parser<'a> {
    fn ws(&mut self) {
        while self.i < self.c.len() && self.c[self.i].is_whitespace() {
            self.i += 1;
        }
    }
    fn peek(&self) -> Option<char> {
        self.c.get(self.i).copied()
    }
    fn eat(&mut self, ch: char) -> Result<(), String> {
        self.ws();
        if self.peek() == Some(ch) {
            self.i += 1;
            Ok(())
        } else {
            Err(format!("expected '{ch}' at {} got {:?}", self.i, self.peek()))
        }
    }
    fn value(&mut self) -> Result<DVal, String> {
        self.ws();
        match self.peek() {
            None => Err("unexpected end".into()),
            Some('"') => self.string().map(DVal::Str),
            Some('[') => {
                self.i += 1;
                let items = self.seq(']')?;
                Ok(DVal::List(items))
            }
            Some('(') => {
                self.i += 1;
                let items = self.seq(')')?;
                Ok(DVal::Tuple { name: String::new(), items })
            }
            Some('{') => {
                self.i += 1;
                let mut entries = Vec::new();
                loop {
                    self.ws();
                    if self.peek() == Some('}') {
                        self.i += 1;
                        break;
                    }
                    let k = self.value()?;
                    self.eat(':')?;
                    let v = self.value()?;
                    entries.push((k, v));
                    self.ws();
                    if self.peek() == Some(',') {
                        self.i += 1;
                    }
                }
                Ok(DVal::Map(entries))
            }
            Some(c) if c.is_ascii_digit() || c == '-' => {
                let s = self.i;
                while self.i < self.c.len()
                    && (self.c[self.i].is_ascii_alphanumeric() || "+-._".contains(self.c[self.i]))
                {
                    self.i += 1;
                }
                Ok(DVal::Num(self.c[s..self.i].iter().collect()))
            }
            Some(c) if c.is_alphabetic() || c == '_' => {
                let s = self.i;
                while self.i < self.c.len() && (self.c[self.i].is_alphanumeric() || self.c[self.i] == '_' || self.c[self.i] == ':') {
                    self.i += 1;
                }
                let name: String = self.c[s..self.i].iter().collect();
                // lookahead: " {" or "("
                let save = self.i;
                self.ws();
                match self.peek() {
                    Some('{') => {
                        self.i += 1;
                        let mut fields = Vec::new();
                        loop {
                            self.ws();
                            if self.peek() == Some('}') {
                                self.i += 1;
                                break;
                            }
                            let fs = self.i;
                            while self.i < self.c.len() && (self.c[self.i].is_alphanumeric() || self.c[self.i] == '_') {
                                self.i += 1;
                            }
                            let fname: String = self.c[fs..self.i].iter().collect();
                            if fname.is_empty() {
                                return Err(format!("field name expected at {}", self.i));
                            }
                            self.eat(':')?;
                            let v = self.value()?;
                            fields.push((fname, v));
                            self.ws();
                            if self.peek() == Some(',') {
                                self.i += 1;
                            }
                        }
                        Ok(DVal::Struct { name, fields })
                    }
                    Some('(') => {
                        self.i += 1;
                        let items = self.seq(')')?;
                        Ok(DVal::Tuple { name, items })
                    }
                    _ => {
                        self.i = save;
                        Ok(DVal::Ident(name))
                    }
                }
            }
            Some(c) => Err(format!("unexpected char {c:?} at {}", self.i)),
        }
    }
    fn seq(&mut self, close: char) -> Result<Vec<DVal>, String> {
        let mut items = Vec::new();
        loop {
            self.ws();
            if self.peek() == Some(close) {
                self.i += 1;
                break;
            }
            items.push(self.value()?);
            self.ws();
            if self.peek() == Some(',') {
                self.i += 1;
            }
        }
        Ok(items)
    }
    fn string(&mut self) -> Result<String, String> {
        // Rust Debug escaping
        self.i += 1;
        let mut out = String::new();
        loop {
            let Some(c) = self.peek() else { return Err("unterminated string".into()) };
            self.i += 1;
            match c {
                '"' => break,
                '\\' => {
                    let Some(d) = self.peek() else { return Err("bad escape".into()) };
                    self.i += 1;
                    match d {
                        'n' => out.push('\n'),
                        'r' => out.push('\r'),
                        't' => out.push('\t'),
                        '0' => out.push('\0'),
                        '\\' => out.push('\\'),
                        '"' => out.push('"'),
                        '\'' => out.push('\''),
                        'u' => {
                            self.eat('{')?;
                            let s = self.i;
                            while self.peek().map_or(false, |c| c != '}') {
                                self.i += 1;
                            }
                            let hex: String = self.c[s..self.i].iter().collect();
                            self.i += 1;
                            let cp = u32::from_str_radix(&hex, 16).map_err(|e| e.to_string())?;
                            out.push(char::from_u32(cp).ok_or("bad code point")?);
                        }
                        other => return Err(format!("unknown escape \\{other}")),
                    }
                }
                c => out.push(c),
            }
        }
        Ok(out)
    }
}

impl DVal {
    pub fn field(&self, name: &str) -> Option<&DVal> {
        match self {
            DVal::Struct { fields, .. } => fields.iter().find(|f| f.0 == name).map(|f| &f.1),
            _ => None,
        }
    }
    pub fn name(&self) -> &str {
        match self {
            DVal::Struct { name, .. } | DVal::Tuple { name, .. } => name,
            DVal::Ident(n) => n,
            _ => "",
        }
    }
    /// `Some(x)` -> Some(x); `None` -> None; anything else -> Some(self)
    pub fn opt(&self) -> Option<&DVal> {
        match self {
            DVal::Tuple { name, items } if name == "Some" && items.len() == 1 => Some(&items[0]),
            DVal::Ident(n) if n == "None" => None,
            other => Some(other),
        }
    }
    /// items of a Vec or of an `ItemList { items: [..], map: {..} }`
    pub fn list(&self) -> Option<&Vec<DVal>> {
        match self {
            DVal::List(v) => Some(v),
            DVal::Struct { name, fields } if name == "ItemList" => {
                fields.iter().find(|f| f.0 == "items").and_then(|f| f.1.list())
            }
            _ => None,
        }
    }
    pub fn as_str(&self) -> Option<&str> {
        match self {
            DVal::Str(s) => Some(s),
            _ => None,
        }
    }
    /// canonical rendering in which ItemList maps are dropped (they are derived data with
    /// hash-dependent order)
    pub fn canon(&self) -> String {
        let mut s = String::new();
        self.canon_into(&mut s);
        s
    }
    fn canon_into(&self, s: &mut String) {
        match self {
            DVal::Struct { name, fields } => {
                if name == "ItemList" {
                    if let Some(items) = self.list() {
                        s.push('[');
                        for (i, it) in items.iter().enumerate() {
                            if i > 0 {
                                s.push_str(", ");
                            }
                            it.canon_into(s);
                        }
                        s.push(']');
                        return;
                    }
                }
                s.push_str(name);
                s.push_str(" {");
                for (i, (k, v)) in fields.iter().enumerate() {
                    if i > 0 {
                        s.push(',');
                    }
                    s.push(' ');
                    s.push_str(k);
                    s.push_str(": ");
                    v.canon_into(s);
                }
                s.push_str(" }");
            }
            DVal::Tuple { name, items } => {
                s.push_str(name);
                s.push('(');
                for (i, it) in items.iter().enumerate() {
                    if i > 0 {
                        s.push_str(", ");
                    }
                    it.canon_into(s);
                }
                s.push(')');
            }
            DVal::List(items) => {
                s.push('[');
                for (i, it) in items.iter().enumerate() {
                    if i > 0 {
                        s.push_str(", ");
                    }
                    it.canon_into(s);
                }
                s.push(']');
            }
            DVal::Map(entries) => {
                let mut es: Vec<String> = entries
                    .iter()
                    .map(|(k, v)| format!("{}: {}", k.canon(), v.canon()))
                    .collect();
                es.sort();
                s.push('{');
                s.push_str(&es.join(", "));
                s.push('}');
            }
            DVal::Str(t) => {
                s.push_str(&format!("{t:?}"));
            }
            DVal::Num(n) | DVal::Ident(n) => s.push_str(n),
        }
    }
    /// visit every struct node (pre-order) with its path of field names
    pub fn walk<'a>(&'a self, path: &mut Vec<String>, f: &mut dyn FnMut(&[String], &'a DVal)) {
        f(path, self);
        match self {
            DVal::Struct { fields, .. } => {
                for (k, v) in fields {
                    path.push(k.clone());
                    v.walk(path, f);
                    path.pop();
                }
            }
            DVal::Tuple { items, .. } | DVal::List(items) => {
                for (i, v) in items.iter().enumerate() {
                    path.push(format!("#{i}"));
                    v.walk(path, f);
                    path.pop();
                }
            }
            DVal::Map(entries) => {
                for (_, v) in entries {
                    v.walk(path, f);
                }
            }
            _ => {}
        }
    }
}

/// canonical, map-order-independent form of a Debug string (falls back to the input when it
/// cannot be parsed)
pub fn canon_debug(s: &str) -> String {
    match parse(s) {
        Ok(v) => v.canon(),
        Err(_) => s.to_string(),
    }
}

#[cfg(test)]
mod test {
    use super::*;
    #[test]
    fn basic() {
        let v = parse(r#"A { x: 1, y: Some("a\"b"), z: [B, C(1, 2.5)], m: ItemList { items: [N { name: "q" }], map: {"q": 0} } }"#).unwrap();
        assert_eq!(v.field("x"), Some(&DVal::Num("1".into())));
        assert_eq!(v.field("y").unwrap().opt().unwrap().as_str(), Some("a\"b"));
        assert_eq!(v.field("m").unwrap().list().unwrap().len(), 1);
        assert!(v.canon().contains("m: [N { name: \"q\" }]"));
    }
}
