//! match a generated derivation tree against the Debug tree of the loaded model, field by field
//! (field names derived from G with the generator's naming rules)

use crate::dbgtree::DVal;
use crate::interp::INode;
use crate::reftok::Tok;
use crate::grammar::*;
use crate::reftok;

fn num_eq_int(text: &str, d: &DVal) -> bool {
    let DVal::Num(n) = d else { return false };
    match (crate::interp::int_literal_value(text), n.parse::<i128>()) {
        (Some((a, hex)), Ok(b)) => {
            if a == b {
                return true;
            }
            // hex literal of a signed field: bit pattern
            hex && b < 0 && [8u32, 16, 32, 64].iter().any(|bits| (a as u128) == ((b as i128 as u128) & ((1u128 << bits) - 1)))
        }
        _ => false,
    }
}

fn num_eq_float(text: &str, d: &DVal) -> bool {
    let dv = match d {
        DVal::Num(n) => n.parse::<f64>().ok(),
        DVal::Ident(n) if n == "inf" => Some(f64::INFINITY),
        DVal::Ident(n) if n == "NaN" => Some(f64::NAN),
        _ => None,
    };
    let tv = if text.starts_with("0x") || text.starts_with("0X") {
        u64::from_str_radix(&text[2..], 16).ok().map(|v| v as f64)
    } else {
        text.parse::<f64>().ok()
    };
    match (tv, dv) {
        (Some(a), Some(b)) => a == b || (a.is_nan() && b.is_nan()),
        _ => false,
    }
}

pub fn scalar_matches(ty: &PType, text: &str, d: &DVal) -> bool {
    match ty {
        PType::Ident => matches!(d, DVal::Str(s) if s == text),
        PType::Str => {
            if text.starts_with('"') && text.len() >= 2 {
                matches!(d, DVal::Str(s) if *s == reftok::unescape(text))
            } else {
                matches!(d, DVal::Str(s) if s == text)
            }
        }
        PType::Float => num_eq_float(text, d),
        PType::Enum(_) => matches!(d, DVal::Ident(v) if *v == ucname_to_typename(text)),
        _ => num_eq_int(text, d),
    }
}

/// Err(path: problem). `n` is the tree the reference interpreter built for the text, `t` its tokens.
pub fn match_node(g: &Grammar, n: &INode, t: &[Tok], d: &DVal, path: &str) -> Result<(), String> {
    let e = g.elem(&n.tag);
    // a struct without fields prints as a bare name
    let empty: Vec<(String, DVal)> = Vec::new();
    let (name, fields) = match d {
        DVal::Struct { name, fields } => (name, fields),
        DVal::Ident(name) => (name, &empty),
        _ => return Err(format!("{path}: expected struct {}, found {}", e.typename, short(d))),
    };
    if *name != e.typename {
        return Err(format!("{path}: expected struct {}, found {name}", e.typename));
    }
    match e.special {
        Special::A2ml => {
            let raw = n.payload.map(|(a, _)| t[a].text.clone()).unwrap_or_default();
            return match d.field("a2ml_text") {
                Some(DVal::Str(s)) if s.trim() == raw.trim() => Ok(()),
                other => Err(format!("{path}: a2ml_text is {:?}", other.map(short))),
            };
        }
        Special::IfData => return Ok(()),
        _ => {}
    }
    let get = |f: &str| -> Result<&DVal, String> {
        fields.iter().find(|x| x.0 == f).map(|x| &x.1).ok_or_else(|| format!("{path}: field {f} missing in {name}"))
    };
    for (idx, it) in e.items.iter().enumerate() {
        let ps: Vec<&str> = n.params.iter().filter(|p| p.1 == idx).map(|p| t[p.0].text.as_str()).collect();
        match it {
            Item::Single { ty, name: fname } => {
                let fld = get(&make_varname(fname))?;
                let Some(p) = ps.first() else { return Err(format!("{path}: interpreter has no value for {fname}")) };
                if !scalar_matches(ty, p, fld) {
                    return Err(format!("{path}.{fname}: document has {}, model has {}", p, short(fld)));
                }
            }
            Item::Array { ty, dim, name: fname } => {
                let fld = get(&make_varname(fname))?;
                let Some(items) = fld.list() else { return Err(format!("{path}.{fname}: not a list")) };
                if items.len() != *dim || ps.len() != *dim {
                    return Err(format!("{path}.{fname}: array length {} vs {dim}", items.len()));
                }
                for k in 0..*dim {
                    if !scalar_matches(ty, ps[k], &items[k]) {
                        return Err(format!("{path}.{fname}[{k}]: document has {}, model has {}", ps[k], short(&items[k])));
                    }
                }
            }
            Item::Seq { fields: sf, name: fname } => {
                let fld = get(&make_varname(fname))?;
                let Some(items) = fld.list() else { return Err(format!("{path}.{fname}: not a list")) };
                if ps.len() != items.len() * sf.len() {
                    return Err(format!("{path}.{fname}: document has {} values, model has {} entries of {} fields", ps.len(), items.len(), sf.len()));
                }
                for (k, entry) in items.iter().enumerate() {
                    if sf.len() == 1 {
                        if !scalar_matches(&sf[0].0, ps[k], entry) {
                            return Err(format!("{path}.{fname}[{k}]: document has {}, model has {}", ps[k], short(entry)));
                        }
                    } else {
                        for (j, (fty, sfn)) in sf.iter().enumerate() {
                            let Some(v) = entry.field(&make_varname(sfn)) else {
                                return Err(format!("{path}.{fname}[{k}]: field {sfn} missing"));
                            };
                            let p = ps[k * sf.len() + j];
                            if !scalar_matches(fty, p, v) {
                                return Err(format!("{path}.{fname}[{k}].{sfn}: document has {}, model has {}", p, short(v)));
                            }
                        }
                    }
                }
            }
        }
    }
    for r in &e.refs {
        let fld = get(&r.varname())?;
        let kids: Vec<&INode> = n.children.iter().filter(|c| c.tag == r.tag).collect();
        let sub = format!("{path}/{}", r.tag);
        if r.repeat {
            let Some(items) = fld.list() else { return Err(format!("{sub}: not a list")) };
            if items.len() != kids.len() {
                return Err(format!("{sub}: document has {} elements, model has {}", kids.len(), items.len()));
            }
            for (k, (kid, item)) in kids.iter().zip(items.iter()).enumerate() {
                match_node(g, kid, t, item, &format!("{sub}[{k}]"))?;
            }
        } else if r.required {
            let Some(kid) = kids.first() else { return Err(format!("{sub}: required element missing in document")) };
            match_node(g, kid, t, fld, &sub)?;
        } else {
            match (kids.last(), fld.opt()) {
                (None, None) => {}
                (Some(kid), Some(v)) => match_node(g, kid, t, v, &sub)?,
                (None, Some(v)) => return Err(format!("{sub}: model holds {} but the document has none", short(v))),
                (Some(_), None) => return Err(format!("{sub}: document has the element, model holds None")),
            }
        }
    }
    // no value-carrying field the grammar does not know
    for (fname, _) in fields {
        let known = e.items.iter().any(|i| make_varname(i.name()) == *fname) || e.refs.iter().any(|r| r.varname() == *fname);
        if !known {
            return Err(format!("{path}: model field {fname} does not come from the grammar"));
        }
    }
    Ok(())
}

fn short(d: &DVal) -> String {
    let s = d.canon();
    if s.len() > 80 {
        format!("{}…", s.chars().take(80).collect::<String>())
    } else {
        s
    }
}
