pub mod dbgtree;
pub mod docgen;
pub mod explore;
pub mod grammar;
pub mod interp;
pub mod modelmatch;
pub mod reftok;
pub mod report;
