//! G — the frozen grammar: a parser for the body of `a2l_specification!{..}` (the DSL) into a
//! small table-driven model. Written from the DSL's own syntax rules; independent of a2lmacros.

use std::collections::HashMap;

/// ASAP2 versions as indices 0..=5
pub const VERSIONS: [(u16, u16); 6] = [(1, 50), (1, 51), (1, 60), (1, 61), (1, 70), (1, 71)];

pub fn version_index(txt: &str) -> usize {
    match txt {
        "1.50" => 0,
        "1.51" => 1,
        "1.60" => 2,
        "1.61" => 3,
        "1.70" => 4,
        "1.71" => 5,
        _ => panic!("unknown version literal {txt}"),
    }
}

#[derive(Debug, Clone, PartialEq, Eq, Hash)]
pub enum PType {
    Char,
    Uchar,
    Int,
    Uint,
    Long,
    Ulong,
    Int64,
    Uint64,
    Float, // both float and double are stored as f64 by the generator
    Ident,
    Str,
    Enum(String),
}

impl PType {
    pub fn is_int(&self) -> bool {
        matches!(
            self,
            PType::Char
                | PType::Uchar
                | PType::Int
                | PType::Uint
                | PType::Long
                | PType::Ulong
                | PType::Int64
                | PType::Uint64
        )
    }
    /// (bits, signed)
    pub fn int_shape(&self) -> Option<(u32, bool)> {
        Some(match self {
            PType::Char => (8, true),
            PType::Uchar => (8, false),
            PType::Int => (16, true),
            PType::Uint => (16, false),
            PType::Long => (32, true),
            PType::Ulong => (32, false),
            PType::Int64 => (64, true),
            PType::Uint64 => (64, false),
            _ => return None,
        })
    }
    pub fn int_min_max(&self) -> Option<(i128, i128)> {
        let (bits, signed) = self.int_shape()?;
        Some(if signed {
            (-(1i128 << (bits - 1)), (1i128 << (bits - 1)) - 1)
        } else {
            (0, (1i128 << bits) - 1)
        })
    }
}

#[derive(Debug, Clone)]
pub enum Item {
    Single { ty: PType, name: String },
    Array { ty: PType, dim: usize, name: String },
    Seq { fields: Vec<(PType, String)>, name: String },
}

impl Item {
    pub fn name(&self) -> &str {
        match self {
            Item::Single { name, .. } | Item::Array { name, .. } | Item::Seq { name, .. } => name,
        }
    }
}

#[derive(Debug, Clone)]
pub struct TagRef {
    pub tag: String,
    pub repeat: bool,
    pub required: bool,
    pub vmin: Option<usize>,
    pub vmax: Option<usize>,
}

impl TagRef {
    pub fn varname(&self) -> String {
        make_varname(&self.tag)
    }
    pub fn in_version(&self, v: usize) -> bool {
        self.vmin.map_or(true, |m| v >= m) && self.vmax.map_or(true, |m| v <= m)
    }
}

#[derive(Debug, Clone, PartialEq, Eq)]
pub enum Special {
    None,
    A2ml,
    IfData,
    Root,
}

#[derive(Debug, Clone)]
pub struct Element {
    /// all tags under which this element definition is known (AXIS_PTS_X, AXIS_PTS_Y, ..)
    pub tags: Vec<String>,
    pub typename: String,
    pub is_block: bool,
    pub items: Vec<Item>,
    pub refs: Vec<TagRef>,
    pub special: Special,
}

impl Element {
    pub fn is_named(&self) -> bool {
        self.items.len() > 1
            && matches!(&self.items[0], Item::Single{ty: PType::Ident, name} if name == "name")
    }
    pub fn has_tagged(&self) -> bool {
        !self.refs.is_empty()
    }
}

#[derive(Debug, Clone)]
pub struct EnumItem {
    pub name: String,
    pub vmin: Option<usize>,
    pub vmax: Option<usize>,
}

impl EnumItem {
    pub fn in_version(&self, v: usize) -> bool {
        self.vmin.map_or(true, |m| v >= m) && self.vmax.map_or(true, |m| v <= m)
    }
}

#[derive(Debug, Clone)]
pub struct EnumDef {
    pub name: String,
    pub items: Vec<EnumItem>,
}

#[derive(Debug, Clone)]
pub struct Grammar {
    pub elements: Vec<Element>,
    pub enums: Vec<EnumDef>,
    pub tag2elem: HashMap<String, usize>,
    pub enum_idx: HashMap<String, usize>,
}

impl Grammar {
    pub fn elem(&self, tag: &str) -> &Element {
        &self.elements[self.tag2elem[tag]]
    }
    pub fn get_elem(&self, tag: &str) -> Option<&Element> {
        self.tag2elem.get(tag).map(|i| &self.elements[*i])
    }
    pub fn enumdef(&self, name: &str) -> &EnumDef {
        &self.enums[self.enum_idx[name]]
    }
    pub fn all_tags(&self) -> Vec<String> {
        let mut v: Vec<String> = self.tag2elem.keys().cloned().collect();
        v.sort();
        v
    }
}

const RUST_RESERVED_KEYWORDS: [&str; 51] = [
    "abstract", "as", "async", "await", "become", "box", "break", "const", "continue", "crate",
    "do", "dyn", "else", "enum", "extern", "false", "final", "fn", "for", "if", "impl", "in",
    "let", "loop", "macro", "match", "mod", "move", "mut", "override", "priv", "pub", "ref",
    "return", "Self", "self", "static", "struct", "super", "trait", "true", "try", "type",
    "typeof", "unsafe", "unsized", "use", "virtual", "where", "while", "yield",
];

pub fn make_varname(tag: &str) -> String {
    let lc = tag.to_ascii_lowercase();
    if RUST_RESERVED_KEYWORDS.iter().any(|k| *k == lc) {
        format!("var_{lc}")
    } else {
        lc
    }
}

pub fn ucname_to_typename(name: &str) -> String {
    let mut out = String::new();
    let mut cap = true;
    let mut is_uc = true;
    for c in name.chars() {
        if c.is_ascii_lowercase() {
            is_uc = false;
        }
        if c == '_' {
            cap = true;
            continue;
        }
        if cap {
            out.push(c);
        } else {
            out.push(c.to_ascii_lowercase());
        }
        cap = false;
    }
    if is_uc {
        out
    } else {
        name.to_string()
    }
}

pub fn typename_from_names(names: &[String]) -> String {
    if names.len() == 1 {
        ucname_to_typename(&names[0])
    } else {
        let mut s: String = names[0].clone();
        s.pop();
        s.push_str("DIM");
        ucname_to_typename(&s)
    }
}

// ---------------------------------------------------------------------------------------------
// lexer for the DSL

#[derive(Debug, Clone, PartialEq)]
enum Tok {
    Id(String),
    Num(String),
    P(char),
}

fn lex(text: &str) -> Vec<Tok> {
    let b: Vec<char> = text.chars().collect();
    let mut i = 0;
    let mut out = Vec::new();
    while i < b.len() {
        let c = b[i];
        if c.is_whitespace() {
            i += 1;
        } else if c == '/' && i + 1 < b.len() && b[i + 1] == '/' {
            while i < b.len() && b[i] != '\n' {
                i += 1;
            }
        } else if c.is_ascii_alphabetic() || c == '_' {
            let s = i;
            while i < b.len() && (b[i].is_ascii_alphanumeric() || b[i] == '_') {
                i += 1;
            }
            out.push(Tok::Id(b[s..i].iter().collect()));
        } else if c.is_ascii_digit() {
            let s = i;
            while i < b.len() && (b[i].is_ascii_digit()) {
                i += 1;
            }
            // a version literal 1.70 (but not the range operator "..")
            if i + 1 < b.len() && b[i] == '.' && b[i + 1].is_ascii_digit() {
                i += 1;
                while i < b.len() && b[i].is_ascii_digit() {
                    i += 1;
                }
            }
            out.push(Tok::Num(b[s..i].iter().collect()));
        } else {
            out.push(Tok::P(c));
            i += 1;
        }
    }
    out
}

struct P {
    t: Vec<Tok>,
    i: usize,
}

impl P {
    fn peek(&self) -> Option<&Tok> {
        self.t.get(self.i)
    }
    fn next(&mut self) -> Tok {
        let t = self.t[self.i].clone();
        self.i += 1;
        t
    }
    fn id(&mut self) -> String {
        match self.next() {
            Tok::Id(s) => s,
            t => panic!("expected ident, got {t:?} at {}", self.i),
        }
    }
    fn punct(&mut self, c: char) {
        let t = self.next();
        assert_eq!(t, Tok::P(c), "expected '{c}' at token {}", self.i);
    }
    fn is_p(&self, c: char) -> bool {
        self.peek() == Some(&Tok::P(c))
    }
    /// NAME / _Y / _Z ...
    fn blocknames(&mut self) -> Vec<String> {
        let first = self.id();
        let mut suffixes = Vec::new();
        while self.is_p('/') {
            self.punct('/');
            // a suffix such as _Y or _4 : ident, possibly followed by nothing. "_4" lexes as Id("_4")
            suffixes.push(self.id());
        }
        let mut names = vec![first.clone()];
        if !suffixes.is_empty() {
            let sl = suffixes[0].len();
            let base = &first[..first.len() - sl];
            for s in &suffixes {
                names.push(format!("{base}{s}"));
            }
        }
        names
    }
    fn version_range(&mut self) -> (Option<usize>, Option<usize>) {
        if !self.is_p('(') {
            return (None, None);
        }
        self.punct('(');
        let mut lo = None;
        let mut hi = None;
        if let Some(Tok::Num(n)) = self.peek().cloned() {
            self.next();
            lo = Some(version_index(&n));
        }
        self.punct('.');
        self.punct('.');
        if let Some(Tok::Num(n)) = self.peek().cloned() {
            self.next();
            hi = Some(version_index(&n));
        }
        self.punct(')');
        (lo, hi)
    }
}

fn basetype(name: &str) -> PType {
    match name {
        "char" => PType::Char,
        "uchar" => PType::Uchar,
        "int" => PType::Int,
        "uint" => PType::Uint,
        "long" => PType::Long,
        "ulong" => PType::Ulong,
        "int64" => PType::Int64,
        "uint64" => PType::Uint64,
        "float" | "double" => PType::Float,
        "ident" => PType::Ident,
        "string" => PType::Str,
        other => PType::Enum(other.to_string()),
    }
}

pub fn parse_grammar(text: &str) -> Grammar {
    let mut p = P { t: lex(text), i: 0 };
    let mut elements = Vec::new();
    let mut enums = Vec::new();
    while p.peek().is_some() {
        let kw = p.id();
        match kw.as_str() {
            "enum" => {
                let name = p.id();
                p.punct('{');
                let mut items = Vec::new();
                while !p.is_p('}') {
                    let iname = p.id();
                    let (vmin, vmax) = p.version_range();
                    items.push(EnumItem { name: iname, vmin, vmax });
                    if p.is_p(',') {
                        p.punct(',');
                    }
                }
                p.punct('}');
                enums.push(EnumDef { name, items });
            }
            "block" | "keyword" => {
                let names = p.blocknames();
                p.punct('{');
                let mut items = Vec::new();
                let mut refs = Vec::new();
                while !p.is_p('}') {
                    if p.is_p('{') {
                        p.punct('{');
                        let mut fields = Vec::new();
                        while !p.is_p('}') {
                            let ty = basetype(&p.id());
                            let nm = p.id();
                            fields.push((ty, nm));
                        }
                        p.punct('}');
                        p.punct('*');
                        let name = p.id();
                        items.push(Item::Seq { fields, name });
                    } else if p.is_p('[') {
                        p.punct('[');
                        p.punct('-');
                        p.punct('>');
                        let rnames = p.blocknames();
                        p.punct(']');
                        let (mut repeat, mut required) = (false, false);
                        if p.is_p('!') {
                            p.punct('!');
                            required = true;
                        } else if p.is_p('+') {
                            p.punct('+');
                            required = true;
                            repeat = true;
                        } else if p.is_p('*') {
                            p.punct('*');
                            repeat = true;
                        }
                        let (vmin, vmax) = p.version_range();
                        for tag in rnames {
                            refs.push(TagRef { tag, repeat, required, vmin, vmax });
                        }
                    } else {
                        let ty = basetype(&p.id());
                        if p.is_p('[') {
                            p.punct('[');
                            let dim = match p.next() {
                                Tok::Num(n) => n.parse().unwrap(),
                                t => panic!("array dim expected, got {t:?}"),
                            };
                            p.punct(']');
                            let name = p.id();
                            items.push(Item::Array { ty, dim, name });
                        } else {
                            let name = p.id();
                            items.push(Item::Single { ty, name });
                        }
                    }
                }
                p.punct('}');
                let special = match names[0].as_str() {
                    "A2ML" => Special::A2ml,
                    "IF_DATA" => Special::IfData,
                    "A2L_FILE" => Special::Root,
                    _ => Special::None,
                };
                elements.push(Element {
                    typename: typename_from_names(&names),
                    tags: names,
                    is_block: kw == "block",
                    items,
                    refs,
                    special,
                });
            }
            other => panic!("unexpected DSL keyword {other}"),
        }
    }
    let mut tag2elem = HashMap::new();
    for (i, e) in elements.iter().enumerate() {
        for t in &e.tags {
            assert!(tag2elem.insert(t.clone(), i).is_none(), "duplicate tag {t}");
        }
    }
    let mut enum_idx = HashMap::new();
    for (i, e) in enums.iter().enumerate() {
        enum_idx.insert(e.name.clone(), i);
    }
    // sanity: every ref resolves, every enum type resolves
    for e in &elements {
        for r in &e.refs {
            assert!(tag2elem.contains_key(&r.tag), "unresolved ref {}", r.tag);
        }
        for it in &e.items {
            let tys: Vec<&PType> = match it {
                Item::Single { ty, .. } | Item::Array { ty, .. } => vec![ty],
                Item::Seq { fields, .. } => fields.iter().map(|f| &f.0).collect(),
            };
            for ty in tys {
                if let PType::Enum(n) = ty {
                    assert!(enum_idx.contains_key(n), "unresolved enum {n}");
                }
            }
        }
    }
    Grammar { elements, enums, tag2elem, enum_idx }
}

/// extract the DSL body from the text of specification_orig.rs (for the drift report)
pub fn extract_dsl(spec_orig: &str) -> Option<String> {
    let start = spec_orig.find("a2l_specification! {")?;
    let body_start = start + "a2l_specification! {".len();
    // the macro body ends at the first line that is exactly "}" after the start
    let rest = &spec_orig[body_start..];
    let end = rest.find("\n}\n")?;
    Some(rest[..end + 1].to_string())
}

pub fn frozen_grammar_text() -> &'static str {
    include_str!("../../../model/a2l_171.grammar")
}

pub fn frozen() -> Grammar {
    parse_grammar(frozen_grammar_text())
}

#[cfg(test)]
mod test {
    use super::*;
    #[test]
    fn parse_frozen() {
        let g = frozen();
        assert!(g.elements.len() > 150);
        assert_eq!(g.enums.len(), 20);
        let rl = g.elem("RECORD_LAYOUT");
        assert!(rl.refs.iter().any(|r| r.tag == "AXIS_PTS_4"));
        assert!(rl.refs.iter().any(|r| r.tag == "RIP_ADDR_W"));
        let m = g.elem("MEMORY_LAYOUT");
        assert!(matches!(m.items[3], Item::Array { dim: 5, .. }));
        assert_eq!(g.elem("AXIS_PTS_Y").typename, "AxisPtsDim");
    }
}
