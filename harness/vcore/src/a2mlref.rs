//! A — A2ML reference: an independent AST for A2ML definitions, a printer, a matcher (strict and
//! lenient), and an instance enumerator. Written from the A2ML grammar, not from a2ml.rs.

#[derive(Debug, Clone, PartialEq)]
pub enum Sc {
    Char,
    Int,
    Long,
    Int64,
    UChar,
    UInt,
    ULong,
    UInt64,
    Float,
    Double,
}

impl Sc {
    pub fn kw(&self) -> &'static str {
        match self {
            Sc::Char => "char",
            Sc::Int => "int",
            Sc::Long => "long",
            Sc::Int64 => "int64",
            Sc::UChar => "uchar",
            Sc::UInt => "uint",
            Sc::ULong => "ulong",
            Sc::UInt64 => "uint64",
            Sc::Float => "float",
            Sc::Double => "double",
        }
    }
    pub fn int_range(&self) -> Option<(i128, i128, u32)> {
        Some(match self {
            Sc::Char => (-128, 127, 8),
            Sc::Int => (-32768, 32767, 16),
            Sc::Long => (-2147483648, 2147483647, 32),
            Sc::Int64 => (i64::MIN as i128, i64::MAX as i128, 64),
            Sc::UChar => (0, 255, 8),
            Sc::UInt => (0, 65535, 16),
            Sc::ULong => (0, 4294967295, 32),
            Sc::UInt64 => (0, u64::MAX as i128, 64),
            _ => return None,
        })
    }
    pub fn values(&self) -> Vec<&'static str> {
        match self {
            Sc::Char => vec!["-128", "127", "0x7F"],
            Sc::Int => vec!["-32768", "12", "0xFFFF"],
            Sc::Long => vec!["2147483647", "-5", "0x80000000"],
            Sc::Int64 => vec!["-9223372036854775808", "0x10"],
            Sc::UChar => vec!["0", "255", "0xAB"],
            Sc::UInt => vec!["65535", "3", "0x1f"],
            Sc::ULong => vec!["4294967295", "0x0"],
            Sc::UInt64 => vec!["18446744073709551615", "0xFFFFFFFFFFFFFFFF"],
            Sc::Float => vec!["1.5", "-2e3", "7"],
            Sc::Double => vec!["0.1", "1e-300", "-3"],
        }
    }
}

#[derive(Debug, Clone, PartialEq)]
pub enum Ty {
    Scalar(Sc),
    /// char[n]: a string of at most n bytes
    Str(usize),
    Array(Box<Ty>, usize),
    Enum(Vec<(String, Option<i32>)>),
    Struct(Vec<Ty>),
    Seq(Box<Ty>),
    TaggedStruct(Vec<Tagged>),
    TaggedUnion(Vec<Tagged>),
}

#[derive(Debug, Clone, PartialEq)]
pub struct Tagged {
    pub tag: String,
    pub item: Option<Ty>,
    pub block: bool,
    pub repeat: bool,
}

/// print the member syntax of a type (Seq is printed by the tagged definition that owns it)
pub fn print_member(t: &Ty) -> String {
    match t {
        Ty::Scalar(s) => s.kw().to_string(),
        Ty::Str(n) => format!("char[{n}]"),
        Ty::Array(inner, n) => format!("{}[{n}]", print_member(inner)),
        Ty::Enum(items) => {
            let parts: Vec<String> = items.iter().map(|(n, v)| match v {
                Some(v) => format!("\"{n}\" = {v}"),
                None => format!("\"{n}\""),
            }).collect();
            format!("enum {{ {} }}", parts.join(", "))
        }
        Ty::Struct(ms) => format!("struct {{ {} }}", ms.iter().map(|m| format!("{};", print_member(m))).collect::<Vec<_>>().join(" ")),
        Ty::Seq(inner) => format!("({})*", print_member(inner)),
        Ty::TaggedStruct(items) => format!("taggedstruct {{ {} }}", items.iter().map(|i| format!("{};", print_tagged(i))).collect::<Vec<_>>().join(" ")),
        Ty::TaggedUnion(items) => format!("taggedunion {{ {} }}", items.iter().map(|i| format!("{};", print_tagged(i))).collect::<Vec<_>>().join(" ")),
    }
}

pub fn print_tagged(t: &Tagged) -> String {
    let def = match &t.item {
        None => format!("\"{}\"", t.tag),
        Some(Ty::Seq(inner)) => format!("\"{}\" ({})*", t.tag, print_member(inner)),
        Some(m) => format!("\"{}\" {}", t.tag, print_member(m)),
    };
    let def = if t.block { format!("block {def}") } else { def };
    if t.repeat {
        format!("({def})*")
    } else {
        def
    }
}

/// the complete definition text: `block "IF_DATA" <def>;` (optionally with a named type declared first)
pub fn print_definition(top: &Ty, named: bool) -> String {
    let (decl, member) = match (named, top) {
        (true, Ty::Struct(_)) => (format!("{};\n", print_member(top).replacen("struct", "struct NamedT", 1)), "struct NamedT".to_string()),
        (true, Ty::TaggedStruct(_)) => (format!("{};\n", print_member(top).replacen("taggedstruct", "taggedstruct NamedT", 1)), "taggedstruct NamedT".to_string()),
        (true, Ty::TaggedUnion(_)) => (format!("{};\n", print_member(top).replacen("taggedunion", "taggedunion NamedT", 1)), "taggedunion NamedT".to_string()),
        (true, Ty::Enum(_)) => (format!("{};\n", print_member(top).replacen("enum", "enum NamedT", 1)), "enum NamedT".to_string()),
        (_, Ty::Seq(inner)) => (String::new(), format!("({})*", print_member(inner))),
        _ => (String::new(), print_member(top)),
    };
    format!("{decl}block \"IF_DATA\" {member};")
}

// ---------------------------------------------------------------------------------------------
// payload tokens

#[derive(Debug, Clone, PartialEq)]
pub enum PTok {
    Begin,
    End,
    Ident(String),
    Num(String),
    Str(String), // with quotes
}

impl PTok {
    pub fn text(&self) -> String {
        match self {
            PTok::Begin => "/begin".into(),
            PTok::End => "/end".into(),
            PTok::Ident(s) | PTok::Num(s) | PTok::Str(s) => s.clone(),
        }
    }
}

pub fn render_payload(t: &[PTok]) -> String {
    t.iter().map(|x| x.text()).collect::<Vec<_>>().join(" ")
}

pub fn balanced(t: &[PTok]) -> bool {
    let mut stack: Vec<&str> = Vec::new();
    let mut i = 0;
    while i < t.len() {
        match &t[i] {
            PTok::Begin => match t.get(i + 1) {
                Some(PTok::Ident(tag)) => {
                    stack.push(tag);
                    i += 1;
                }
                _ => return false,
            },
            PTok::End => match (t.get(i + 1), stack.pop()) {
                (Some(PTok::Ident(tag)), Some(open)) if tag == open => i += 1,
                _ => return false,
            },
            _ => {}
        }
        i += 1;
    }
    stack.is_empty()
}

fn int_ok(sc: &Sc, text: &str) -> bool {
    let (lo, hi, bits) = sc.int_range().unwrap();
    if text.len() > 2 && (text.starts_with("0x") || text.starts_with("0X")) {
        return match u64::from_str_radix(&text[2..], 16) {
            Ok(v) => bits == 64 || (v >> bits) == 0,
            Err(_) => false,
        };
    }
    match text.parse::<i128>() {
        Ok(v) => v >= lo && v <= hi && !text.starts_with('+') || (text.starts_with('+') && v >= lo && v <= hi),
        Err(_) => false,
    }
}

fn float_ok(text: &str, single: bool) -> bool {
    if text.starts_with("0x") || text.starts_with("0X") {
        return u64::from_str_radix(&text[2..], 16).is_ok();
    }
    if single {
        text.parse::<f32>().map_or(false, |v| v.is_finite())
    } else {
        text.parse::<f64>().map_or(false, |v| v.is_finite())
    }
}

/// match `ty` at position `pos`; lenient = accept the classes the implementation is documented to tolerate
pub fn matches(ty: &Ty, t: &[PTok], pos: usize, lenient: bool) -> Option<usize> {
    match ty {
        Ty::Scalar(sc) => match t.get(pos) {
            Some(PTok::Num(n)) => {
                let ok = match sc {
                    Sc::Float => float_ok(n, true),
                    Sc::Double => float_ok(n, false),
                    _ => int_ok(sc, n),
                };
                ok.then_some(pos + 1)
            }
            _ => None,
        },
        Ty::Str(n) => match t.get(pos) {
            Some(PTok::Str(s)) => {
                let len = crate::reftok::unescape(s).len();
                (len <= *n || lenient).then_some(pos + 1)
            }
            Some(PTok::Ident(_)) if lenient => {
                IDENT_AS_STR.with(|c| c.set(c.get() + 1));
                Some(pos + 1)
            }
            _ => None,
        },
        Ty::Array(inner, n) => {
            let mut p = pos;
            for _ in 0..*n {
                p = matches(inner, t, p, lenient)?;
            }
            Some(p)
        }
        Ty::Enum(items) => match t.get(pos) {
            Some(PTok::Ident(s)) if items.iter().any(|i| &i.0 == s) => Some(pos + 1),
            _ => None,
        },
        Ty::Struct(ms) => {
            let mut p = pos;
            for m in ms {
                p = matches(m, t, p, lenient)?;
            }
            Some(p)
        }
        Ty::Seq(inner) => {
            let mut p = pos;
            while let Some(np) = matches(inner, t, p, lenient) {
                if np == p {
                    break;
                }
                p = np;
            }
            Some(p)
        }
        Ty::TaggedStruct(items) => {
            let mut p = pos;
            let mut seen: Vec<&str> = Vec::new();
            loop {
                match match_tagged(items, t, p, lenient) {
                    Some((np, tag, repeat)) => {
                        if !repeat && seen.contains(&tag) && !lenient {
                            return None;
                        }
                        seen.push(tag);
                        p = np;
                    }
                    None => break,
                }
            }
            Some(p)
        }
        Ty::TaggedUnion(items) => match match_tagged(items, t, pos, lenient) {
            Some((np, _, _)) => Some(np),
            None => Some(pos),
        },
    }
}

fn match_tagged<'a>(items: &'a [Tagged], t: &[PTok], pos: usize, lenient: bool) -> Option<(usize, &'a str, bool)> {
    let (is_block, tagpos) = match t.get(pos) {
        Some(PTok::Begin) => (true, pos + 1),
        Some(PTok::Ident(_)) => (false, pos),
        _ => return None,
    };
    let PTok::Ident(tag) = t.get(tagpos)? else { return None };
    let item = items.iter().find(|i| &i.tag == tag && i.block == is_block)?;
    let mut p = tagpos + 1;
    if let Some(ty) = &item.item {
        p = matches(ty, t, p, lenient)?;
    }
    if is_block {
        match (t.get(p), t.get(p + 1)) {
            (Some(PTok::End), Some(PTok::Ident(e))) if e == tag => p += 2,
            _ => return None,
        }
    }
    Some((p, &item.tag, item.repeat))
}

thread_local! {
    /// how often the lenient matcher took an identifier where char[n] is expected (also in attempts it gave up)
    static IDENT_AS_STR: std::cell::Cell<usize> = const { std::cell::Cell::new(0) };
}

/// the lenient reading of the payload never takes an identifier as a string: the payload means the same
/// under the strict and under the lenient (greedy) reading
pub fn unambiguous(top: &Ty, t: &[PTok]) -> bool {
    IDENT_AS_STR.with(|c| c.set(0));
    let _ = conforms(top, t, true);
    IDENT_AS_STR.with(|c| c.get()) == 0
}

/// does the whole payload conform to the definition?
pub fn conforms(top: &Ty, t: &[PTok], lenient: bool) -> bool {
    matches(top, t, 0, lenient) == Some(t.len())
}

// ---------------------------------------------------------------------------------------------
// instance enumeration

fn cross(parts: Vec<Vec<Vec<PTok>>>, cap: usize) -> Vec<Vec<PTok>> {
    let mut acc: Vec<Vec<PTok>> = vec![vec![]];
    for p in parts {
        let mut next = Vec::new();
        for a in &acc {
            for b in &p {
                let mut x = a.clone();
                x.extend(b.iter().cloned());
                next.push(x);
                if next.len() >= cap {
                    break;
                }
            }
            if next.len() >= cap {
                break;
            }
        }
        acc = next;
    }
    acc
}

/// conforming token lists of `ty`, at most `cap`
pub fn instances(ty: &Ty, cap: usize) -> Vec<Vec<PTok>> {
    match ty {
        Ty::Scalar(sc) => sc.values().into_iter().map(|v| vec![PTok::Num(v.to_string())]).collect(),
        Ty::Str(n) => {
            let mut v = vec![vec![PTok::Str("\"\"".into())], vec![PTok::Str(format!("\"{}\"", "abcdefghijklmnop".chars().take(*n).collect::<String>()))]];
            if *n >= 3 {
                v.push(vec![PTok::Str("\"a\\\"\"".into())]);
            }
            v
        }
        Ty::Array(inner, n) => {
            let one = instances(inner, cap);
            // element i takes the (i mod k)-th value: two variants
            let mut out = Vec::new();
            for shift in 0..2usize.min(one.len()) {
                let mut v = Vec::new();
                for i in 0..*n {
                    v.extend(one[(i + shift) % one.len()].iter().cloned());
                }
                out.push(v);
            }
            out
        }
        Ty::Enum(items) => items.iter().map(|i| vec![PTok::Ident(i.0.clone())]).collect(),
        Ty::Struct(ms) => cross(ms.iter().map(|m| instances(m, cap)).collect(), cap),
        Ty::Seq(inner) => {
            let one = instances(inner, cap);
            let mut out = vec![vec![]];
            for a in one.iter().take(3) {
                out.push(a.clone());
            }
            for (i, a) in one.iter().take(2).enumerate() {
                let b = &one[(i + 1) % one.len()];
                let mut v = a.clone();
                v.extend(b.iter().cloned());
                out.push(v);
            }
            out.retain(|v| !v.is_empty() || true);
            out
        }
        Ty::TaggedStruct(items) => {
            // every item absent / present once (repeatable: also twice)
            let mut parts = Vec::new();
            for it in items {
                let single = tagged_instances(it, cap);
                let mut opts: Vec<Vec<PTok>> = vec![vec![]];
                opts.extend(single.iter().take(3).cloned());
                if it.repeat && !single.is_empty() {
                    let mut twice = single[0].clone();
                    twice.extend(single[single.len() - 1].iter().cloned());
                    opts.push(twice);
                }
                parts.push(opts);
            }
            cross(parts, cap)
        }
        Ty::TaggedUnion(items) => {
            let mut out = vec![vec![]];
            for it in items {
                out.extend(tagged_instances(it, cap).into_iter().take(3));
            }
            out
        }
    }
}

fn tagged_instances(it: &Tagged, cap: usize) -> Vec<Vec<PTok>> {
    let bodies = match &it.item {
        None => vec![vec![]],
        Some(ty) => instances(ty, cap),
    };
    bodies
        .into_iter()
        .map(|b| {
            let mut v = Vec::new();
            if it.block {
                v.push(PTok::Begin);
            }
            v.push(PTok::Ident(it.tag.clone()));
            v.extend(b);
            if it.block {
                v.push(PTok::End);
                v.push(PTok::Ident(it.tag.clone()));
            }
            v
        })
        .collect()
}

// ---------------------------------------------------------------------------------------------
// definition enumeration

pub fn leaves(full: bool) -> Vec<Ty> {
    let e = Ty::Enum(vec![("E1".into(), None), ("E2".into(), Some(5))]);
    if full {
        vec![
            Ty::Scalar(Sc::Char),
            Ty::Scalar(Sc::Int),
            Ty::Scalar(Sc::Long),
            Ty::Scalar(Sc::Int64),
            Ty::Scalar(Sc::UChar),
            Ty::Scalar(Sc::UInt),
            Ty::Scalar(Sc::ULong),
            Ty::Scalar(Sc::UInt64),
            Ty::Scalar(Sc::Float),
            Ty::Scalar(Sc::Double),
            Ty::Str(4),
            e,
            Ty::Array(Box::new(Ty::Scalar(Sc::UInt)), 2),
            Ty::Array(Box::new(Ty::Array(Box::new(Ty::Scalar(Sc::UChar)), 2)), 2),
        ]
    } else {
        vec![Ty::Scalar(Sc::UInt), Ty::Scalar(Sc::Float), Ty::Str(4), e, Ty::Scalar(Sc::Int64)]
    }
}

fn tagged_forms(tag: &str, m: &Ty) -> Vec<Tagged> {
    let mut v = vec![
        Tagged { tag: tag.into(), item: Some(m.clone()), block: false, repeat: false },
        Tagged { tag: tag.into(), item: Some(m.clone()), block: true, repeat: false },
        Tagged { tag: tag.into(), item: Some(m.clone()), block: false, repeat: true },
        Tagged { tag: tag.into(), item: Some(m.clone()), block: true, repeat: true },
    ];
    // tag ( member )*  - only with a member that always consumes input
    if always_consumes(m) {
        v.push(Tagged { tag: tag.into(), item: Some(Ty::Seq(Box::new(m.clone()))), block: true, repeat: false });
        v.push(Tagged { tag: tag.into(), item: Some(Ty::Seq(Box::new(m.clone()))), block: false, repeat: false });
    }
    v
}

pub fn always_consumes(t: &Ty) -> bool {
    match t {
        Ty::Scalar(_) | Ty::Str(_) | Ty::Enum(_) => true,
        Ty::Array(i, n) => *n > 0 && always_consumes(i),
        Ty::Struct(ms) => ms.iter().any(always_consumes),
        Ty::Seq(_) | Ty::TaggedStruct(_) | Ty::TaggedUnion(_) => false,
    }
}

/// members of nesting depth <= d (tags are distinct per depth so that the definitions are LL(1))
pub fn members(d: usize, full_leaves: bool) -> Vec<Ty> {
    let lv = leaves(full_leaves && d == 0);
    if d == 0 {
        return lv;
    }
    let inner = members(d - 1, false);
    let small = leaves(false);
    let mut out = leaves(full_leaves);
    let (ta, tb) = (format!("A{d}"), format!("B{d}"));
    for m in &inner {
        out.push(Ty::Struct(vec![m.clone()]));
        out.push(Ty::Struct(vec![small[0].clone(), m.clone()]));
        // a struct whose first member may match nothing followed by a scalar is LL(1) as long as tags and values differ
        out.push(Ty::Struct(vec![m.clone(), small[2].clone()]));
        for f in tagged_forms(&ta, m) {
            let second_a = Tagged { tag: tb.clone(), item: None, block: false, repeat: false };
            let second_b = Tagged { tag: tb.clone(), item: Some(Ty::Scalar(Sc::UInt)), block: true, repeat: true };
            out.push(Ty::TaggedStruct(vec![f.clone()]));
            out.push(Ty::TaggedStruct(vec![f.clone(), second_a.clone()]));
            out.push(Ty::TaggedStruct(vec![second_b.clone(), f.clone()]));
            if !f.repeat {
                out.push(Ty::TaggedUnion(vec![f.clone()]));
                out.push(Ty::TaggedUnion(vec![f.clone(), second_a]));
            }
        }
    }
    out.push(Ty::TaggedStruct(vec![Tagged { tag: ta.clone(), item: None, block: false, repeat: false }, Tagged { tag: tb.clone(), item: None, block: true, repeat: false }]));
    out
}

/// like `members`, but over a given leaf set at every depth (used for deeper nesting with few leaves)
pub fn members_over(d: usize, leaf_set: &[Ty]) -> Vec<Ty> {
    if d == 0 {
        return leaf_set.to_vec();
    }
    let inner = members_over(d - 1, leaf_set);
    let mut out = leaf_set.to_vec();
    let (ta, tb) = (format!("A{d}"), format!("B{d}"));
    let first = leaf_set[0].clone();
    for m in &inner {
        out.push(Ty::Struct(vec![m.clone()]));
        out.push(Ty::Struct(vec![first.clone(), m.clone()]));
        out.push(Ty::Struct(vec![m.clone(), first.clone()]));
        for f in tagged_forms(&ta, m) {
            let second_a = Tagged { tag: tb.clone(), item: None, block: false, repeat: false };
            let second_b = Tagged { tag: tb.clone(), item: Some(Ty::Scalar(Sc::UInt)), block: true, repeat: true };
            out.push(Ty::TaggedStruct(vec![f.clone()]));
            out.push(Ty::TaggedStruct(vec![f.clone(), second_a.clone()]));
            out.push(Ty::TaggedStruct(vec![second_b.clone(), f.clone()]));
            if !f.repeat {
                out.push(Ty::TaggedUnion(vec![f.clone()]));
                out.push(Ty::TaggedUnion(vec![f.clone(), second_a]));
            }
        }
    }
    out
}

/// definitions outside the regular enumeration: arrays of arrays / enums / structs / strings, sequences of
/// arrays and of structs, each as struct member, as tagged item, as repeated block and as top-level sequence
pub fn extra_definitions() -> Vec<Ty> {
    let u = Ty::Scalar(Sc::UInt);
    let e = Ty::Enum(vec![("E1".into(), None), ("E2".into(), Some(5))]);
    let elems = vec![
        Ty::Array(Box::new(Ty::Array(Box::new(Ty::Scalar(Sc::UInt)), 3)), 2),
        // char[2][2][2]: the innermost char[2] is a string, so this is a 2 x 2 array of strings
        Ty::Array(Box::new(Ty::Array(Box::new(Ty::Str(2)), 2)), 2),
        // unequal dimensions: char[8][2] is two strings of at most eight characters, char[4][3][2] is 2 x 3 strings of at most four
        Ty::Array(Box::new(Ty::Str(8)), 2),
        Ty::Array(Box::new(Ty::Array(Box::new(Ty::Str(4)), 3)), 2),
        Ty::Array(Box::new(e.clone()), 2),
        Ty::Array(Box::new(Ty::Struct(vec![u.clone(), Ty::Scalar(Sc::Float)])), 2),
        Ty::Array(Box::new(Ty::Scalar(Sc::Double)), 3),
        Ty::Array(Box::new(Ty::Scalar(Sc::Int64)), 2),
        Ty::Struct(vec![u.clone(), Ty::Array(Box::new(Ty::Scalar(Sc::Long)), 2)]),
    ];
    let mut out = Vec::new();
    // a struct whose first member can match nothing (a tagged struct / union), followed by a member that starts with an
    // identifier (an enum) - the IF_DATA content then begins with a word that is not a tag
    {
        let ts = Ty::TaggedStruct(vec![Tagged { tag: "A1".into(), item: Some(u.clone()), block: false, repeat: false }]);
        let tu = Ty::TaggedUnion(vec![Tagged { tag: "A1".into(), item: Some(u.clone()), block: false, repeat: false }, Tagged { tag: "B1".into(), item: None, block: false, repeat: false }]);
        out.push(Ty::Struct(vec![ts.clone(), e.clone()]));
        out.push(Ty::Struct(vec![tu.clone(), e.clone()]));
        out.push(Ty::Struct(vec![Ty::Struct(vec![ts.clone()]), e.clone(), u.clone()]));
        out.push(Ty::Struct(vec![ts.clone(), Ty::Struct(vec![e.clone(), u.clone()])]));
        out.push(Ty::Seq(Box::new(Ty::Struct(vec![e.clone(), ts.clone()]))));
    }
    // a repetition whose items begin with a string, followed by something that begins with a word (a tag with a value, an enum, a
    // tagged struct): in non-strict mode the library accepts a word in place of a string, and the items of a repetition are optional
    {
        let s4 = Ty::Str(4);
        let t = |tag: &str, item: Option<Ty>| Tagged { tag: tag.into(), item, block: false, repeat: false };
        out.push(Ty::TaggedStruct(vec![t("A1", Some(Ty::Seq(Box::new(s4.clone())))), t("B1", Some(u.clone()))]));
        out.push(Ty::TaggedStruct(vec![t("A1", Some(Ty::Seq(Box::new(Ty::Struct(vec![s4.clone(), u.clone()]))))), t("B1", Some(u.clone()))]));
        out.push(Ty::TaggedStruct(vec![t("A1", Some(Ty::Seq(Box::new(Ty::Array(Box::new(s4.clone()), 2))))), t("B1", Some(e.clone()))]));
        out.push(Ty::Struct(vec![Ty::TaggedStruct(vec![t("A1", Some(Ty::Seq(Box::new(s4.clone()))))]), e.clone()]));
        out.push(Ty::TaggedStruct(vec![t("A1", Some(Ty::Seq(Box::new(s4.clone())))), Tagged { tag: "B1".into(), item: Some(u.clone()), block: true, repeat: true }]));
        out.push(Ty::Struct(vec![Ty::TaggedUnion(vec![t("A1", Some(Ty::Seq(Box::new(s4.clone()))))]), e.clone(), u.clone()]));
    }
    for x in elems {
        out.push(Ty::Struct(vec![x.clone()]));
        out.push(Ty::Struct(vec![u.clone(), x.clone(), u.clone()]));
        out.push(Ty::TaggedStruct(vec![Tagged { tag: "A1".into(), item: Some(x.clone()), block: false, repeat: false }]));
        out.push(Ty::TaggedStruct(vec![Tagged { tag: "A1".into(), item: Some(x.clone()), block: true, repeat: true }]));
        out.push(Ty::TaggedStruct(vec![Tagged { tag: "A1".into(), item: Some(Ty::Seq(Box::new(x.clone()))), block: true, repeat: false }]));
        out.push(Ty::TaggedUnion(vec![Tagged { tag: "A1".into(), item: Some(Ty::Seq(Box::new(x.clone()))), block: false, repeat: false }]));
        out.push(Ty::Seq(Box::new(x.clone())));
    }
    out
}

/// top-level definitions: `block "IF_DATA" member` and `block "IF_DATA" (member)*`
pub fn definitions(d: usize, full_leaves: bool) -> Vec<Ty> {
    let mut out = members(d, full_leaves);
    for m in members(d.saturating_sub(1), false) {
        out.push(Ty::Seq(Box::new(m)));
    }
    out
}

// ---------------------------------------------------------------------------------------------
// named types: hoist the first nested occurrence of a kind into a named top-level declaration

fn kind_of(t: &Ty) -> usize {
    match t {
        Ty::Enum(_) => 1,
        Ty::Struct(_) => 2,
        Ty::TaggedStruct(_) => 3,
        Ty::TaggedUnion(_) => 4,
        _ => 0,
    }
}

pub fn find_first<'a>(t: &'a Ty, kind: usize, top: bool) -> Option<&'a Ty> {
    if !top && kind_of(t) == kind {
        return Some(t);
    }
    match t {
        Ty::Array(i, _) | Ty::Seq(i) => find_first(i, kind, false),
        Ty::Struct(ms) => ms.iter().find_map(|m| find_first(m, kind, false)),
        Ty::TaggedStruct(items) | Ty::TaggedUnion(items) => items.iter().find_map(|i| i.item.as_ref().and_then(|m| find_first(m, kind, false))),
        _ => None,
    }
}

fn print_member_sub(t: &Ty, target: &Ty, name: &str, done: &std::cell::Cell<bool>) -> String {
    if !done.get() && t == target {
        done.set(true);
        let kw = ["", "enum", "struct", "taggedstruct", "taggedunion"][kind_of(t)];
        return format!("{kw} {name}");
    }
    match t {
        Ty::Array(inner, n) => format!("{}[{n}]", print_member_sub(inner, target, name, done)),
        Ty::Struct(ms) => format!("struct {{ {} }}", ms.iter().map(|m| format!("{};", print_member_sub(m, target, name, done))).collect::<Vec<_>>().join(" ")),
        Ty::Seq(inner) => format!("({})*", print_member_sub(inner, target, name, done)),
        Ty::TaggedStruct(items) | Ty::TaggedUnion(items) => {
            let kw = if matches!(t, Ty::TaggedStruct(_)) { "taggedstruct" } else { "taggedunion" };
            format!(
                "{kw} {{ {} }}",
                items
                    .iter()
                    .map(|i| {
                        let def = match &i.item {
                            None => format!("\"{}\"", i.tag),
                            Some(Ty::Seq(inner)) => format!("\"{}\" ({})*", i.tag, print_member_sub(inner, target, name, done)),
                            Some(m) => format!("\"{}\" {}", i.tag, print_member_sub(m, target, name, done)),
                        };
                        let def = if i.block { format!("block {def}") } else { def };
                        if i.repeat {
                            format!("({def})*;")
                        } else {
                            format!("{def};")
                        }
                    })
                    .collect::<Vec<_>>()
                    .join(" ")
            )
        }
        other => print_member(other),
    }
}

/// the definition with the first nested type of `kind` (1 enum, 2 struct, 3 taggedstruct, 4 taggedunion)
/// declared by name first and referenced by name where it is used; None if there is no such nested type
pub fn print_definition_hoisted(top: &Ty, kind: usize) -> Option<String> {
    let target = find_first(top, kind, true)?.clone();
    let kw = ["", "enum", "struct", "taggedstruct", "taggedunion"][kind];
    let decl = print_member(&target).replacen(kw, &format!("{kw} Hoisted"), 1);
    let done = std::cell::Cell::new(false);
    let member = match top {
        Ty::Seq(inner) => format!("({})*", print_member_sub(inner, &target, "Hoisted", &done)),
        _ => print_member_sub(top, &target, "Hoisted", &done),
    };
    Some(format!("{decl};\nblock \"IF_DATA\" {member};"))
}

// ---------------------------------------------------------------------------------------------
// an independent parser for plain A2ML text (used to read the text constant the macro generates)

#[derive(Debug, Clone, PartialEq)]
enum AT {
    Kw(String),
    Tag(String),
    Num(i64),
    P(char),
}

fn a2ml_lex(text: &str) -> Result<Vec<AT>, String> {
    let c: Vec<char> = text.chars().collect();
    let mut i = 0;
    let mut out = Vec::new();
    while i < c.len() {
        let ch = c[i];
        if ch.is_whitespace() {
            i += 1;
        } else if ch == '/' && i + 1 < c.len() && c[i + 1] == '*' {
            i += 2;
            while i + 1 < c.len() && !(c[i] == '*' && c[i + 1] == '/') {
                i += 1;
            }
            i += 2;
        } else if ch == '/' && i + 1 < c.len() && c[i + 1] == '/' {
            while i < c.len() && c[i] != '\n' {
                i += 1;
            }
        } else if ch == '"' {
            let s = i + 1;
            i += 1;
            while i < c.len() && c[i] != '"' {
                i += 1;
            }
            if i >= c.len() {
                return Err("unclosed tag".into());
            }
            out.push(AT::Tag(c[s..i].iter().collect()));
            i += 1;
        } else if ch.is_ascii_digit() || (ch == '-' && i + 1 < c.len() && c[i + 1].is_ascii_digit()) {
            let s = i;
            i += 1;
            while i < c.len() && (c[i].is_ascii_alphanumeric()) {
                i += 1;
            }
            let t: String = c[s..i].iter().collect();
            let v = if let Some(h) = t.strip_prefix("0x") { i64::from_str_radix(h, 16) } else { t.parse::<i64>() };
            out.push(AT::Num(v.map_err(|e| format!("bad number {t}: {e}"))?));
        } else if ch.is_ascii_alphabetic() || ch == '_' {
            let s = i;
            while i < c.len() && (c[i].is_ascii_alphanumeric() || c[i] == '_') {
                i += 1;
            }
            out.push(AT::Kw(c[s..i].iter().collect()));
        } else if "{}()[];,=*".contains(ch) {
            out.push(AT::P(ch));
            i += 1;
        } else {
            return Err(format!("unexpected character {ch:?}"));
        }
    }
    Ok(out)
}

struct AP {
    t: Vec<AT>,
    i: usize,
    named: std::collections::HashMap<(usize, String), Ty>,
}

impl AP {
    fn peek(&self) -> Option<&AT> {
        self.t.get(self.i)
    }
    fn next(&mut self) -> Result<AT, String> {
        let t = self.t.get(self.i).cloned().ok_or("unexpected end of A2ML")?;
        self.i += 1;
        Ok(t)
    }
    fn expect(&mut self, c: char) -> Result<(), String> {
        match self.next()? {
            AT::P(x) if x == c => Ok(()),
            other => Err(format!("expected '{c}', got {other:?} at token {}", self.i)),
        }
    }
    fn is_p(&self, c: char) -> bool {
        self.peek() == Some(&AT::P(c))
    }
    fn opt_name(&mut self) -> Option<String> {
        if let Some(AT::Kw(k)) = self.peek() {
            let k = k.clone();
            self.i += 1;
            Some(k)
        } else {
            None
        }
    }

    fn type_name(&mut self) -> Result<Ty, String> {
        let AT::Kw(k) = self.next()? else { return Err(format!("type expected at token {}", self.i)) };
        let sc = match k.as_str() {
            "char" => Some(Sc::Char),
            "int" => Some(Sc::Int),
            "long" => Some(Sc::Long),
            "int64" => Some(Sc::Int64),
            "uchar" => Some(Sc::UChar),
            "uint" => Some(Sc::UInt),
            "ulong" => Some(Sc::ULong),
            "uint64" => Some(Sc::UInt64),
            "float" => Some(Sc::Float),
            "double" => Some(Sc::Double),
            _ => None,
        };
        if let Some(sc) = sc {
            return Ok(Ty::Scalar(sc));
        }
        let kind = match k.as_str() {
            "enum" => 1,
            "struct" => 2,
            "taggedstruct" => 3,
            "taggedunion" => 4,
            other => return Err(format!("unknown type keyword {other}")),
        };
        let name = self.opt_name();
        if !self.is_p('{') {
            let n = name.ok_or("type reference without a name")?;
            return self.named.get(&(kind, n.clone())).cloned().ok_or(format!("type {n} referenced but not defined"));
        }
        self.expect('{')?;
        let ty = match kind {
            1 => {
                let mut items = Vec::new();
                loop {
                    let AT::Tag(tag) = self.next()? else { return Err("enum item expected".into()) };
                    let mut val = None;
                    if self.is_p('=') {
                        self.expect('=')?;
                        let AT::Num(n) = self.next()? else { return Err("enum value expected".into()) };
                        val = Some(n as i32);
                    }
                    items.push((tag, val));
                    if self.is_p(',') {
                        self.expect(',')?;
                        if self.is_p('}') {
                            break;
                        }
                    } else {
                        break;
                    }
                }
                Ty::Enum(items)
            }
            2 => {
                let mut ms = Vec::new();
                while !self.is_p('}') {
                    ms.push(self.member()?);
                    self.expect(';')?;
                }
                Ty::Struct(ms)
            }
            _ => {
                let mut items = Vec::new();
                while !self.is_p('}') {
                    items.push(self.tagged_member(kind == 3)?);
                    self.expect(';')?;
                }
                if kind == 3 {
                    Ty::TaggedStruct(items)
                } else {
                    Ty::TaggedUnion(items)
                }
            }
        };
        self.expect('}')?;
        if let Some(n) = name {
            self.named.insert((kind, n), ty.clone());
        }
        Ok(ty)
    }

    fn member(&mut self) -> Result<Ty, String> {
        let mut ty = self.type_name()?;
        let mut dims = Vec::new();
        while self.is_p('[') {
            self.expect('[')?;
            let AT::Num(n) = self.next()? else { return Err("array dimension expected".into()) };
            self.expect(']')?;
            dims.push(n as usize);
        }
        for d in dims {
            ty = if ty == Ty::Scalar(Sc::Char) { Ty::Str(d) } else { Ty::Array(Box::new(ty), d) };
        }
        Ok(ty)
    }

    /// tag [member] | tag ( member )*
    fn tagged_def(&mut self) -> Result<Option<Ty>, String> {
        if self.is_p(';') || self.is_p(')') {
            return Ok(None);
        }
        if self.is_p('(') {
            self.expect('(')?;
            let m = self.member()?;
            self.expect(')')?;
            self.expect('*')?;
            return Ok(Some(Ty::Seq(Box::new(m))));
        }
        Ok(Some(self.member()?))
    }

    fn tagged_member(&mut self, allow_repeat: bool) -> Result<Tagged, String> {
        let mut repeat = false;
        if allow_repeat && self.is_p('(') {
            self.expect('(')?;
            repeat = true;
        }
        let mut block = false;
        if self.peek() == Some(&AT::Kw("block".into())) {
            self.i += 1;
            block = true;
        }
        let AT::Tag(tag) = self.next()? else { return Err(format!("tag expected at token {}", self.i)) };
        let item = self.tagged_def()?;
        if repeat {
            self.expect(')')?;
            self.expect('*')?;
        }
        Ok(Tagged { tag, item, block, repeat })
    }
}

/// parse a complete plain-A2ML text and return the type of the content of `block "IF_DATA"`
pub fn parse_definition(text: &str) -> Result<Ty, String> {
    let mut p = AP { t: a2ml_lex(text)?, i: 0, named: std::collections::HashMap::new() };
    let mut ifdata = None;
    while p.peek().is_some() {
        if p.peek() == Some(&AT::Kw("block".into())) {
            p.i += 1;
            let AT::Tag(tag) = p.next()? else { return Err("tag expected after block".into()) };
            let def = p.tagged_def()?;
            if tag == "IF_DATA" {
                ifdata = def;
            }
        } else {
            p.member()?;
        }
        p.expect(';')?;
    }
    ifdata.ok_or_else(|| "no IF_DATA block".to_string())
}

/// single-edit variants of a definition (used as mismatching definitions)
pub fn variants(t: &Ty) -> Vec<(String, Ty)> {
    let mut out = Vec::new();
    fn walk(t: &Ty, path: &mut Vec<usize>, out: &mut Vec<(Vec<usize>, &'static str, Ty)>) {
        match t {
            Ty::Scalar(sc) => {
                for alt in [Sc::UInt, Sc::Int64, Sc::Float, Sc::UChar] {
                    if &alt != sc {
                        out.push((path.clone(), "scalar-type", Ty::Scalar(alt)));
                    }
                }
                out.push((path.clone(), "scalar->string", Ty::Str(8)));
                out.push((path.clone(), "scalar->array", Ty::Array(Box::new(t.clone()), 2)));
            }
            Ty::Str(n) => {
                out.push((path.clone(), "string->uint", Ty::Scalar(Sc::UInt)));
                out.push((path.clone(), "string-shorter", Ty::Str(n / 2)));
            }
            Ty::Array(inner, n) => {
                out.push((path.clone(), "array-shorter", Ty::Array(inner.clone(), n.saturating_sub(1))));
                out.push((path.clone(), "array-longer", Ty::Array(inner.clone(), n + 1)));
                out.push((path.clone(), "array->element", (**inner).clone()));
                path.push(0);
                walk(inner, path, out);
                path.pop();
            }
            Ty::Enum(items) => {
                let mut it = items.clone();
                it.push(("EXTRA".into(), None));
                out.push((path.clone(), "enum-extra-item", Ty::Enum(it)));
                out.push((path.clone(), "enum->uint", Ty::Scalar(Sc::UInt)));
            }
            Ty::Struct(ms) => {
                if ms.len() > 1 {
                    out.push((path.clone(), "struct-member-removed", Ty::Struct(ms[1..].to_vec())));
                    out.push((path.clone(), "struct-last-member-removed", Ty::Struct(ms[..ms.len() - 1].to_vec())));
                }
                let mut more = ms.clone();
                more.push(Ty::Scalar(Sc::UInt));
                out.push((path.clone(), "struct-member-added", Ty::Struct(more)));
                let mut front = vec![Ty::Scalar(Sc::Float)];
                front.extend(ms.iter().cloned());
                out.push((path.clone(), "struct-member-added-front", Ty::Struct(front)));
                for (i, m) in ms.iter().enumerate() {
                    path.push(i);
                    walk(m, path, out);
                    path.pop();
                }
            }
            Ty::Seq(inner) => {
                out.push((path.clone(), "sequence->single", (**inner).clone()));
                path.push(0);
                walk(inner, path, out);
                path.pop();
            }
            Ty::TaggedStruct(items) | Ty::TaggedUnion(items) => {
                let is_ts = matches!(t, Ty::TaggedStruct(_));
                for (i, it) in items.iter().enumerate() {
                    let mut flipped = items.clone();
                    flipped[i].block = !flipped[i].block;
                    out.push((path.clone(), "tagged-block-flipped", if is_ts { Ty::TaggedStruct(flipped) } else { Ty::TaggedUnion(flipped) }));
                    let mut nomember = items.clone();
                    nomember[i].item = if it.item.is_some() { None } else { Some(Ty::Scalar(Sc::UInt)) };
                    out.push((path.clone(), "tagged-member-toggled", if is_ts { Ty::TaggedStruct(nomember) } else { Ty::TaggedUnion(nomember) }));
                    if is_ts {
                        let mut rep = items.clone();
                        rep[i].repeat = !rep[i].repeat;
                        out.push((path.clone(), "tagged-repeat-flipped", Ty::TaggedStruct(rep)));
                    }
                    if let Some(m) = &it.item {
                        path.push(i);
                        walk(m, path, out);
                        path.pop();
                    }
                }
                out.push((path.clone(), "taggedstruct<->taggedunion", if is_ts { Ty::TaggedUnion(items.iter().map(|i| Tagged { repeat: false, ..i.clone() }).collect()) } else { Ty::TaggedStruct(items.clone()) }));
            }
        }
    }
    fn replace(t: &Ty, path: &[usize], new: &Ty) -> Ty {
        if path.is_empty() {
            return new.clone();
        }
        match t {
            Ty::Array(inner, n) => Ty::Array(Box::new(replace(inner, &path[1..], new)), *n),
            Ty::Seq(inner) => Ty::Seq(Box::new(replace(inner, &path[1..], new))),
            Ty::Struct(ms) => Ty::Struct(ms.iter().enumerate().map(|(i, m)| if i == path[0] { replace(m, &path[1..], new) } else { m.clone() }).collect()),
            Ty::TaggedStruct(items) | Ty::TaggedUnion(items) => {
                let its: Vec<Tagged> = items
                    .iter()
                    .enumerate()
                    .map(|(i, it)| if i == path[0] { Tagged { item: it.item.as_ref().map(|m| replace(m, &path[1..], new)), ..it.clone() } } else { it.clone() })
                    .collect();
                if matches!(t, Ty::TaggedStruct(_)) {
                    Ty::TaggedStruct(its)
                } else {
                    Ty::TaggedUnion(its)
                }
            }
            other => other.clone(),
        }
    }
    let mut raw = Vec::new();
    walk(t, &mut vec![], &mut raw);
    for (path, name, new) in raw {
        out.push((format!("{name}@{path:?}"), replace(t, &path, &new)));
    }
    out
}
