//! Violations, known findings, evidence files, exit codes.

use serde_json::{json, Value};
use std::collections::{BTreeMap, HashSet};
use std::path::PathBuf;
use std::time::Instant;

#[derive(Debug, Clone)]
pub struct Violation {
    /// stable classification: oracle id + minimal failing shape (matched against known findings)
    pub key: String,
    pub what: String,
    /// everything needed to replay the case without the explorer
    pub replay: Value,
}

pub fn verif_dir() -> PathBuf {
    std::env::var("VERIF_DIR").map(PathBuf::from).unwrap_or_else(|_| PathBuf::from("/verif"))
}

pub struct Run {
    pub property: String,
    pub tier: String,
    pub t0: Instant,
    /// the first violation of every key (with its replay data); `viol_count` holds the number of cases per key
    pub violations: Vec<Violation>,
    pub viol_count: BTreeMap<String, u64>,
    pub evaluations: u64,
    pub transitions: u64,
    pub states: HashSet<u64>,
    pub nontrivial: HashSet<u64>,
    pub outcomes: BTreeMap<String, u64>,
    pub samples: Vec<Value>,
    pub extra: BTreeMap<String, Value>,
    pub rule: String,
    pub assumptions: Vec<String>,
    pub exhaustive: bool,
    pub machinery_errors: Vec<String>,
}

impl Run {
    pub fn new(property: &str, tier: &str) -> Run {
        Run {
            property: property.to_string(),
            tier: tier.to_string(),
            t0: Instant::now(),
            violations: vec![],
            viol_count: BTreeMap::new(),
            evaluations: 0,
            transitions: 0,
            states: HashSet::new(),
            nontrivial: HashSet::new(),
            outcomes: BTreeMap::new(),
            samples: vec![],
            extra: BTreeMap::new(),
            rule: String::new(),
            assumptions: vec![],
            exhaustive: true,
            machinery_errors: vec![],
        }
    }
    pub fn outcome(&mut self, k: &str) {
        *self.outcomes.entry(k.to_string()).or_insert(0) += 1;
    }
    pub fn outcome_n(&mut self, k: &str, n: u64) {
        *self.outcomes.entry(k.to_string()).or_insert(0) += n;
    }
    pub fn sample(&mut self, v: Value) {
        if self.samples.len() < 6 {
            self.samples.push(v);
        }
    }
    pub fn violation(&mut self, key: impl Into<String>, what: impl Into<String>, replay: Value) {
        let key = key.into();
        let n = self.viol_count.entry(key.clone()).or_insert(0);
        *n += 1;
        // (a broken build can fail on every case: only the first case of a key is kept with its replay data)
        if *n == 1 {
            self.violations.push(Violation { key, what: what.into(), replay });
        }
    }
    pub fn machinery(&mut self, msg: impl Into<String>) {
        self.machinery_errors.push(msg.into());
    }
    /// require a minimum count for an outcome (non-vacuity); failing is a machinery error
    pub fn require(&mut self, outcome: &str, min: u64) {
        let have = self.outcomes.get(outcome).copied().unwrap_or(0);
        if have < min {
            self.machinery(format!("non-vacuity: outcome '{outcome}' seen {have} times, expected >= {min}"));
        }
    }

    /// write evidence, print VIOLATION / KNOWN-FINDING lines, return the exit code
    pub fn finish(mut self) -> i32 {
        let dir = verif_dir();
        let known = load_known(&self.property);
        let mut printed_known: HashSet<String> = HashSet::new();
        let mut new_keys: BTreeMap<String, (usize, Violation)> = BTreeMap::new();
        let mut known_hits = 0u64;
        for v in &self.violations {
            let cnt = self.viol_count.get(&v.key).copied().unwrap_or(1);
            if let Some(k) = known.iter().find(|k| k.0 == v.key) {
                known_hits += cnt;
                if printed_known.insert(k.0.clone()) {
                    println!("KNOWN-FINDING: property={} {} [{}]", self.property, k.1, k.0);
                }
            } else {
                let e = new_keys.entry(v.key.clone()).or_insert((0, v.clone()));
                e.0 += cnt as usize;
            }
        }
        let replay_dir = dir.join("replays").join(&self.property);
        // replay files of earlier runs are stale
        let _ = std::fs::remove_dir_all(&replay_dir);
        let mut nviol = 0;
        for (key, (count, v)) in &new_keys {
            nviol += 1;
            let _ = std::fs::create_dir_all(&replay_dir);
            let h = crate::explore::fnv1a(key.as_bytes());
            let path = replay_dir.join(format!("{h:016x}.json"));
            let body = json!({
                "property": self.property,
                "key": key,
                "what": v.what,
                "cases_with_this_key": count,
                "replay": v.replay,
            });
            let _ = std::fs::write(&path, serde_json::to_string_pretty(&body).unwrap());
            if nviol <= 40 {
                println!("VIOLATION property={} replay={}", self.property, path.display());
                println!("  key: {key}");
                println!("  what: {}", v.what.chars().take(400).collect::<String>());
            }
        }
        for m in &self.machinery_errors {
            println!("MACHINERY-ERROR: {m}");
        }
        let wall = self.t0.elapsed().as_secs_f64();
        let mut cov = serde_json::Map::new();
        let states = self.states.len().max(1) as u64;
        cov.insert("states".into(), json!(states));
        cov.insert("transitions".into(), json!(self.transitions.max(1)));
        cov.insert("traces_validated_against_impl".into(), json!(self.evaluations));
        cov.insert("evaluations".into(), json!(self.evaluations));
        cov.insert("distinct_nontrivial".into(), json!(self.nontrivial.len()));
        cov.insert("rule".into(), json!(self.rule));
        cov.insert("exhaustive".into(), json!(self.exhaustive));
        cov.insert("outcomes".into(), json!(self.outcomes));
        if self.samples.is_empty() {
            self.samples.push(json!("(no sample recorded)"));
        }
        cov.insert("samples".into(), json!(self.samples));
        cov.insert("known_finding_cases".into(), json!(known_hits));
        cov.insert("new_violation_keys".into(), json!(new_keys.keys().collect::<Vec<_>>()));
        for (k, v) in &self.extra {
            cov.insert(k.clone(), v.clone());
        }
        let ev = json!({
            "property_id": self.property,
            "tier": self.tier,
            "seed": std::env::var("VERIF_SEED").ok().and_then(|s| s.parse::<i64>().ok()).unwrap_or(0),
            "level": "model_checking",
            "coverage": Value::Object(cov),
            "assumptions": self.assumptions,
            "wall_s": (wall * 1000.0).round() / 1000.0,
            "violations": nviol,
            "machinery_errors": self.machinery_errors,
        });
        let evdir = dir.join("evidence");
        let _ = std::fs::create_dir_all(&evdir);
        let evpath = evdir.join(format!("{}.json", self.property));
        if let Err(e) = std::fs::write(&evpath, serde_json::to_string_pretty(&ev).unwrap()) {
            println!("MACHINERY-ERROR: cannot write evidence: {e}");
            return 2;
        }
        println!(
            "{} {}: evaluations={} states={} transitions={} violations={} known_cases={} wall={:.1}s",
            self.property, self.tier, self.evaluations, states, self.transitions, nviol, known_hits, wall
        );
        if nviol > 0 {
            1
        } else if !self.machinery_errors.is_empty() {
            2
        } else {
            0
        }
    }
}

/// (key, what) of the open findings for a property
pub fn load_known(property: &str) -> Vec<(String, String)> {
    let p = verif_dir().join("known_findings.json");
    let Ok(txt) = std::fs::read_to_string(&p) else { return vec![] };
    let Ok(v) = serde_json::from_str::<Value>(&txt) else { return vec![] };
    let mut out = Vec::new();
    if let Some(arr) = v.get("findings").and_then(|f| f.as_array()) {
        for f in arr {
            if f.get("property").and_then(|p| p.as_str()) == Some(property)
                && f.get("status").and_then(|p| p.as_str()) == Some("open")
            {
                out.push((
                    f.get("key").and_then(|k| k.as_str()).unwrap_or("").to_string(),
                    f.get("what").and_then(|k| k.as_str()).unwrap_or("").to_string(),
                ));
            }
        }
    }
    out
}

/// report a hang found by the watchdog and leave the process: the exploration cannot continue
/// (the stuck thread cannot be stopped), the violation is established.
pub fn emit_hang_and_exit(property: &str, tier: &str, key: &str, what: &str, replay: Value) -> ! {
    let dir = verif_dir();
    let known = load_known(property);
    let is_known = known.iter().find(|k| k.0 == key);
    let replay_dir = dir.join("replays").join(property);
    let _ = std::fs::create_dir_all(&replay_dir);
    let h = crate::explore::fnv1a(key.as_bytes());
    let path = replay_dir.join(format!("{h:016x}.json"));
    let body = json!({"property": property, "key": key, "what": what, "replay": replay});
    let _ = std::fs::write(&path, serde_json::to_string_pretty(&body).unwrap());
    let ev = json!({
        "property_id": property, "tier": tier, "seed": 0, "level": "model_checking",
        "coverage": {"states": 1, "transitions": 1, "traces_validated_against_impl": 1, "evaluations": 1, "distinct_nontrivial": 1,
            "samples": [what], "exhaustive": false, "explanation": "exploration stopped at the first hang (the stuck case cannot be cancelled)"},
        "wall_s": 0.0, "violations": if is_known.is_some() { 0 } else { 1 },
    });
    let _ = std::fs::create_dir_all(dir.join("evidence"));
    let _ = std::fs::write(dir.join("evidence").join(format!("{property}.json")), serde_json::to_string_pretty(&ev).unwrap());
    if let Some(k) = is_known {
        println!("KNOWN-FINDING: property={property} {} [{}]", k.1, k.0);
        println!("MACHINERY-ERROR: a known hang prevents the exploration from completing");
        std::process::exit(2);
    }
    println!("VIOLATION property={property} replay={}", path.display());
    println!("  key: {key}");
    println!("  what: {what}");
    std::process::exit(1);
}
