//! prints gen_specs.rs for vmacro (C19): one `a2ml_specification!` invocation per A2ML definition of the
//! reference enumerator (a2mlref::definitions), in plain and - where the top-level type can carry a name -
//! in "named type declared first" form. The text handed to the macro is exactly the plain A2ML text, which
//! is valid input of the macro (all type and member names are optional in its grammar).
//! Run: cargo run --release -p vcore --bin genspecs > vmacro/src/gen_specs.rs
//!      cargo run --release -p vcore --bin genspecs -- deep > vmacro/src/gen_specs_deep.rs

use vcore::a2mlref::*;

/// `enum {..}[n]` and `struct {..}[n]`: the macro rejects arrays whose element type would need a generated name
/// (panic at expansion time, "unnamed struct" / unwrap on None; the named-reference form `struct X[n]` does not
/// parse). Rejected at compile time, hence outside what C19 can observe; left out of the generated set.
fn array_of_composite(t: &Ty) -> bool {
    match t {
        Ty::Array(i, _) => matches!(**i, Ty::Enum(_) | Ty::Struct(_)) || array_of_composite(i),
        Ty::Seq(i) => array_of_composite(i),
        Ty::Struct(ms) => ms.iter().any(array_of_composite),
        Ty::TaggedStruct(items) | Ty::TaggedUnion(items) => items.iter().any(|i| i.item.as_ref().map_or(false, array_of_composite)),
        _ => false,
    }
}

/// anonymous structs in a position where the macro cannot derive a type name from a tag: directly as a struct
/// member or as the element of a sequence. The macro rejects these with an explicit message ("unnamed struct ..
/// found in a position where no name can be derived from context"); with the struct declared by name first the
/// same definition is accepted, so only the hoisted form is generated for them.
fn nameless_structs<'a>(t: &'a Ty, out: &mut Vec<&'a Ty>) {
    match t {
        Ty::Struct(ms) => {
            for m in ms {
                if matches!(m, Ty::Struct(_)) {
                    out.push(m);
                }
                nameless_structs(m, out);
            }
        }
        Ty::Seq(i) => {
            if matches!(**i, Ty::Struct(_)) {
                out.push(i);
            }
            nameless_structs(i, out);
        }
        Ty::Array(i, _) => nameless_structs(i, out),
        Ty::TaggedStruct(items) | Ty::TaggedUnion(items) => {
            for i in items {
                if let Some(m) = &i.item {
                    nameless_structs(m, out);
                }
            }
        }
        _ => {}
    }
}

/// the same definition with a documentation comment (`/// ..`, which the macro copies into the text constant as a line
/// comment) behind every enumerator, struct member, tagged item and declaration
fn documented(text: &str) -> String {
    let toks: Vec<char> = text.chars().collect();
    let mut out = String::new();
    // stack of braces: true = the brace of an enum
    let mut stack: Vec<bool> = Vec::new();
    let mut last_words: Vec<String> = Vec::new();
    let mut word = String::new();
    let mut in_str = false;
    let mut n = 0;
    for &c in &toks {
        if in_str {
            out.push(c);
            if c == '"' {
                in_str = false;
            }
            continue;
        }
        if c.is_alphanumeric() || c == '_' {
            word.push(c);
            out.push(c);
            continue;
        }
        if !word.is_empty() {
            last_words.push(std::mem::take(&mut word));
        }
        match c {
            '"' => {
                in_str = true;
                out.push(c);
            }
            '{' => {
                let k = last_words.len();
                let is_enum = (k >= 1 && last_words[k - 1] == "enum") || (k >= 2 && last_words[k - 2] == "enum");
                stack.push(is_enum);
                last_words.clear();
                out.push(c);
            }
            '}' => {
                if stack.pop() == Some(true) {
                    n += 1;
                    out.push_str(&format!(" /// last item {n}\n"));
                }
                last_words.clear();
                out.push(c);
            }
            ',' if stack.last() == Some(&true) => {
                n += 1;
                out.push_str(&format!(", /// item {n}\n"));
            }
            ';' => {
                n += 1;
                out.push_str(&format!("; /// member {n}\n"));
                last_words.clear();
            }
            _ => out.push(c),
        }
    }
    out
}

fn main() {
    let deep = std::env::args().nth(1).as_deref() == Some("deep");
    let depth: usize = 1;
    let mut defs: Vec<(String, Ty)> = Vec::new();
    let mut seen = std::collections::HashSet::new();
    let mut all = definitions(depth, true);
    all.extend(extra_definitions());
    // one more nesting level over a single leaf type
    if deep {
        all.extend(members_over(depth + 1, &[Ty::Scalar(Sc::UInt)]));
    }
    for t in all.into_iter().filter(|t| !array_of_composite(t)) {
        let mut nameless = Vec::new();
        nameless_structs(&t, &mut nameless);
        if nameless.is_empty() {
            let plain = print_definition(&t, false);
            if seen.insert(plain.clone()) {
                defs.push((plain, t.clone()));
            }
            if matches!(t, Ty::Struct(_) | Ty::TaggedStruct(_) | Ty::TaggedUnion(_) | Ty::Enum(_)) {
                let named = print_definition(&t, true);
                if seen.insert(named.clone()) {
                    defs.push((named, t.clone()));
                }
            }
        }
        for kind in 1..=4 {
            if !nameless.is_empty() && !(kind == 2 && nameless.len() == 1 && find_first(&t, 2, true) == Some(nameless[0])) {
                continue;
            }
            if let Some(h) = print_definition_hoisted(&t, kind) {
                if seen.insert(h.clone()) {
                    defs.push((h, t.clone()));
                }
            }
        }
    }
    // documented variants: every definition with an enum, and every fifth of the others
    let base = defs.len();
    for k in 0..base {
        if defs[k].0.contains("enum") || k % 5 == 0 {
            let d = documented(&defs[k].0.replace('\n', " "));
            defs.push((d, defs[k].1.clone()));
        }
    }
    println!("// @generated by `cargo run --release -p vcore --bin genspecs{}`; do not edit.", if deep { " -- deep > vmacro/src/gen_specs_deep.rs" } else { " > vmacro/src/gen_specs.rs" });
    println!("// {} specifications: every definition of the reference enumerator of nesting depth <= {depth} over all leaf types, the extra", defs.len());
    println!("// definitions (arrays of arrays / enums / structs, sequences of arrays) {}; plain, with a named", if deep { "and every definition of depth <= 2 over uint" } else { "" });
    println!("// top-level type and with the first nested enum / struct / taggedstruct / taggedunion hoisted into a named declaration;");
    println!("// the last {} are documented variants (a `///` comment behind every enumerator, member, tagged item, declaration).", defs.len() - base);
    println!("use super::*;");
    for (k, (text, _)) in defs.iter().enumerate() {
        let one_line = if text.contains("///") { text.clone() } else { text.replace('\n', " ") };
        println!("pub mod g{k:04} {{ a2lmacros_intree::a2ml_specification! {{ <G{k:04}> {one_line} }} }}");
    }
    for (k, (_, ty)) in defs.iter().enumerate() {
        let plain = print_definition(ty, false);
        println!("typed!(g{k:04}::G{k:04}, \"G{k:04}\", g{k:04}::G{k:04}_TEXT, Some({plain:?}));");
    }
    println!("pub const GENERATED: usize = {};", defs.len());
    println!("pub fn run_all(run: &mut Run, thorough: bool, only: Option<&str>) {{");
    for k in 0..defs.len() {
        println!("    check_spec::<g{k:04}::G{k:04}>(run, thorough, only);");
    }
    println!("}}");
}
