//! IF_DATA test documents and payload-token comparison, shared by C18 (vmain) and C19 (vmacro)

use crate::a2mlref::PTok;
use crate::reftok::{self, Kind, NumVal};

pub fn doc_text(def: Option<&str>, payloads: &[String]) -> String {
    let mut s = String::from("ASAP2_VERSION 1 71\n/begin PROJECT p \"\"\n  /begin MODULE m \"\"\n");
    if let Some(d) = def {
        s.push_str("    /begin A2ML\n");
        for l in d.lines() {
            s.push_str("      ");
            s.push_str(l);
            s.push('\n');
        }
        s.push_str("    /end A2ML\n");
    }
    for p in payloads {
        s.push_str("    /begin IF_DATA ");
        s.push_str(p);
        s.push_str("\n    /end IF_DATA\n");
    }
    s.push_str("  /end MODULE\n/end PROJECT\n");
    s
}

/// payload token texts of every IF_DATA block of the module, from a text
pub fn payloads_of(text: &str) -> Result<Vec<Vec<(Kind, String)>>, String> {
    let lex = reftok::lex(text).map_err(|e| format!("not lexable: {e}"))?;
    let t = &lex.tokens;
    let mut out = Vec::new();
    let mut i = 0;
    while i + 1 < t.len() {
        if t[i].kind == Kind::Begin && t[i + 1].text == "IF_DATA" {
            let mut j = i + 2;
            let mut bal = 0i32;
            let mut v = Vec::new();
            while j < t.len() {
                match t[j].kind {
                    Kind::Begin => bal += 1,
                    Kind::End => {
                        if bal == 0 {
                            break;
                        }
                        bal -= 1;
                    }
                    _ => {}
                }
                v.push((t[j].kind.clone(), t[j].text.clone()));
                j += 1;
            }
            out.push(v);
            i = j;
        }
        i += 1;
    }
    Ok(out)
}

pub fn tok_equal(a: &(Kind, String), b: &(Kind, String), float_tol: bool, lenient: bool) -> bool {
    if a.0 != b.0 {
        // an identifier in place of a string is tolerated by the library and written as the string it stands for
        if lenient && a.0 == Kind::Ident && b.0 == Kind::Str && reftok::unescape(&b.1) == a.1 {
            return true;
        }
        return false;
    }
    match a.0 {
        Kind::Str => reftok::unescape(&a.1) == reftok::unescape(&b.1),
        Kind::Num => {
            let hex = |s: &str| s.starts_with("0x") || s.starts_with("0X");
            match (reftok::numval(&a.1), reftok::numval(&b.1)) {
                (NumVal::Int(x), NumVal::Int(y)) => x == y && hex(&a.1) == hex(&b.1),
                (NumVal::Float(x), NumVal::Float(y)) => x == y || (float_tol && ((x - y).abs() <= 1e-6 * x.abs().max(y.abs()))),
                (NumVal::Float(x), NumVal::Int(y)) | (NumVal::Int(y), NumVal::Float(x)) => x == y as f64 || (float_tol && ((x - y as f64).abs() <= 1e-6 * x.abs())),
                _ => false,
            }
        }
        _ => a.1 == b.1,
    }
}

pub fn ptok_kind(p: &PTok) -> (Kind, String) {
    match p {
        PTok::Begin => (Kind::Begin, "/begin".into()),
        PTok::End => (Kind::End, "/end".into()),
        PTok::Ident(s) => (Kind::Ident, s.clone()),
        PTok::Num(s) => (Kind::Num, s.clone()),
        PTok::Str(s) => (Kind::Str, s.clone()),
    }
}

