//! The grammar's reference positions (DESIGN.md appendix A) and a generic extractor of the
//! reference graph of a module from its Debug tree.

use crate::dbgtree::DVal;
use std::collections::{BTreeMap, BTreeSet};

#[derive(Debug, Clone, Copy, PartialEq, Eq, PartialOrd, Ord, Hash)]
pub enum Ns {
    Obj,
    Tab,
    Typedef,
    CompuMethod,
    Unit,
    RecordLayout,
    Function,
    Group,
    Transformer,
    MemSeg,
    Frame,
    UserRights,
}

/// (struct name, field, target namespace)
pub const REF_SITES: &[(&str, &str, Ns)] = &[
    ("AxisPts", "conversion", Ns::CompuMethod),
    ("AxisPts", "deposit_record", Ns::RecordLayout),
    ("AxisPts", "input_quantity", Ns::Obj),
    ("Characteristic", "conversion", Ns::CompuMethod),
    ("Characteristic", "deposit", Ns::RecordLayout),
    ("AxisDescr", "conversion", Ns::CompuMethod),
    ("AxisDescr", "input_quantity", Ns::Obj),
    ("AxisPtsRef", "axis_points", Ns::Obj),
    ("CurveAxisRef", "curve_axis", Ns::Obj),
    ("Measurement", "conversion", Ns::CompuMethod),
    ("TypedefAxis", "conversion", Ns::CompuMethod),
    ("TypedefAxis", "record_layout", Ns::RecordLayout),
    ("TypedefAxis", "input_quantity", Ns::Obj),
    ("TypedefCharacteristic", "conversion", Ns::CompuMethod),
    ("TypedefCharacteristic", "record_layout", Ns::RecordLayout),
    ("TypedefMeasurement", "conversion", Ns::CompuMethod),
    ("Conversion", "name", Ns::CompuMethod),
    ("SRecLayout", "name", Ns::RecordLayout),
    ("CompuTabRef", "conversion_table", Ns::Tab),
    ("StatusStringRef", "conversion_table", Ns::Tab),
    ("RefUnit", "unit", Ns::Unit),
    ("ComparisonQuantity", "name", Ns::Obj),
    ("DependentCharacteristic", "characteristic_list", Ns::Obj),
    ("VirtualCharacteristic", "characteristic_list", Ns::Obj),
    ("MapList", "name_list", Ns::Obj),
    ("Virtual", "measuring_channel_list", Ns::Obj),
    ("InputQuantity", "name", Ns::Obj),
    ("FrameMeasurement", "identifier_list", Ns::Obj),
    ("InMeasurement", "identifier_list", Ns::Obj),
    ("LocMeasurement", "identifier_list", Ns::Obj),
    ("OutMeasurement", "identifier_list", Ns::Obj),
    ("DefCharacteristic", "identifier_list", Ns::Obj),
    ("RefCharacteristic", "identifier_list", Ns::Obj),
    ("RefMeasurement", "identifier_list", Ns::Obj),
    ("TransformerInObjects", "identifier_list", Ns::Obj),
    ("TransformerOutObjects", "identifier_list", Ns::Obj),
    ("VarMeasurement", "name", Ns::Obj),
    ("VarSelectionCharacteristic", "name", Ns::Obj),
    ("VarCharacteristic", "name", Ns::Obj),
    ("FunctionList", "name_list", Ns::Function),
    ("SubFunction", "identifier_list", Ns::Function),
    ("SubGroup", "identifier_list", Ns::Group),
    ("RefGroup", "identifier_list", Ns::Group),
    ("Transformer", "inverse_transformer", Ns::Transformer),
    ("Instance", "type_ref", Ns::Typedef),
    ("StructureComponent", "component_type", Ns::Typedef),
    ("RefMemorySegment", "name", Ns::MemSeg),
];

/// identifier positions that are NOT references to a module-level namespace and must be left alone
pub const NON_REF_SITES: &[(&str, &str)] = &[
    ("DisplayIdentifier", "display_name"),
    ("ArPrototypeOf", "name"),
    ("ProjectNo", "project_number"),
    ("Overwrite", "name"),
    ("VarCriterion", "value_list"),
    ("VarCriterion", "name"),
    ("CombinationStruct", "criterion_name"),
    ("CombinationStruct", "criterion_value"),
    ("VarCharacteristic", "criterion_name_list"),
];

pub fn is_special_target(t: &str) -> bool {
    t == "NO_COMPU_METHOD" || t == "NO_INPUT_QUANTITY" || t == "NO_INVERSE_TRANSFORMER" || t.starts_with("THIS.")
}

/// namespace of a module list field
pub fn list_ns(field: &str) -> Option<Ns> {
    Some(match field {
        "axis_pts" | "blob" | "characteristic" | "instance" | "measurement" => Ns::Obj,
        "compu_tab" | "compu_vtab" | "compu_vtab_range" => Ns::Tab,
        "typedef_axis" | "typedef_blob" | "typedef_characteristic" | "typedef_measurement" | "typedef_structure" => Ns::Typedef,
        "compu_method" => Ns::CompuMethod,
        "unit" => Ns::Unit,
        "record_layout" => Ns::RecordLayout,
        "function" => Ns::Function,
        "group" => Ns::Group,
        "transformer" => Ns::Transformer,
        "frame" => Ns::Frame,
        "memory_segment" => Ns::MemSeg,
        "user_rights" => Ns::UserRights,
        _ => return None,
    })
}

#[derive(Debug, Clone, PartialEq, Eq, PartialOrd, Ord)]
pub struct Edge {
    /// "<TopStruct>/<Struct>.<field>"
    pub site: String,
    pub ns: Ns,
    pub target: String,
    /// position of the target inside an identifier list (0 for scalar fields)
    pub idx: usize,
}

#[derive(Debug, Clone)]
pub struct Elem {
    /// module field holding the element ("measurement", "memory_segment", "mod_common" ...)
    pub list: String,
    pub ns: Option<Ns>,
    pub kind: String,
    pub name: String,
    pub dv: DVal,
    pub edges: Vec<Edge>,
}

impl Elem {
    /// canonical content with the element's own name blanked
    pub fn content(&self) -> String {
        blank_name(&self.dv).canon()
    }
}

fn blank_name(d: &DVal) -> DVal {
    match d {
        DVal::Struct { name, fields } => DVal::Struct {
            name: name.clone(),
            fields: fields.iter().enumerate().map(|(i, (k, v))| if i == 0 && (k == "name" || k == "user_level_id") { (k.clone(), DVal::Str("_".into())) } else { (k.clone(), v.clone()) }).collect(),
        },
        other => other.clone(),
    }
}

#[derive(Debug, Clone, Default)]
pub struct Snapshot {
    pub elems: Vec<Elem>,
}

fn collect_edges(top: &str, d: &DVal, out: &mut Vec<Edge>) {
    match d {
        DVal::Struct { name, fields } => {
            for (k, v) in fields {
                if let Some((_, _, ns)) = REF_SITES.iter().find(|s| s.0 == name && s.1 == k) {
                    let site = format!("{top}/{name}.{k}");
                    match v {
                        DVal::Str(t) => out.push(Edge { site, ns: *ns, target: t.clone(), idx: 0 }),
                        DVal::List(items) => {
                            for (i, it) in items.iter().enumerate() {
                                if let DVal::Str(t) = it {
                                    out.push(Edge { site: site.clone(), ns: *ns, target: t.clone(), idx: i });
                                }
                            }
                        }
                        _ => {}
                    }
                } else {
                    collect_edges(top, v, out);
                }
            }
        }
        DVal::Tuple { items, .. } | DVal::List(items) => {
            for it in items {
                collect_edges(top, it, out);
            }
        }
        _ => {}
    }
}

fn elem_of(list: &str, d: &DVal) -> Elem {
    let kind = d.name().to_string();
    let name = match d {
        DVal::Struct { fields, .. } => fields.first().and_then(|f| if f.0 == "name" || f.0 == "user_level_id" { f.1.as_str().map(|s| s.to_string()) } else { None }).unwrap_or_default(),
        _ => String::new(),
    };
    let mut edges = Vec::new();
    collect_edges(&kind, d, &mut edges);
    Elem { list: list.to_string(), ns: list_ns(list), kind, name, dv: d.clone(), edges }
}

/// snapshot of a module from `format!("{:?}", module)` parsed into a tree
pub fn snapshot(module: &DVal) -> Snapshot {
    let mut s = Snapshot::default();
    let DVal::Struct { fields, .. } = module else { return s };
    for (k, v) in fields {
        if k == "name" || k == "long_identifier" {
            continue;
        }
        if let Some(items) = v.list() {
            for it in items {
                s.elems.push(elem_of(k, it));
            }
        } else if let Some(inner) = v.opt() {
            if matches!(inner, DVal::Struct { .. }) {
                if k == "mod_par" {
                    // memory segments are named elements of their own namespace
                    if let Some(ms) = inner.field("memory_segment").and_then(|m| m.list()) {
                        for it in ms {
                            s.elems.push(elem_of("memory_segment", it));
                        }
                    }
                }
                s.elems.push(elem_of(k, inner));
            }
        }
    }
    s
}

impl Snapshot {
    pub fn names(&self, ns: Ns) -> BTreeSet<String> {
        self.elems.iter().filter(|e| e.ns == Some(ns)).map(|e| e.name.clone()).collect()
    }
    pub fn get(&self, ns: Ns, name: &str) -> Vec<&Elem> {
        self.elems.iter().filter(|e| e.ns == Some(ns) && e.name == name).collect()
    }
    pub fn by_ns(&self) -> BTreeMap<Ns, Vec<&Elem>> {
        let mut m: BTreeMap<Ns, Vec<&Elem>> = BTreeMap::new();
        for e in &self.elems {
            if let Some(ns) = e.ns {
                m.entry(ns).or_default().push(e);
            }
        }
        m
    }
    /// all edges whose target does not exist (special constants excluded)
    pub fn dangling(&self) -> Vec<(String, Edge)> {
        let mut out = Vec::new();
        for e in &self.elems {
            for ed in &e.edges {
                if is_special_target(&ed.target) {
                    continue;
                }
                if !self.elems.iter().any(|t| t.ns == Some(ed.ns) && t.name == ed.target) {
                    out.push((format!("{} {}", e.kind, e.name), ed.clone()));
                }
            }
        }
        out
    }
}
