//! T — reference tokenizer, written from the lexical rules of the A2L format, independent of
//! a2lfile's tokenizer.rs. Produces the significant tokens with their line numbers.

#[derive(Debug, Clone, PartialEq, Eq, Hash)]
pub enum Kind {
    Begin,
    End,
    Include,
    Ident,
    Str,
    Num,
    Raw, // A2ML body
}

#[derive(Debug, Clone)]
pub struct Tok {
    pub kind: Kind,
    pub text: String,
    /// line of the first character
    pub line: u32,
    /// line of the last character
    pub end_line: u32,
}

#[derive(Debug, Clone)]
pub struct Comment {
    pub text: String,
    pub line: u32,
    /// index of the significant token that follows this comment
    pub before_token: usize,
}

#[derive(Debug, Clone, Default)]
pub struct Lexed {
    pub tokens: Vec<Tok>,
    pub comments: Vec<Comment>,
}

fn is_identchar(c: u8) -> bool {
    c.is_ascii_alphanumeric() || c == b'.' || c == b'[' || c == b']' || c == b'_'
}

/// Err(description) if the text is lexically malformed
pub fn lex(text: &str) -> Result<Lexed, String> {
    let b = text.as_bytes();
    let n = b.len();
    let mut i = 0;
    let mut line = 1u32;
    let mut out = Lexed::default();
    while i < n {
        let c = b[i];
        if c == b'\n' {
            line += 1;
            i += 1;
        } else if c.is_ascii_whitespace() {
            i += 1;
        } else if c == b'/' && i + 1 < n && b[i + 1] == b'*' {
            let s = i;
            let l0 = line;
            i += 2;
            loop {
                if i + 1 >= n {
                    return Err("unclosed comment".into());
                }
                if b[i] == b'*' && b[i + 1] == b'/' {
                    i += 2;
                    break;
                }
                if b[i] == b'\n' {
                    line += 1;
                }
                i += 1;
            }
            out.comments.push(Comment {
                text: String::from_utf8_lossy(&b[s..i]).into_owned(),
                line: l0,
                before_token: out.tokens.len(),
            });
        } else if c == b'/' && i + 1 < n && b[i + 1] == b'/' {
            let s = i;
            while i < n && b[i] != b'\n' {
                i += 1;
            }
            out.comments.push(Comment {
                text: String::from_utf8_lossy(&b[s..i]).into_owned(),
                line,
                before_token: out.tokens.len(),
            });
        } else if c == b'/' {
            let rest = &b[i + 1..];
            let (kind, len) = if rest.starts_with(b"begin") {
                (Kind::Begin, 6)
            } else if rest.starts_with(b"end") {
                (Kind::End, 4)
            } else if rest.starts_with(b"include") {
                (Kind::Include, 8)
            } else {
                return Err(format!("stray '/' on line {line}"));
            };
            out.tokens.push(Tok { kind, text: String::from_utf8_lossy(&b[i..i + len]).into_owned(), line, end_line: line });
            i += len;
        } else if c == b'"' {
            let s = i;
            let l0 = line;
            i += 1;
            loop {
                if i >= n {
                    return Err("unclosed string".into());
                }
                if b[i] == b'\\' && i + 1 < n {
                    if b[i + 1] == b'\n' {
                        line += 1;
                    }
                    i += 2;
                    continue;
                }
                if b[i] == b'"' {
                    if i + 1 < n && b[i + 1] == b'"' {
                        i += 2;
                        continue;
                    }
                    i += 1;
                    break;
                }
                if b[i] == b'\n' {
                    line += 1;
                }
                i += 1;
            }
            out.tokens.push(Tok { kind: Kind::Str, text: String::from_utf8_lossy(&b[s..i]).into_owned(), line: l0, end_line: line });
        } else if c.is_ascii_alphabetic() || c == b'_' {
            let s = i;
            while i < n && is_identchar(b[i]) {
                i += 1;
            }
            let text = String::from_utf8_lossy(&b[s..i]).into_owned();
            let is_a2ml = text == "A2ML"
                && out.tokens.last().map_or(false, |t| t.kind == Kind::Begin);
            out.tokens.push(Tok { kind: Kind::Ident, text, line, end_line: line });
            if is_a2ml {
                // raw region up to "/end" that is not inside a comment
                let s = i;
                let l0 = line;
                let mut j = i;
                let mut l = line;
                let mut found = None;
                while j < n {
                    if b[j] == b'\n' {
                        l += 1;
                        j += 1;
                    } else if b[j] == b'/' && b[j..].starts_with(b"//") {
                        while j < n && b[j] != b'\n' {
                            j += 1;
                        }
                    } else if b[j] == b'/' && b[j..].starts_with(b"/*") {
                        j += 2;
                        while j + 1 < n && !(b[j] == b'*' && b[j + 1] == b'/') {
                            if b[j] == b'\n' {
                                l += 1;
                            }
                            j += 1;
                        }
                        j = (j + 2).min(n);
                    } else if b[j] == b'/' && b[j..].starts_with(b"/end") {
                        found = Some(j);
                        break;
                    } else {
                        j += 1;
                    }
                }
                let Some(e) = found else {
                    return Err("unterminated A2ML".into());
                };
                let raw = String::from_utf8_lossy(&b[s..e]).into_owned();
                let trimmed = raw.trim();
                if !trimmed.is_empty() {
                    // line of first non-blank character
                    let lead = &raw[..raw.len() - raw.trim_start().len()];
                    let first_line = l0 + lead.matches('\n').count() as u32;
                    let last_line = first_line + trimmed.matches('\n').count() as u32;
                    out.tokens.push(Tok { kind: Kind::Raw, text: trimmed.to_string(), line: first_line, end_line: last_line });
                }
                i = e;
                line = l;
            }
        } else if c == b'-' || c == b'+' || c == b'.' || c.is_ascii_digit() {
            let s = i;
            while i < n && (is_identchar(b[i]) || b[i] == b'+' || b[i] == b'-') {
                i += 1;
            }
            let text = String::from_utf8_lossy(&b[s..i]).into_owned();
            // a token made only of number characters is a number token (possibly malformed);
            // digits followed by other identifier characters: an (invalid) identifier
            let numchars = text.bytes().all(|c| c.is_ascii_hexdigit() || b"xX.+-".contains(&c));
            let kind = if numchars { Kind::Num } else { Kind::Ident };
            out.tokens.push(Tok { kind, text, line, end_line: line });
        } else {
            return Err(format!("invalid character {c:#x} on line {line}"));
        }
    }
    Ok(out)
}

pub fn looks_like_number(t: &str) -> bool {
    if let Some(h) = t.strip_prefix("0x").or_else(|| t.strip_prefix("0X")) {
        return !h.is_empty() && h.chars().all(|c| c.is_ascii_hexdigit());
    }
    t.parse::<f64>().is_ok() && t.chars().all(|c| c.is_ascii_digit() || "+-.eE".contains(c))
}

/// value of a string token (quotes stripped, escapes resolved) per the A2L rules
pub fn unescape(tok: &str) -> String {
    let inner: Vec<char> = tok[1..tok.len() - 1].chars().collect();
    let mut out = String::new();
    let mut i = 0;
    while i < inner.len() {
        let c = inner[i];
        if c == '"' && i + 1 < inner.len() && inner[i + 1] == '"' {
            out.push('"');
            i += 2;
        } else if c == '\\' && i + 1 < inner.len() {
            let d = inner[i + 1];
            match d {
                '"' => out.push('"'),
                '\'' => out.push('\''),
                '\\' => out.push('\\'),
                'n' => out.push('\n'),
                'r' => out.push('\r'),
                't' => out.push('\t'),
                other => {
                    out.push('\\');
                    out.push(other);
                }
            }
            i += 2;
        } else {
            out.push(c);
            i += 1;
        }
    }
    out
}

/// numeric value classes for comparing notation-independent values
#[derive(Debug, Clone, PartialEq)]
pub enum NumVal {
    Int(i128),
    Float(f64),
    Bad,
}

pub fn numval(t: &str) -> NumVal {
    if let Some(h) = t.strip_prefix("0x").or_else(|| t.strip_prefix("0X")) {
        return match u128::from_str_radix(h, 16) {
            Ok(v) => NumVal::Int(v as i128),
            Err(_) => NumVal::Bad,
        };
    }
    if let Ok(v) = t.parse::<i128>() {
        return NumVal::Int(v);
    }
    match t.parse::<f64>() {
        Ok(v) => NumVal::Float(v),
        Err(_) => NumVal::Bad,
    }
}
