//! D — document generator: derivation trees over the frozen grammar, rendered to token lists and
//! to text under a layout. Everything is a pure function of the choice vector.

use crate::grammar::*;
use std::collections::{HashMap, VecDeque};

#[derive(Debug, Clone, PartialEq, Eq, Hash)]
pub enum TKind {
    Begin,
    End,
    Tag,    // tag following /begin, or a keyword's tag
    EndTag, // tag following /end
    Ident,
    Str,
    Int,
    Float,
    Enum,
    Raw, // raw A2ML text
    Other, // payload tokens of IF_DATA / unknown elements
}

#[derive(Debug, Clone)]
pub struct RTok {
    pub text: String,
    pub kind: TKind,
    /// depth of the owning node (root children = 0)
    pub depth: usize,
    /// index of the owning node in pre-order numbering of the document
    pub node: usize,
    /// true when this token starts a child element (gets its own line in the default layout)
    pub starts_line: bool,
}

#[derive(Debug, Clone)]
pub struct Param {
    pub text: String,
    pub kind: TKind,
    pub ty: PType,
    /// field name of the item this value belongs to; for sequences "seqname.field"
    pub field: String,
    /// index of the grammar item
    pub item: usize,
    /// for arrays / sequences: running index of the entry
    pub sub: usize,
}

#[derive(Debug, Clone)]
pub struct Node {
    pub tag: String,
    pub block: bool,
    pub params: Vec<Param>,
    pub children: Vec<Node>,
    /// A2ML raw text or IF_DATA / unknown payload (already rendered text, tokens separated by blanks)
    pub raw: Option<String>,
    /// tag written after /end (fault injection); None = tag
    pub end_tag: Option<String>,
    /// false for injected unknown elements
    pub known: bool,
}

impl Node {
    pub fn child(&self, tag: &str) -> Option<&Node> {
        self.children.iter().find(|c| c.tag == tag)
    }
    pub fn child_mut(&mut self, tag: &str) -> Option<&mut Node> {
        self.children.iter_mut().find(|c| c.tag == tag)
    }
    pub fn count_nodes(&self) -> usize {
        1 + self.children.iter().map(|c| c.count_nodes()).sum::<usize>()
    }
    /// walk to a node by child-index path
    pub fn at(&self, path: &[usize]) -> &Node {
        let mut n = self;
        for p in path {
            n = &n.children[*p];
        }
        n
    }
    pub fn at_mut(&mut self, path: &[usize]) -> &mut Node {
        let mut n = self;
        for p in path {
            n = &mut n.children[*p];
        }
        n
    }
}

#[derive(Debug, Clone)]
pub struct Doc {
    pub version: usize,
    pub root: Node,
}

pub struct Gen<'g> {
    pub g: &'g Grammar,
    /// for every tag: the chain of tags from a child of the root down to the tag itself
    pub path: HashMap<String, Vec<String>>,
    ctr: u32,
}

pub const SIMPLE_A2ML: &str = "block \"IF_DATA\" taggedunion if_data {\n      \"VX\" struct { uint; };\n    };";

impl<'g> Gen<'g> {
    pub fn new(g: &'g Grammar) -> Self {
        // BFS over the containment graph from the root
        let mut path: HashMap<String, Vec<String>> = HashMap::new();
        let mut q = VecDeque::new();
        let root = g.elem("A2L_FILE");
        for r in &root.refs {
            path.insert(r.tag.clone(), vec![r.tag.clone()]);
            q.push_back(r.tag.clone());
        }
        while let Some(t) = q.pop_front() {
            let e = g.elem(&t);
            let base = path[&t].clone();
            for r in &e.refs {
                if !path.contains_key(&r.tag) {
                    let mut p = base.clone();
                    p.push(r.tag.clone());
                    path.insert(r.tag.clone(), p);
                    q.push_back(r.tag.clone());
                }
            }
        }
        Gen { g, path, ctr: 0 }
    }

    pub fn reset(&mut self) {
        self.ctr = 0;
    }

    fn next(&mut self) -> u32 {
        self.ctr += 1;
        self.ctr
    }

    pub fn value(&mut self, ty: &PType, version: usize) -> (String, TKind) {
        match ty {
            PType::Ident => (format!("I{}", self.next()), TKind::Ident),
            PType::Str => (format!("\"S{}\"", self.next()), TKind::Str),
            // (every other value is not representable in single precision)
            PType::Float => {
                let n = self.next();
                (format!("{n}.{}", if n % 2 == 0 { 5 } else { 1 }), TKind::Float)
            }
            PType::Enum(n) => {
                let ed = self.g.enumdef(n);
                let it = ed
                    .items
                    .iter()
                    .find(|i| i.in_version(version))
                    .unwrap_or(&ed.items[0]);
                (it.name.clone(), TKind::Enum)
            }
            _ => {
                let n = self.next();
                assert!(n < 30000, "value counter overflow");
                (format!("{n}"), TKind::Int)
            }
        }
    }

    /// the smallest legal instance of `tag`: all fixed parameters, required children only.
    /// sequences get `seqlen` entries.
    pub fn min_node(&mut self, tag: &str, version: usize, seqlen: usize) -> Node {
        let e = self.g.elem(tag).clone();
        let mut node = Node {
            tag: tag.to_string(),
            block: e.is_block,
            params: vec![],
            children: vec![],
            raw: None,
            end_tag: None,
            known: true,
        };
        match e.special {
            Special::A2ml => {
                node.raw = Some(SIMPLE_A2ML.to_string());
                return node;
            }
            Special::IfData => {
                node.raw = Some("VX 1".to_string());
                return node;
            }
            _ => {}
        }
        for (idx, it) in e.items.iter().enumerate() {
            match it {
                Item::Single { ty, name } => {
                    let (text, kind) = self.value(ty, version);
                    node.params.push(Param { text, kind, ty: ty.clone(), field: name.clone(), item: idx, sub: 0 });
                }
                Item::Array { ty, dim, name } => {
                    for k in 0..*dim {
                        let (text, kind) = self.value(ty, version);
                        node.params.push(Param { text, kind, ty: ty.clone(), field: name.clone(), item: idx, sub: k });
                    }
                }
                Item::Seq { fields, name } => {
                    for k in 0..seqlen {
                        for (fty, fname) in fields {
                            let (text, kind) = self.value(fty, version);
                            node.params.push(Param {
                                text,
                                kind,
                                ty: fty.clone(),
                                field: format!("{name}.{fname}"),
                                item: idx,
                                sub: k,
                            });
                        }
                    }
                }
            }
        }
        for r in &e.refs {
            if r.required {
                let c = self.min_node(&r.tag, version, seqlen);
                node.children.push(c);
            }
        }
        node
    }

    /// highest version (preferring 1.71) in which the whole tag chain and `extra` refs are in range
    pub fn version_for(&self, chain: &[String], extra: &[(String, String)]) -> usize {
        let mut ok = [true; 6];
        let mut parent = "A2L_FILE".to_string();
        let mut check = |parent: &str, tag: &str, ok: &mut [bool; 6]| {
            let pe = self.g.elem(parent);
            if let Some(r) = pe.refs.iter().find(|r| r.tag == tag) {
                for v in 0..6 {
                    if !r.in_version(v) {
                        ok[v] = false;
                    }
                }
            }
        };
        for t in chain {
            check(&parent, t, &mut ok);
            parent = t.clone();
        }
        for (p, t) in extra {
            check(p, t, &mut ok);
        }
        (0..6).rev().find(|v| ok[*v]).unwrap_or(5)
    }

    /// carrier document for `tag`: smallest legal document containing it once.
    /// returns the document and the child-index path to the node for `tag`.
    pub fn carrier_v(&mut self, tag: &str, version: usize, seqlen: usize) -> (Doc, Vec<usize>) {
        self.reset();
        let chain = self.path.get(tag).cloned().unwrap_or_default();
        let mut root = Node {
            tag: "A2L_FILE".into(),
            block: false,
            params: vec![],
            children: vec![],
            raw: None,
            end_tag: None,
            known: true,
        };
        // version element
        let (maj, min) = VERSIONS[version];
        let mut ver = self.min_node("ASAP2_VERSION", version, 0);
        ver.params[0].text = maj.to_string();
        ver.params[1].text = min.to_string();
        root.children.push(ver);
        let project = self.min_node("PROJECT", version, seqlen);
        root.children.push(project);
        let mut pathidx = Vec::new();
        if chain.is_empty() {
            return (Doc { version, root }, pathidx);
        }
        // walk/extend along the chain
        let mut cur: &mut Node = &mut root;
        for t in &chain {
            let pos = cur.children.iter().position(|c| &c.tag == t);
            let pos = match pos {
                Some(p) => p,
                None => {
                    let n = self.min_node(t, version, seqlen);
                    // keep root order: ASAP2_VERSION, A2ML_VERSION, PROJECT
                    if cur.tag == "A2L_FILE" {
                        let ins = cur.children.len() - 1;
                        cur.children.insert(ins, n);
                        ins
                    } else {
                        cur.children.push(n);
                        cur.children.len() - 1
                    }
                }
            };
            pathidx.push(pos);
            cur = &mut cur.children[pos];
        }
        (Doc { version, root }, pathidx)
    }

    pub fn carrier(&mut self, tag: &str) -> (Doc, Vec<usize>) {
        let chain = self.path.get(tag).cloned().unwrap_or_default();
        let v = self.version_for(&chain, &[]);
        self.carrier_v(tag, v, 1)
    }
}

/// position-restricted ordering rule inside RECORD_LAYOUT is by `position` parameter; the
/// generator gives increasing positions so canonical order == generation order.

impl Doc {
    pub fn tokens(&self) -> Vec<RTok> {
        let mut out = Vec::new();
        let mut ctr = 0usize;
        for c in &self.root.children {
            node_tokens(c, 0, &mut ctr, &mut out);
        }
        out
    }
    pub fn text(&self) -> String {
        render(&self.tokens(), &HashMap::new())
    }
}

fn node_tokens(n: &Node, depth: usize, ctr: &mut usize, out: &mut Vec<RTok>) {
    let id = *ctr;
    *ctr += 1;
    if n.block {
        out.push(RTok { text: "/begin".into(), kind: TKind::Begin, depth, node: id, starts_line: true });
        out.push(RTok { text: n.tag.clone(), kind: TKind::Tag, depth, node: id, starts_line: false });
    } else {
        out.push(RTok { text: n.tag.clone(), kind: TKind::Tag, depth, node: id, starts_line: true });
    }
    for p in &n.params {
        out.push(RTok { text: p.text.clone(), kind: p.kind.clone(), depth, node: id, starts_line: false });
    }
    if let Some(raw) = &n.raw {
        if n.tag == "A2ML" {
            out.push(RTok { text: raw.clone(), kind: TKind::Raw, depth, node: id, starts_line: false });
        } else {
            for t in split_payload(raw) {
                out.push(RTok { text: t, kind: TKind::Other, depth, node: id, starts_line: false });
            }
        }
    }
    for c in &n.children {
        node_tokens(c, depth + 1, ctr, out);
    }
    if n.block {
        out.push(RTok { text: "/end".into(), kind: TKind::End, depth, node: id, starts_line: true });
        out.push(RTok {
            text: n.end_tag.clone().unwrap_or_else(|| n.tag.clone()),
            kind: TKind::EndTag,
            depth,
            node: id,
            starts_line: false,
        });
    }
}

/// split a payload into tokens: quoted strings stay whole
pub fn split_payload(raw: &str) -> Vec<String> {
    let b: Vec<char> = raw.chars().collect();
    let mut out = Vec::new();
    let mut i = 0;
    while i < b.len() {
        if b[i].is_whitespace() {
            i += 1;
        } else if b[i] == '"' {
            let s = i;
            i += 1;
            while i < b.len() && b[i] != '"' {
                i += 1;
            }
            i = (i + 1).min(b.len());
            out.push(b[s..i].iter().collect());
        } else if b[i] == '/' && i + 1 < b.len() && b[i + 1] == '*' {
            let s = i;
            i += 2;
            while i + 1 < b.len() && !(b[i] == '*' && b[i + 1] == '/') {
                i += 1;
            }
            i = (i + 2).min(b.len());
            out.push(b[s..i].iter().collect());
        } else if b[i] == '/' && i + 1 < b.len() && b[i + 1] == '/' {
            let s = i;
            while i < b.len() && b[i] != '\n' {
                i += 1;
            }
            let mut t: String = b[s..i].iter().collect();
            t.push('\n');
            out.push(t);
        } else {
            let s = i;
            while i < b.len() && !b[i].is_whitespace() {
                i += 1;
            }
            out.push(b[s..i].iter().collect());
        }
    }
    out
}

/// default gap before token i
pub fn default_gap(toks: &[RTok], i: usize) -> String {
    if i == 0 {
        return String::new();
    }
    let t = &toks[i];
    if t.starts_line {
        let mut s = String::from("\n");
        for _ in 0..t.depth {
            s.push_str("  ");
        }
        s
    } else {
        " ".to_string()
    }
}

/// render tokens to text; `gaps[i]` overrides the whitespace before token i; gap index
/// `toks.len()` is the trailing gap (default "\n").
pub fn render(toks: &[RTok], gaps: &HashMap<usize, String>) -> String {
    let mut s = String::new();
    for (i, t) in toks.iter().enumerate() {
        match gaps.get(&i) {
            Some(g) => s.push_str(g),
            None => s.push_str(&default_gap(toks, i)),
        }
        s.push_str(&t.text);
    }
    match gaps.get(&toks.len()) {
        Some(g) => s.push_str(g),
        None => s.push('\n'),
    }
    s
}

/// one token per line rendering (used where diagnostics must name a line): token i is on line i+1
pub fn render_one_per_line(toks: &[RTok]) -> String {
    let mut s = String::new();
    for t in toks {
        s.push_str(&t.text);
        s.push('\n');
    }
    s
}

/// all (parent_tag, child TagRef) slots of the grammar
pub fn all_slots(g: &Grammar) -> Vec<(String, TagRef)> {
    let mut v = Vec::new();
    let mut seen = std::collections::HashSet::new();
    for e in &g.elements {
        if e.special == Special::Root {
            continue;
        }
        let tag = &e.tags[0];
        if !seen.insert(tag.clone()) {
            continue;
        }
        for t in &e.tags {
            for r in &e.refs {
                v.push((t.clone(), r.clone()));
            }
            // multi-tag elements (AXIS_PTS_X/Y/..) share a definition and never have refs
            if e.refs.is_empty() {
                break;
            }
        }
    }
    v
}
