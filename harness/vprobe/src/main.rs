//! vprobe — transcript producer for C20. Built twice: against the shipped crate (/repo/a2lfile) and
//! against a copy whose specification module is the macro invocation on the specification DSL,
//! expanded by the in-tree a2lmacros. Depends on a2lfile and on vcore (for the canonical Debug form).
//!
//! usage: vprobe hashes <corpus>                 one line "<index> <strict> <hash>" per case
//!        vprobe full <corpus> <index> <strict>  the full transcript of one case

use std::io::Read;
use std::panic::{catch_unwind, AssertUnwindSafe};

fn read_corpus(path: &str) -> Vec<String> {
    let mut data = Vec::new();
    std::fs::File::open(path).expect("corpus").read_to_end(&mut data).expect("read");
    let mut out = Vec::new();
    let mut i = 0;
    while i + 4 <= data.len() {
        let n = u32::from_le_bytes([data[i], data[i + 1], data[i + 2], data[i + 3]]) as usize;
        i += 4;
        out.push(String::from_utf8_lossy(&data[i..i + n]).into_owned());
        i += n;
    }
    out
}

/// a corpus entry that is a file tree: "\u{1}TREE" + one "\u{1}FILE <name>\n<content>" section per file (the first is the main file)
fn tree_files(text: &str) -> Option<Vec<(String, String)>> {
    let rest = text.strip_prefix("\u{1}TREE")?;
    let mut out = Vec::new();
    for sec in rest.split("\u{1}FILE ").skip(1) {
        let (name, content) = sec.split_once('\n')?;
        out.push((name.to_string(), content.to_string()));
    }
    Some(out)
}

fn transcript(text: &str, strict: bool) -> String {
    let r = catch_unwind(AssertUnwindSafe(|| {
        let mut t = String::new();
        // file trees are materialised in a private directory; its path is removed from the transcript
        let mut tree_dir: Option<std::path::PathBuf> = None;
        let loaded = match tree_files(text) {
            Some(files) => {
                let base = if std::path::Path::new("/dev/shm").is_dir() { std::path::PathBuf::from("/dev/shm") } else { std::env::temp_dir() };
                let d = base.join(format!("verif-c20-tree-{}-{:?}", std::process::id(), std::thread::current().id()).replace(['(', ')'], ""));
                let _ = std::fs::remove_dir_all(&d);
                for (n, c) in &files {
                    let p = d.join(n);
                    if let Some(parent) = p.parent() {
                        let _ = std::fs::create_dir_all(parent);
                    }
                    let _ = std::fs::write(&p, c);
                }
                let main = d.join(&files[0].0);
                tree_dir = Some(d);
                a2lfile::load(&main, None, strict)
            }
            None => a2lfile::load_from_string(text, None, strict),
        };
        let strip = |s: String| -> String {
            match &tree_dir {
                Some(d) => s.replace(&*d.to_string_lossy(), "<dir>"),
                None => s,
            }
        };
        match loaded {
            Ok((f, log)) => {
                t.push_str("OK\n");
                // (hash maps inside generic IF_DATA print in a per-process order: canonical form)
                t.push_str(&vcore::dbgtree::canon_debug(&format!("{f:?}")));
                t.push('\n');
                for e in &log {
                    t.push_str(&strip(format!("DIAG {e}\n")));
                }
                t.push_str("--- written\n");
                t.push_str(&f.write_to_string());
                t.push_str(&format!("\n--- check: {}\n", f.check().len()));
                // a second generation: sort and write again (writer + position restrictions + uid handling)
                let mut f2 = f.clone();
                f2.sort();
                t.push_str("--- sorted\n");
                t.push_str(&f2.write_to_string());
            }
            Err(e) => {
                t.push_str(&strip(format!("ERR {e}\n")));
            }
        }
        if let Some(d) = &tree_dir {
            let _ = std::fs::remove_dir_all(d);
        }
        t
    }));
    match r {
        Ok(t) => t,
        Err(_) => "PANIC".to_string(),
    }
}

fn fnv1a(s: &[u8]) -> u64 {
    let mut h: u64 = 0xcbf29ce484222325;
    for b in s {
        h ^= *b as u64;
        h = h.wrapping_mul(0x100000001b3);
    }
    h
}

fn main() {
    std::panic::set_hook(Box::new(|_| {}));
    let args: Vec<String> = std::env::args().collect();
    let corpus = read_corpus(&args[2]);
    match args[1].as_str() {
        "hashes" => {
            let n = corpus.len();
            let threads = std::thread::available_parallelism().map(|x| x.get()).unwrap_or(8).min(16);
            let chunk = (n + threads - 1) / threads.max(1);
            let corpus = std::sync::Arc::new(corpus);
            let mut handles = Vec::new();
            for t in 0..threads {
                let c = corpus.clone();
                handles.push(std::thread::Builder::new().stack_size(256 << 20).spawn(move || {
                    let mut out = String::new();
                    for i in (t * chunk)..((t + 1) * chunk).min(n) {
                        for strict in [false, true] {
                            let tr = transcript(&c[i], strict);
                            out.push_str(&format!("{i} {} {:016x} {}\n", strict as u8, fnv1a(tr.as_bytes()), &tr[..tr.len().min(2)]));
                        }
                    }
                    out
                }).unwrap());
            }
            for h in handles {
                print!("{}", h.join().unwrap());
            }
        }
        "full" => {
            let i: usize = args[3].parse().unwrap();
            let strict = args[4] == "1";
            println!("=== input\n{}\n=== transcript (strict={strict})\n{}", corpus[i], transcript(&corpus[i], strict));
        }
        _ => eprintln!("usage: vprobe hashes|full <corpus> ..."),
    }
}
