//! vprobe — transcript producer for C20. Built twice: against the shipped crate (/repo/a2lfile) and
//! against a copy whose specification module is the macro invocation on the specification DSL,
//! expanded by the in-tree a2lmacros. Depends on a2lfile and on vcore (for the canonical Debug form).
//!
//! usage: vprobe hashes <corpus>                 one line "<index> <strict> <hash>" per case
//!        vprobe full <corpus> <index> <strict>  the full transcript of one case

use std::io::Read;
use std::panic::{catch_unwind, AssertUnwindSafe};

fn read_corpus(path: &str) -> Vec<String> {
    let mut data = Vec::new();
    std::fs::File::open(path).expect("corpus").read_to_end(&mut data).expect("read");
    let mut out = Vec::new();
    let mut i = 0;
    while i + 4 <= data.len() {
        let n = u32::from_le_bytes([data[i], data[i + 1], data[i + 2], data[i + 3]]) as usize;
        i += 4;
        out.push(String::from_utf8_lossy(&data[i..i + n]).into_owned());
        i += n;
    }
    out
}

fn transcript(text: &str, strict: bool) -> String {
    let r = catch_unwind(AssertUnwindSafe(|| {
        let mut t = String::new();
        match a2lfile::load_from_string(text, None, strict) {
            Ok((f, log)) => {
                t.push_str("OK\n");
                // (hash maps inside generic IF_DATA print in a per-process order: canonical form)
                t.push_str(&vcore::dbgtree::canon_debug(&format!("{f:?}")));
                t.push('\n');
                for e in &log {
                    t.push_str(&format!("DIAG {e}\n"));
                }
                t.push_str("--- written\n");
                t.push_str(&f.write_to_string());
                t.push_str(&format!("\n--- check: {}\n", f.check().len()));
                // a second generation: sort and write again (writer + position restrictions + uid handling)
                let mut f2 = f.clone();
                f2.sort();
                t.push_str("--- sorted\n");
                t.push_str(&f2.write_to_string());
            }
            Err(e) => {
                t.push_str(&format!("ERR {e}\n"));
            }
        }
        t
    }));
    match r {
        Ok(t) => t,
        Err(_) => "PANIC".to_string(),
    }
}

fn fnv1a(s: &[u8]) -> u64 {
    let mut h: u64 = 0xcbf29ce484222325;
    for b in s {
        h ^= *b as u64;
        h = h.wrapping_mul(0x100000001b3);
    }
    h
}

fn main() {
    std::panic::set_hook(Box::new(|_| {}));
    let args: Vec<String> = std::env::args().collect();
    let corpus = read_corpus(&args[2]);
    match args[1].as_str() {
        "hashes" => {
            let n = corpus.len();
            let threads = std::thread::available_parallelism().map(|x| x.get()).unwrap_or(8).min(16);
            let chunk = (n + threads - 1) / threads.max(1);
            let corpus = std::sync::Arc::new(corpus);
            let mut handles = Vec::new();
            for t in 0..threads {
                let c = corpus.clone();
                handles.push(std::thread::Builder::new().stack_size(256 << 20).spawn(move || {
                    let mut out = String::new();
                    for i in (t * chunk)..((t + 1) * chunk).min(n) {
                        for strict in [false, true] {
                            let tr = transcript(&c[i], strict);
                            out.push_str(&format!("{i} {} {:016x} {}\n", strict as u8, fnv1a(tr.as_bytes()), &tr[..tr.len().min(2)]));
                        }
                    }
                    out
                }).unwrap());
            }
            for h in handles {
                print!("{}", h.join().unwrap());
            }
        }
        "full" => {
            let i: usize = args[3].parse().unwrap();
            let strict = args[4] == "1";
            println!("=== input\n{}\n=== transcript (strict={strict})\n{}", corpus[i], transcript(&corpus[i], strict));
        }
        _ => eprintln!("usage: vprobe hashes|full <corpus> ..."),
    }
}
